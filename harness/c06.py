"""C06 — PEPs and alternative q-value estimators: range, monotonicity, ties, alignment.

Implementation under test (called in-process, unmodified):
  mokapot.peps.peps_from_scores(scores, targets, "qvality" | "kde_nnls" | "hist_nnls")
  mokapot.qvalues.qvalues_from_scores(scores, targets, "from_peps" | "from_counts")
  posterior_error_prob column of the files written by mokapot.assign_confidence

The numeric kernels (triqler spline, gaussian_kde grid, np.histogram midpoints, scipy nnls,
estimate_pi0_by_slope) are abstract parameters of the Lean model.  The harness records what the
real kernels return on every call (pass-through wrappers on module attributes, no change to
/repo), asserts the hypotheses of the theorems on those values, and feeds them to the model; the
composition logic around them (sort / scatter, cumulative sums, running max, interpolation,
scaling, clipping) is what the model computes and what is compared.
"""
from __future__ import annotations

import contextlib
import io
import itertools
import json
import math
import tempfile
import warnings
from fractions import Fraction
from pathlib import Path

import numpy as np
import pandas as pd

import common
import pipeline as P
from common import Atom, a_int, a_rat, deep, dec, req

RULE = (
    "all cases are functions of VERIF_SEED (two streams: chk.rng for the dimensions of the first build, a second stream "
    "seeded from the same seed for the dimensions added in the second pass); "
    "cases = (target/decoy score mixture: size 100..3000 with >= 50 targets and >= 50 decoys, null shape "
    "(normal, Gumbel, logistic, bimodal, exponential = mode at the left edge), pi0, separation, tie granularity (none .. integer scores), affine rescaling, input arrangement "
    "(random permutation, sorted either way, targets first, interleaved), estimator); every case is evaluated "
    "on the input and on an independently permuted copy; distinct = distinct (estimator, size, tie granularity, "
    "arrangement, score multiset hash); non-trivial = input not already in descending score order (alignment "
    "is observable) or ties present; thorough adds exhaustive small-scope sweeps of the real composition code "
    "(np.interp/monotonize_simple primitives, the qvality wrapper with a stub kernel over all score vectors in "
    "{0,1,2}^n, n<=6 and all labellings, qvalues_from_peps / qvalues_from_counts over all such vectors); "
    "every estimator is reached through its entry point with the name given positionally, by keyword or (qvality) "
    "omitted; dispatch cases = (table PEP_ALGORITHM | QVALUE_ALGORITHM) x (every table name, names of the other "
    "table, unknown / mutated names, omitted argument) x call form; writer cases = all label vectors of levels "
    "with <= 4 (thorough 6) rows x every chunk size 1..n+1 x decoys on/off through write_confidences + create_chunks "
    "+ the chunked reader, plus sequences of unequal lengths; result-file runs = assign_confidence on (PIN | "
    "Parquet) x CONFIDENCE_CHUNK_SIZE (1,2,3,5,7,n-1,n,n+1 on small levels; 37..150 on levels of 250-400 rows) x "
    "decoys on/off x descs [True]|[False] x qvalue_algorithm x peps_error, with the PEP estimator real (hist_nnls, "
    "kde_nnls; thorough also qvality) or replaced by a stub (pointwise function, all ones, SystemExit 'no decoy "
    "hits', other SystemExit, exception); SECOND PASS: mixture kind (regular = incorrect + correct targets | separated = "
    "no incorrect target, pi0 = 0, targets 3..8 sd above the decoys | outlier = 1-3 PSMs far away | target_tail = decoys "
    "reaching below every target), the first three cases of every estimator are one of each non-regular kind; the "
    "permuted copy is handed over read-only or as a strided view, and the caller's arrays must be unchanged after "
    "every call; every call of estimate_pi0_by_slope and the NNLS input of kde_nnls are compared with "
    "Model/PepsKernel.lean; result-file runs also with any subset of the extra roll-up levels (ModifiedPeptide, "
    "Precursor, PeptideGroup) and with proteins=, header line of every result file; roll-up tool runs = "
    "brew_rollup.main on result files of assign_confidence x base level (psm | precursor | peptide) x extra levels x "
    "options given | defaulted x PEP estimator real (hist_nnls; thorough also kde_nnls, qvality) or stub (pointwise, "
    "ones, SystemExit, exception); THIRD PASS (third stream): on every real estimator case the histogram side is compared with "
    "Model/PepsHist.lean (counts exactly; midpoints / densities / the system handed to scipy.optimize.nnls / the values from the "
    "bin edges or densities on within the float tolerance); re-use cases = estimator (entry point | function called directly) x "
    "(data set A, then the same two array objects refilled in place with B, third call, data set C in objects allocated right "
    "after the first were freed, A again), every answer compared bit for bit with a first call on distinct live objects; "
    "small-scope sweeps = fit_nnls on all count vectors in {0,1,2,3}^N (N <= 3, thorough 5) + random longer ones, "
    "hist_data_from_scores with explicit edges on all score vectors over 6 values (on / between / outside the edges) x all "
    "labellings x 3 edge sets x density on/off (n <= 2, thorough 3)"
)

TOL = 1e-9          # float64 composition vs. exact rational model
MONO_TOL = 1e-12    # rounding slack of slope*(x-x0)+y0 next to a knot
PEP_ALGS = ["qvality", "kde_nnls", "hist_nnls"]
Q_ALGS = ["from_peps", "from_counts"]


# ----------------------------------------------------------------------------------------------
# recording the kernels
# ----------------------------------------------------------------------------------------------
class Rec:
    def __init__(self):
        self.nnls = []        # solutions d
        self.qvality = []     # (target_scores, decoy_scores, peps)
        self.kde_grid = []    # eval_scores of pdfs_from_scores
        self.hist_grid = []   # eval_scores of hist_data_from_scores
        self.pi0 = []
        self.hist_peps = []   # output of peps_from_scores_hist_nnls when used by qvalues_from_peps
        self.pi0_calls = []   # estimate_pi0_by_slope: dict(t=target_pdf, d=decoy_pdf, thr=threshold, out=value)
        self.mono_in = []     # monotonize_nnls(x, w, ascending=False): (x, w) of the outer call
        self.inputs_modified = None   # which of the caller's arrays the estimator changed in place
        self.nnls_in = []     # (A, b) handed to scipy.optimize.nnls (third pass)
        self.hist_calls = []  # hist_data_from_scores: dict(scores, targets, density, edges, out=(es, tc, dc))


@contextlib.contextmanager
def recording(stub_kernel=None, stub_pi0=None):
    """pass-through wrappers around the kernels (module attributes only)"""
    import mokapot.peps as P
    import mokapot.qvalues as Q
    from triqler import qvality as TQ

    rec = Rec()
    saved = []

    def patch(mod, name, fn):
        saved.append((mod, name, getattr(mod, name)))
        setattr(mod, name, fn)

    o_nnls = P.nnls

    def nnls(*a, **k):
        r = o_nnls(*a, **k)   # (SciPy >= 1.17 refuses `atol` with a TypeError: fit_nnls then calls again without it)
        try:
            rec.nnls_in.append((np.array(a[0], dtype=float), np.array(a[1], dtype=float)))
        except Exception:  # noqa: BLE001
            rec.nnls_in.append(None)
        rec.nnls.append(np.array(r[0], dtype=float))
        return r

    o_q = TQ.getQvaluesFromScores

    def getq(ts, ds, **k):
        ts0, ds0 = np.array(ts, dtype=float), np.array(ds, dtype=float)
        if stub_kernel is not None:
            r = (None, stub_kernel(ts0, ds0))
        else:
            r = o_q(ts, ds, **k)
        rec.qvality.append((ts0, ds0, np.array(r[1], dtype=float)))
        return r

    o_pdfs = P.pdfs_from_scores

    def pdfs(*a, **k):
        r = o_pdfs(*a, **k)
        rec.kde_grid.append(np.array(r[0], dtype=float))
        return r

    def mk_hist(orig):
        def hist(*a, **k):
            if stub_pi0 is not None:
                return None, None, None
            r = orig(*a, **k)
            rec.hist_grid.append(np.array(r[0], dtype=float))
            try:
                sc = np.array(a[0], dtype=float)
                tg = np.array(a[1], dtype=bool)
                bins = a[2] if len(a) > 2 else k.get("bins")
                dens = a[3] if len(a) > 3 else k.get("density", False)
                # the trusted kernel: numpy's automatic joint bin edges of ALL scores (what the model's `binEdges`
                # parameter stands for); how the code uses them is the model's
                edges = np.histogram_bin_edges(sc, bins="auto") if bins is None else np.array(bins, dtype=float)
                rec.hist_calls.append(dict(scores=sc, targets=tg, density=bool(dens), edges=np.array(edges, dtype=float),
                                           out=tuple(np.array(x) for x in r)))
            except Exception:  # noqa: BLE001
                rec.hist_calls.append(None)
            return r
        return hist

    def mk_pi0(orig):
        def pi0(*a, **k):
            if stub_pi0 is None:
                ent = dict(t=np.array(a[0], dtype=float), d=np.array(a[1], dtype=float),
                           thr=(a[2] if len(a) > 2 else k.get("threshold", 0.9)))
            r = stub_pi0 if stub_pi0 is not None else orig(*a, **k)
            rec.pi0.append(float(r))
            if stub_pi0 is None:
                ent["out"] = float(r)
                rec.pi0_calls.append(ent)
            return r
        return pi0

    o_mono = P.monotonize_nnls

    def mono(x, w=None, ascending=True):
        if not ascending:   # the call of kde_nnls (the function re-enters itself with the reversed problem)
            rec.mono_in.append((np.array(x, dtype=float), None if w is None else np.array(w, dtype=float)))
        return o_mono(x, w, ascending)

    o_hp = Q.peps_from_scores_hist_nnls

    def hp(*a, **k):
        r = o_hp(*a, **k)
        rec.hist_peps.append(np.array(r, dtype=float))
        return r

    patch(P, "nnls", nnls)
    patch(TQ, "getQvaluesFromScores", getq)
    patch(P, "pdfs_from_scores", pdfs)
    patch(P, "hist_data_from_scores", mk_hist(P.hist_data_from_scores))
    patch(Q, "hist_data_from_scores", mk_hist(Q.hist_data_from_scores))
    patch(P, "estimate_pi0_by_slope", mk_pi0(P.estimate_pi0_by_slope))
    patch(Q, "estimate_pi0_by_slope", mk_pi0(Q.estimate_pi0_by_slope))
    patch(Q, "peps_from_scores_hist_nnls", hp)
    patch(P, "monotonize_nnls", mono)
    try:
        yield rec
    finally:
        for mod, name, old in reversed(saved):
            setattr(mod, name, old)


def same_kernel_record(a, b):
    """did the numeric kernels return the same values in two runs (bit for bit, as multisets of arrays)?"""
    def key(r):
        out = []
        for name in ("nnls", "kde_grid", "hist_grid", "pi0", "hist_peps"):
            for x in getattr(r, name):
                out.append((name, np.asarray(x, dtype=float).tobytes()))
        for ts, ds, pe in r.qvality:
            out.append(("qvality", np.sort(np.asarray(ts, dtype=float)).tobytes(), np.sort(np.asarray(ds, dtype=float)).tobytes(),
                        np.asarray(pe, dtype=float).tobytes()))
        return sorted(out)

    return key(a) == key(b)


INPUT_VIEWS = ["plain", "readonly", "strided"]


def as_view(x, view):
    """the same values as a fresh array / a read-only array (what pandas hands out under copy-on-write) / a
    non-contiguous view with stride 2 (a column of a 2-d table)"""
    x = np.array(x)
    if view == "readonly":
        x.setflags(write=False)
    elif view == "strided":
        big = np.empty(2 * len(x), dtype=x.dtype)
        big[::2] = x
        big[1::2] = x[::-1] if len(x) else x
        x = big[::2]
    return x


def run_impl(alg, s, t, form="positional", view="plain", **kw):
    """-> (output array, Rec); exceptions propagate (with the record so far as `_c06_rec`).  `form`: how the
    algorithm name is handed to the entry point: "positional", "keyword", or "default" (argument omitted; only for
    the default estimator qvality); `view`: memory layout / writability of the two arrays handed over"""
    import mokapot.peps as P
    import mokapot.qvalues as Q

    s0 = np.array(s, dtype=float)
    t0 = np.array(t, dtype=bool)
    s = as_view(s0, view)  # private copies: the code may sort / assign in place
    t = as_view(t0, view)
    with recording(**kw) as rec, warnings.catch_warnings(), np.errstate(all="ignore"):
        warnings.simplefilter("ignore")
        try:
            if alg in PEP_ALGS:
                if form == "default":
                    assert alg == "qvality"
                    out = P.peps_from_scores(s, t)
                elif form == "keyword":
                    out = P.peps_from_scores(s, t, pep_algorithm=alg)
                else:
                    out = P.peps_from_scores(s, t, alg)
            else:
                if form == "keyword":
                    out = Q.qvalues_from_scores(s, t, qvalue_algorithm=alg)
                else:
                    out = Q.qvalues_from_scores(s, t, alg)
        except BaseException as e:
            try:
                e._c06_rec = rec
            except Exception:  # noqa: BLE001
                pass
            raise
    changed = [nm for nm, a, b in (("scores", s, s0), ("targets", t, t0)) if not np.array_equal(a, b)]
    rec.inputs_modified = changed or None
    return np.asarray(out, dtype=float), rec


# ----------------------------------------------------------------------------------------------
# generators
# ----------------------------------------------------------------------------------------------
def draw(rng, shape, n, loc, scale):
    if shape == "normal":
        return [rng.gauss(loc, scale) for _ in range(n)]
    if shape == "gumbel":
        return [loc - scale * math.log(-math.log(rng.random() or 1e-12)) for _ in range(n)]
    if shape == "logistic":
        out = []
        for _ in range(n):
            u = min(max(rng.random(), 1e-12), 1 - 1e-12)
            out.append(loc + scale * math.log(u / (1 - u)))
        return out
    if shape == "expo":  # mode at the left edge (scores cut off at a lower bound)
        return [loc - scale * math.log(1.0 - min(rng.random(), 1 - 1e-12)) for _ in range(n)]
    if shape == "bimodal":
        return [rng.gauss(loc + (1.5 * scale if rng.random() < 0.3 else 0.0), scale) for _ in range(n)]
    raise AssertionError(shape)


ARRANGEMENTS = ["random", "random", "random", "desc", "asc", "targets_first", "interleaved"]


MIXTURES = ["regular", "regular", "regular", "regular", "regular", "regular", "separated", "separated", "outlier",
            "target_tail"]


def gen_case(rng, nmax, mixture=None):
    """`mixture`: "regular" = targets are a mix of incorrect (null-distributed) and correct ones, pi0 0.2..0.8;
    "separated" = no incorrect target at all (pi0 = 0: a filtered or very clean target list), the targets lie
    3..8 decoy standard deviations above the decoys; "outlier" = a regular mixture plus 1-3 PSMs scoring far away
    from everything else; "target_tail" = a regular mixture whose decoys reach further down than any target"""
    mixture = mixture or rng.choice(MIXTURES)
    nt = rng.choice([50, 60, 80, 120, 200, 300, 500, 800, 1500])
    nd = rng.choice([50, 60, 80, 120, 200, 300, 500, 800, 1500])
    while nt + nd > nmax:
        nt, nd = max(50, nt // 2), max(50, nd // 2)
    shape = rng.choice(["normal", "normal", "gumbel", "logistic", "bimodal", "expo"])
    pi0 = rng.choice([0.2, 0.4, 0.6, 0.8])
    sep = rng.choice([1.5, 2.5, 4.0, 6.0])
    if mixture == "separated":
        pi0, sep = 0.0, rng.choice([3.0, 5.0, 8.0])
        tgt = draw(rng, "normal", nt, sep, rng.choice([0.5, 1.0]))
    else:
        n_false = min(nt - 5, max(5, int(round(pi0 * nt))))
        tgt = draw(rng, shape, n_false, 0.0, 1.0) + draw(rng, "normal", nt - n_false, sep, rng.choice([0.7, 1.0, 1.5]))
    dec_ = draw(rng, shape, nd, 0.0, 1.0)
    if mixture == "outlier":
        for _ in range(rng.randint(1, 3)):
            far = rng.choice([-1.0, 1.0]) * rng.choice([20.0, 60.0, 200.0])
            if rng.random() < 0.5:
                tgt[rng.randrange(len(tgt))] = far
            else:
                dec_[rng.randrange(len(dec_))] = far
    elif mixture == "target_tail":
        lo = min(tgt)
        dec_ = [x if x > lo else x - rng.choice([5.0, 15.0, 40.0]) for x in dec_]
        if min(dec_) > lo:
            dec_[rng.randrange(len(dec_))] = lo - rng.choice([5.0, 15.0, 40.0])
    gran = rng.choice([None, None, 64, 16, 8, 4, 2, 1])
    a = rng.choice([1.0, 1.0, 0.25, 8.0, 64.0])
    b = rng.choice([0.0, 0.0, -3.0, 10.0, 100.0])
    rows = [(x, True) for x in tgt] + [(x, False) for x in dec_]
    if gran is not None:
        rows = [(round(x * gran) / gran, l) for x, l in rows]
    rows = [(a * x + b, l) for x, l in rows]
    arr = rng.choice(ARRANGEMENTS)
    rows = arrange(rng, rows, arr)
    return dict(scores=[r[0] for r in rows], labels=[r[1] for r in rows], shape=shape, gran=gran, arr=arr,
                pi0=pi0, sep=sep, mixture=mixture)


def arrange(rng, rows, arr):
    rows = list(rows)
    rng.shuffle(rows)
    if arr == "desc":
        rows.sort(key=lambda r: -r[0])
    elif arr == "asc":
        rows.sort(key=lambda r: r[0])
    elif arr == "targets_first":
        rows.sort(key=lambda r: not r[1])
    elif arr == "interleaved":
        t = [r for r in rows if r[1]]
        d = [r for r in rows if not r[1]]
        rows = [x for pair in itertools.zip_longest(t, d) for x in pair if x is not None]
    return rows


# ----------------------------------------------------------------------------------------------
# spec on the implementation's output (direct re-statement, independent of the model)
# ----------------------------------------------------------------------------------------------
def td_tie(s, t):
    ts = set(s[t].tolist())
    return any(x in ts for x in s[~t].tolist())


def spec_clauses(alg, s, out):
    """first violated clause of: one finite value per PSM in range, monotone in score, equal for equal scores"""
    if out.shape != s.shape:
        return f"length: {out.shape} values for {s.shape} PSMs"
    is_pep = alg in PEP_ALGS
    if np.isnan(out).any():
        return "nan value"
    if is_pep and not np.isfinite(out).all():
        return "non-finite PEP"
    if (out < 0).any():
        return "negative value"
    if is_pep and (out > 1).any():
        return "PEP > 1"
    o = np.argsort(s, kind="stable")
    ss, oo = s[o], out[o]
    # equal scores -> equal values (exact: the value must be a function of the score)
    same = ss[1:] == ss[:-1]
    if (oo[1:][same] != oo[:-1][same]).any():
        k = int(np.nonzero(same & (oo[1:] != oo[:-1]))[0][0])
        return f"ties: score {ss[k]!r} has values {oo[k]!r} and {oo[k + 1]!r}"
    # never decreases as the score worsens == non-increasing in ascending score order
    with np.errstate(invalid="ignore"):
        inc = oo[1:] - oo[:-1]
    inc = np.where(np.isnan(inc), 0.0, inc)  # inf - inf
    if (inc > MONO_TOL).any():
        k = int(np.nonzero(inc > MONO_TOL)[0][0])
        return f"monotone: score {ss[k]!r}->{ss[k + 1]!r} value {oo[k]!r}->{oo[k + 1]!r}"
    return None


def close(a, b):
    a = np.asarray(a, dtype=float)
    b = np.asarray(b, dtype=float)
    if a.shape != b.shape:
        return False
    both_inf = np.isinf(a) & np.isinf(b) & (np.sign(a) == np.sign(b))
    with np.errstate(invalid="ignore"):
        ok = np.abs(a - b) <= TOL * (1.0 + np.abs(b))
    return bool(np.all(ok | both_inf))


# ----------------------------------------------------------------------------------------------
# kernel hypotheses of the theorems, asserted on the recorded kernel outputs
# ----------------------------------------------------------------------------------------------
def kernel_hypotheses(alg, s, t, rec):
    """-> list of violated hypotheses (strings)"""
    bad = []
    n = len(s)
    if alg == "qvality":
        if len(rec.qvality) != 1:
            return [f"qvality kernel called {len(rec.qvality)} times"]
        ts, ds, p = rec.qvality[0]
        if sorted(ts.tolist()) != sorted(s[t].tolist()) or sorted(ds.tolist()) != sorted(s[~t].tolist()):
            bad.append("kernel did not receive scores[targets], scores[~targets]")
        if len(p) != n:
            bad.append("kernel returned %d values for %d PSMs" % (len(p), n))
            return bad
        sd = np.sort(s)[::-1]
        if not np.isfinite(p).all() or (p < 0).any() or (p > 1).any():
            bad.append("kernel output outside [0,1]")
        if (np.diff(p) < 0).any():
            bad.append("kernel output decreases along descending scores")
        if (np.diff(p)[sd[1:] == sd[:-1]] != 0).any():
            bad.append("kernel output differs on equal scores")
    elif alg in ("kde_nnls", "hist_nnls", "from_peps"):
        if len(rec.nnls) != 1:
            return [f"nnls called {len(rec.nnls)} times"]
        d = rec.nnls[0]
        if not np.isfinite(d).all() or (d < 0).any():
            bad.append("nnls solution has a negative or non-finite entry")
        grid = rec.kde_grid if alg == "kde_nnls" else rec.hist_grid
        if len(grid) != 1:
            return bad + [f"grid computed {len(grid)} times"]
        es = grid[0]
        if len(es) != len(d):
            bad.append("grid and nnls solution differ in length")
        if len(es) < 1 or (np.diff(es) <= 0).any() or not np.isfinite(es).all():
            bad.append("evaluation grid not strictly ascending")
        # (an identically zero fit is no longer a hypothesis of any theorem: since the repair 835a908 it is left
        #  unscaled and every PSM gets PEP 0 — C06_hist_nnls_defined_iff; tallied as `hist_zero_fit_unscaled`)
    elif alg == "from_counts":
        if len(rec.pi0) != 1:
            return [f"pi0 estimated {len(rec.pi0)} times"]
        if not (rec.pi0[0] > 0 and math.isfinite(rec.pi0[0])):
            bad.append("pi0 not positive finite")
    return bad


# ----------------------------------------------------------------------------------------------
# model requests
# ----------------------------------------------------------------------------------------------
def hyp_kernel(alg):
    return {"qvality": "triqler.qvality", "from_counts": "estimate_pi0_by_slope"}.get(alg, "scipy.optimize.nnls")


def F(x):
    return Fraction(float(x))


def fl(xs):
    return [F(x) for x in xs]


def psms(s, t):
    return [[F(x), bool(l)] for x, l in zip(s, t)]


def model_request(alg, s, t, rec):
    """request line for the model of `alg` given the recorded kernel outputs (None if not applicable)"""
    if alg == "qvality":
        return req("qvalitywrap", fl(rec.qvality[0][2]), psms(s, t))
    if alg == "kde_nnls":
        return req("kdepeps", fl(rec.kde_grid[0]), fl(rec.nnls[0]), fl(s))
    if alg == "hist_nnls":
        return req("histpeps", fl(rec.hist_grid[0]), fl(rec.nnls[0]), fl(s))
    ind = [int(i) for i in np.argsort(-np.array(s, dtype=float))]  # what the code computes on this array
    if alg == "from_peps":
        return req("frompeps", psms(s, t), fl(rec.hist_peps[0]), ind)
    if alg == "from_counts":
        c = rec.pi0[0] * (float(np.sum(t)) / float(np.sum(~t)))
        return req("fromcounts", F(c), psms(s, t), ind)
    raise AssertionError(alg)


NONE = Atom("none")


def entry_requests(alg, s, t, rec, form="positional"):
    """requests for the models of the *entry points* (dispatch table + default pipelines of
    Model/PepsFile.lean), fed with the recorded kernel outputs only: [(op label, request line)]"""
    name = NONE if form == "default" else alg
    if alg == "qvality":
        return [("pepsfromscores", req("pepsfromscores", name, fl(rec.qvality[0][2]), [], [], psms(s, t)))]
    if alg == "kde_nnls":
        return [("pepsfromscores", req("pepsfromscores", name, [], fl(rec.kde_grid[0]), fl(rec.nnls[0]), psms(s, t)))]
    if alg == "hist_nnls":
        return [("pepsfromscores", req("pepsfromscores", name, [], fl(rec.hist_grid[0]), fl(rec.nnls[0]), psms(s, t)))]
    ind = [int(i) for i in np.argsort(-np.array(s, dtype=float))]
    if alg == "from_peps":
        if not rec.hist_grid or not rec.nnls:   # PEPs handed in by the caller: the default pipeline did not run
            return []
        # the PEPs are NOT read back from the code here: the model derives them from (grid, NNLS solution)
        return [("frompepshist", req("frompepshist", fl(rec.hist_grid[0]), fl(rec.nnls[0]), psms(s, t), ind))]
    if alg == "from_counts":
        return [("fromcountspi0", req("fromcountspi0", F(rec.pi0[0]), psms(s, t), ind))]
    return []


def parse_model(line):
    line = line.strip()
    if line.startswith("["):
        return np.array([float(x) for x in deep(a_rat, dec(line))], dtype=float)
    return line  # inf-all / nan-all / reject-*


# ----------------------------------------------------------------------------------------------
# evaluation of cases
# ----------------------------------------------------------------------------------------------
def jsonable(case, alg, perm=None):
    d = dict(alg=alg, scores=[float(x).hex() for x in case["scores"]], labels=[bool(x) for x in case["labels"]])
    for k in ("shape", "gran", "arr", "stub", "form", "mixture"):
        if k in case:
            d[k] = case[k]
    if perm is not None:
        d["perm"] = [int(i) for i in perm]
    return d


def from_json(d):
    c = dict(d)
    c["scores"] = [float.fromhex(x) for x in d["scores"]]
    return c


KERNEL_SITES = [  # (function name in the traceback, kernel label), innermost first
    ("polyfit", "estimate_pi0_by_slope"), ("estimate_pi0_by_slope", "estimate_pi0_by_slope"),
    ("nnls", "scipy.optimize.nnls"), ("_nnls", "scipy.optimize.nnls"),
    ("gaussian_kde", "gaussian_kde"), ("pdfs_from_scores", "gaussian_kde"),
    ("roughnessPenaltyIRLS", "triqler.qvality"), ("getQvaluesFromScores", "triqler.qvality"),
    ("getq", "triqler.qvality"), ("histogram_bin_edges", "np.histogram"), ("histogram", "np.histogram"),
]


def kernel_site(e):
    """the numeric kernel an exception was raised in (None: raised by the composition code itself)"""
    import traceback

    names = [f.name for f in traceback.extract_tb(e.__traceback__)]
    files = [f.filename for f in traceback.extract_tb(e.__traceback__)]
    for fn, label in KERNEL_SITES:
        if fn in names:
            return label
    if any("triqler" in f for f in files):
        return "triqler.qvality"
    if any("scipy" in f for f in files):
        return "scipy"
    return None


def in_quantifier(s, t):
    return t.sum() >= 50 and (~t).sum() >= 50 and len(set(s.tolist())) >= 10


def classify_exception(chk, case, alg, s, t, e, stub, permuted=False):
    site = kernel_site(e)
    rec = getattr(e, "_c06_rec", None)
    nan_input = (alg == "kde_nnls" and rec is not None and rec.mono_in and np.isnan(rec.mono_in[-1][0]).any())
    if stub or not in_quantifier(s, t):
        chk.reject(f"{alg}:{type(e).__name__}")
    elif nan_input:
        # the composition code itself produced the NaN (0/0 where gaussian_kde's target density underflows to 0): the
        # behaviour before the repair 835a908 (Mutants.kdeNnlsFullOld_violates); the repaired code and the model
        # answer 1 there (C06_kde_nnls_full_defined_iff)
        x, w = rec.mono_in[-1]
        chk.count("kde_zero_target_density", "raised")
        if rec.pi0_calls:
            chk._kside.append(("kdepepest", alg, case, x, req("kdepepest", F(rec.pi0_calls[-1]["out"]),
                                                                fl(rec.pi0_calls[-1]["t"]), fl(rec.pi0_calls[-1]["d"]))))
        chk.spec_violation("zero-target-density:kde_nnls",
                           dict(case=jsonable(case, alg), error=repr(e)[:300], estimator=alg,
                                nan_grid_points=int(np.isnan(x).sum()), grid_points=int(len(x)),
                                zero_target_density_points=int((w == 0).sum()) if w is not None else None,
                                clause="each PSM receives one finite PEP: the target density is exactly 0 on "
                                       f"{int(np.isnan(x).sum())} of {len(x)} evaluation points, pepEst = 1 - 0/0 = NaN "
                                       f"there, and the NNLS fit raised {type(e).__name__}"))
    elif site is not None:
        # hard failure inside a numeric kernel on an in-scope input: reported, never patched over
        chk.spec_violation(f"kernel-numerics:{site}",
                           dict(case=jsonable(case, alg), error=repr(e)[:300], estimator=alg,
                                clause=f"each PSM receives a value: {site} raised {type(e).__name__}"))
    else:
        chk.spec_violation(f"exception{'-permuted' if permuted else ''}:{alg}:{type(e).__name__}",
                           dict(case=jsonable(case, alg), error=repr(e)[:300],
                                clause="each PSM receives a value: the estimator raised"))


def pi0_request(call):
    """request line for the model of one recorded call of estimate_pi0_by_slope.  The product threshold * max and
    the slope of np.polyfit are computed here with the same numpy primitives on the same arrays (they are the
    parameters of the model); which branch is taken and what is returned is the model's"""
    t, d, thr = call["t"], call["d"], call["thr"]
    v = thr * np.max(d)
    hit = np.nonzero(d >= v)[0]
    li = int(hit[0]) if len(hit) else 0
    slope = 0.0
    if li >= 2 and np.ptp(d[:li]) != 0:
        with warnings.catch_warnings():
            warnings.simplefilter("ignore")
            slope = float(np.polyfit(d[:li], t[:li], 1)[0])
    if not (math.isfinite(float(v)) and math.isfinite(slope)):
        return None, li
    return req("pi0byslope", F(v), fl(d), F(slope)), li


def kernel_side_requests(chk, alg, case, rec):
    """queue the comparisons of the composition code between the raw densities / counts and the NNLS fit with
    Model/PepsKernel.lean: every recorded call of estimate_pi0_by_slope, and the vector kde_nnls hands to
    monotonize_nnls"""
    for call in rec.pi0_calls:
        if not (np.isfinite(call["t"]).all() and np.isfinite(call["d"]).all() and len(call["d"])):
            chk.reject(f"{alg}:non-finite-density")
            continue
        line, li = pi0_request(call)
        chk.count("pi0_branch", "no-flank" if (li < 2 or np.ptp(call["d"][:li]) == 0) else
                  ("clamped" if call["out"] <= 1e-10 else "slope"))
        if line is not None:
            chk._kside.append(("pi0byslope", alg, case, call["out"], line))
    if alg == "kde_nnls" and rec.mono_in and rec.pi0_calls:
        x, w = rec.mono_in[-1]
        c = rec.pi0_calls[-1]
        chk.count("kde_zero_target_density", bool((c["t"] == 0).any()))
        chk._kside.append(("kdepepest", alg, case, x, req("kdepepest", F(c["out"]), fl(c["t"]), fl(c["d"])), c["t"]))
    if alg in ("hist_nnls", "from_peps") and rec.pi0_calls:
        chk.count("hist_zero_target_bins", bool((rec.pi0_calls[-1]["t"] == 0).any()))
        chk.count("hist_zero_fit_unscaled", bool(len(rec.nnls) == 1 and not rec.nnls[0].any()))


def flush_kernel_side(chk):
    ks = getattr(chk, "_kside", None)
    if not ks:
        return
    resp = common.driver_batch([k[4] for k in ks])
    for (op, alg, case, impl, *rest), r in zip(ks, resp):
        r = r.strip()
        tden = rest[1] if len(rest) > 1 else None
        if op == "pi0byslope":
            try:
                m = a_rat(dec(r)[0]) if r.startswith("[") else r
            except Exception:  # noqa: BLE001
                m = r
            # max / the constants 1.0 and 1e-10 involve no rounding: exact; on the slope branch one ulp of slack for
            # np.polyfit called twice (BLAS may round differently on differently aligned copies)
            same = (not isinstance(m, str)) and (Fraction(m) == F(impl) or (
                Fraction(m) > F(1e-10) and abs(float(m) - float(impl)) <= 1e-12 * max(1.0, abs(float(impl)))))
            if not same:
                chk.corr_break(f"pi0byslope:{alg}", dict(case=jsonable(case, alg), impl=float(impl), model=str(m)))
            else:
                chk.count("kernel_side_agrees", f"pi0byslope:{alg}")
        else:
            if r == "nan":
                ok = bool(np.isnan(impl).any())
            elif r.startswith("["):
                m = np.array([float(x) for x in deep(a_rat, dec(r))], dtype=float)
                ok = (not np.isnan(impl).any()) and close(impl, m)
                if not ok and tden is not None and impl.shape == m.shape == tden.shape and not np.isnan(impl).any():
                    # subnormal densities (the KDE tail around 1e-316): `decoy_pdf * pi0` and the difference carry
                    # an absolute error of a few units of 2^-1074, i.e. a relative error of that over target_pdf
                    with np.errstate(all="ignore"):
                        slack = np.where(tden > 0, 8 * 5e-324 / np.where(tden > 0, tden, 1.0), 0.0)
                    ok = bool(np.all(np.abs(impl - m) <= TOL * (1.0 + np.abs(m)) + slack))
                    if ok:
                        chk.float_boundary += 1
                        chk.count("kdepepest_subnormal_density_slack")
            else:
                ok = False
            if not ok:
                chk.corr_break(f"kdepepest:{alg}", dict(case=jsonable(case, alg), impl=[float(x) for x in impl[:40]],
                                                        model=r[:400]))
            else:
                chk.count("kernel_side_agrees", f"kdepepest:{alg}:{'nan' if r == 'nan' else 'values'}")
    del ks[:]


# ----------------------------------------------------------------------------------------------
# THIRD PASS: the histogram side and the NNLS systems (Model/PepsHist.lean)
# ----------------------------------------------------------------------------------------------
def v_slope(t, d, thr):
    """the two numeric parameters of the model of estimate_pi0_by_slope (the float product threshold * max and
    np.polyfit's slope), computed with the same numpy primitives on the same arrays -> (v, slope, last_index)"""
    v = thr * np.max(d)
    hit = np.nonzero(d >= v)[0]
    li = int(hit[0]) if len(hit) else 0
    slope = 0.0
    if li >= 2 and np.ptp(d[:li]) != 0:
        with warnings.catch_warnings():
            warnings.simplefilter("ignore")
            slope = float(np.polyfit(d[:li], t[:li], 1)[0])
    return float(v), slope, li


def want_quadratic(s, stub=False):
    return len(s) <= 500 or len(s) % 3 == 0 or bool(stub)


def hist_side_requests(chk, alg, case, s, t, out, rec):
    """queue the comparisons of the code between the raw scores and the NNLS solution with Model/PepsHist.lean:
    np.histogram on the joint edges (midpoints, counts / densities), the factor and the system handed to
    scipy.optimize.nnls by fit_nnls / monotonize_nnls, and the pipelines from the bin edges (kde: densities) on"""
    hs = chk._hside
    if alg in ("hist_nnls", "from_peps", "from_counts"):
        if len(rec.hist_calls) != 1 or rec.hist_calls[0] is None:
            chk.corr_break(f"histdata:{alg}", dict(case=jsonable(case, alg),
                                                   error=f"hist_data_from_scores called {len(rec.hist_calls)} times / not recorded"))
            return
        c = rec.hist_calls[0]
        if not (np.array_equal(c["scores"], s) and np.array_equal(c["targets"], t)):
            chk.corr_break(f"histdata:{alg}", dict(case=jsonable(case, alg),
                                                   error="hist_data_from_scores did not receive the caller's scores / targets"))
            return
        dens = alg == "from_counts"
        if c["density"] != dens:
            chk.corr_break(f"histdata:{alg}", dict(case=jsonable(case, alg), error=f"density={c['density']}"))
            return
        edges = c["edges"]
        if len(edges) < 2 or not np.isfinite(edges).all() or (np.diff(edges) <= 0).any():
            chk.reject(f"{alg}:degenerate-bin-edges")
            return
        chk.count("hist_bins", min(200, (len(edges) - 1) // 10 * 10))
        P_, E = psms(s, t), fl(edges)
        hs.append(("histdata", alg, case, c, req("histdata", E, P_, dens)))
        if len(rec.pi0_calls) != 1:
            return
        pc = rec.pi0_calls[0]
        if not (np.isfinite(pc["t"]).all() and np.isfinite(pc["d"]).all() and len(pc["d"])):
            return
        v, slope, li = v_slope(pc["t"], pc["d"], pc["thr"])
        if not (math.isfinite(v) and math.isfinite(slope)):
            return
        if alg in ("hist_nnls", "from_peps"):
            if len(rec.nnls_in) == 1 and rec.nnls_in[0] is not None:
                hs.append(("histsystem", alg, case, (rec.nnls_in[0], rec.pi0[0]), req("histsystem", E, F(v), F(slope), P_)))
            if len(rec.nnls) == 1 and len(rec.nnls[0]) + 1 == len(edges) and np.isfinite(rec.nnls[0]).all():
                if alg == "hist_nnls":
                    hs.append(("histnnlsfull", alg, case, out, req("histnnlsfull", E, F(v), F(slope), fl(rec.nnls[0]), P_)))
                elif want_quadratic(s):
                    ind = [int(i) for i in np.argsort(-np.array(s, dtype=float))]
                    hs.append(("frompepsfull", alg, case, out,
                               req("frompepsfull", E, F(v), F(slope), fl(rec.nnls[0]), P_, ind)))
        elif want_quadratic(s):
            ind = [int(i) for i in np.argsort(-np.array(s, dtype=float))]
            hs.append(("fromcountsfull", alg, case, (out, c, pc, v, li), req("fromcountsfull", E, F(v), F(slope), P_, ind)))
    elif alg == "kde_nnls":
        if not (len(rec.pi0_calls) == 1 and len(rec.kde_grid) == 1 and len(rec.nnls) == 1 and rec.mono_in):
            return
        pc = rec.pi0_calls[0]
        es, d = rec.kde_grid[0], rec.nnls[0]
        if not (np.isfinite(pc["t"]).all() and np.isfinite(pc["d"]).all() and np.isfinite(d).all() and np.isfinite(es).all()):
            return
        v, slope, li = v_slope(pc["t"], pc["d"], pc["thr"])
        if math.isfinite(v) and math.isfinite(slope) and len(es) == len(d) == len(pc["t"]):
            hs.append(("kdennlsfull", alg, case, (out, pc["t"]),
                       req("kdennlsfull", fl(es), fl(pc["t"]), fl(pc["d"]), F(v), F(slope), fl(d), fl(s))))
        if len(rec.nnls_in) == 1 and rec.nnls_in[0] is not None:
            x, w = rec.mono_in[-1]
            check_mono_system(chk, alg, case, rec.nnls_in[0], x, w)


def mono_rows(chk, n):
    """the rows of Model `monoRows n` from the driver (asked once per size)"""
    cache = chk.__dict__.setdefault("_mono_rows", {})
    if n not in cache:
        r = common.driver_batch([req("monosystem", n)])[0]
        cache[n] = np.array(deep(a_rat, dec(r)), dtype=float).reshape(n, n)
    return cache[n]


def check_mono_system(chk, alg, case, nnls_in, x, w):
    """what monotonize_nnls(x, w, ascending=False) handed to scipy.optimize.nnls: diag(sqrt(w[::-1])) @ tril(ones),
    sqrt(w[::-1]) * x[::-1] — the matrix rows are the model's (`monoRows`, C06_mono_nnls_system_rows)"""
    A, b = nnls_in
    n = len(x)
    if w is None or A.shape != (n, n) or b.shape != (n,):
        chk.corr_break(f"monosystem:{alg}", dict(case=jsonable(case, alg), error=f"system of shape {A.shape}, {b.shape} for {n} points"))
        return
    sw = np.sqrt(np.asarray(w, dtype=float)[::-1])
    expA = sw[:, None] * mono_rows(chk, n)
    expb = sw * np.asarray(x, dtype=float)[::-1]
    if close(A, expA) and close(b, expb):
        chk.count("hist_side_agrees", f"monosystem:{alg}")
    else:
        bad = np.argwhere(~(np.abs(A - expA) <= TOL * (1.0 + np.abs(expA))))
        chk.corr_break(f"monosystem:{alg}", dict(case=jsonable(case, alg), first_bad_entry=[int(z) for z in bad[0]] if len(bad) else None,
                                                 impl=[float(z) for z in A[:3, :6].ravel()], model=[float(z) for z in expA[:3, :6].ravel()]))


def system_agrees(nnls_in, rows, rhs, w2):
    A, b = nnls_in
    rows = np.asarray(rows, dtype=float)
    n = len(rhs)
    rows = rows.reshape(n, n) if n else rows.reshape(0, 0)
    sw = np.sqrt(np.asarray(w2, dtype=float))
    if A.shape != rows.shape or b.shape != (n,):
        return False
    return close(A, sw[:, None] * rows) and close(b, sw * np.asarray(rhs, dtype=float))


def exact_flank(counts, edges, v):
    """(last_index, no_flank) of estimate_pi0_by_slope on the EXACT densities counts / width / total (what the
    rational model computes), to recognise inputs on which the float densities take the other branch only because
    float bin widths are rounded (equal counts in bins whose float widths differ in the last bit, or vice versa)"""
    tot = int(sum(int(c) for c in counts))
    E = fl(edges)
    if tot == 0:
        return None
    dens = [Fraction(int(c)) / (E[i + 1] - E[i]) / tot for i, c in enumerate(counts)]
    li = next((i for i, x in enumerate(dens) if x >= F(v)), 0)
    flank = dens[:li]
    return li, (li < 2 or all(x == flank[0] for x in flank))


def flush_hist_side(chk):
    hs = getattr(chk, "_hside", None)
    if not hs:
        return
    resp = common.driver_batch([h[4] for h in hs])
    for (op, alg, case, impl, _line), r in zip(hs, resp):
        r = r.strip()
        ok, detail = False, {}
        try:
            if op == "histdata":
                es, tc, dc = impl["out"]
                if r.startswith("["):
                    m = dec(r)
                    mes = np.array(deep(a_rat, m[0]), dtype=float)
                    if impl["density"]:
                        mt, md = np.array(deep(a_rat, m[1]), dtype=float), np.array(deep(a_rat, m[2]), dtype=float)
                        ok = close(es, mes) and close(tc, mt) and close(dc, md)
                    else:
                        mt, md = [int(a_int(x)) for x in m[1]], [int(a_int(x)) for x in m[2]]
                        ok = close(es, mes) and [int(x) for x in tc] == mt and [int(x) for x in dc] == md
                        # "every PSM is counted exactly once" (C06_hist_counts_partition) on the code's own counts
                        if ok and int(np.sum(tc)) + int(np.sum(dc)) != len(impl["scores"]):
                            chk.spec_violation(f"histogram-drops-psms:{alg}",
                                               dict(case=jsonable(case, alg), counted=int(np.sum(tc)) + int(np.sum(dc)),
                                                    psms=len(impl["scores"]),
                                                    clause="each PSM receives one value of ITS score bin: the joint histogram does "
                                                           "not count every PSM exactly once"))
                            continue
                    detail = dict(impl=dict(es=[float(x) for x in es[:8]], t=[float(x) for x in tc[:12]], d=[float(x) for x in dc[:12]]),
                                  model=r[:300])
            elif op == "histsystem":
                nnls_in, factor = impl
                if r.startswith("["):
                    m = dec(r)
                    mf = float(a_rat(m[0]))
                    rows, rhs, w2 = deep(a_rat, m[1]), deep(a_rat, m[2]), deep(a_rat, m[3])
                    okf = abs(mf - float(factor)) <= 1e-12 * max(1.0, abs(float(factor)))
                    ok = okf and system_agrees(nnls_in, rows, rhs, w2)
                    detail = dict(impl=dict(factor=float(factor), b=[float(x) for x in nnls_in[1][:12]],
                                            A_diag=[float(x) for x in np.diag(nnls_in[0])[:12]]),
                                  model=dict(factor=mf, rhs=[float(x) for x in rhs[:12]], w2=[float(x) for x in w2[:12]]))
            elif op in ("histnnlsfull", "frompepsfull"):
                m = parse_model(r)
                ok = (not isinstance(m, str)) and close(impl, m)
                detail = dict(impl=[float(x) for x in impl[:30]], model=r[:300])
            elif op == "kdennlsfull":
                out, tden = impl
                m = parse_model(r)
                ok = (not isinstance(m, str)) and close(out, m)
                detail = dict(impl=[float(x) for x in out[:30]], model=r[:300])
            elif op == "fromcountsfull":
                out, c, pc, v, li = impl
                m = parse_model(r)
                if isinstance(m, str):
                    ok = (m == "inf-all" and np.isinf(out).all()) or (m == "nan-all" and np.isnan(out).all())
                else:
                    ok = close(out, m)
                if not ok:
                    ex = exact_flank(c["out"][2], c["edges"], v)
                    fl_noflank = li < 2 or np.ptp(pc["d"][:li]) == 0
                    if ex is not None and ex != (li, bool(fl_noflank)):
                        chk.float_boundary += 1
                        chk.count("fromcounts_density_rounding_branch")
                        continue
                detail = dict(impl=[float(x) for x in out[:30]], model=r[:300])
        except Exception as e:  # noqa: BLE001
            detail = dict(error=repr(e)[:300], model=r[:200])
        if ok:
            chk.count("hist_side_agrees", f"{op}:{alg}")
        else:
            chk.corr_break(f"{op}:{alg}", dict(case=jsonable(case, alg), **detail))
    del hs[:]


def eval_one(chk, case, alg, perm, pending, stub=None):
    """run the implementation on the case and on its permuted copy; queue the model request"""
    if not hasattr(chk, "_kside"):
        chk._kside = []
    if not hasattr(chk, "_hside"):
        chk._hside = []
    s = np.array(case["scores"], dtype=float)
    t = np.array(case["labels"], dtype=bool)
    kw = dict(stub or {})
    form = case.get("form", "positional")
    kw["form"] = form
    try:
        out, rec = run_impl(alg, s, t, **kw)
    except BaseException as e:  # SystemExit from triqler included
        if isinstance(e, KeyboardInterrupt):
            raise
        classify_exception(chk, case, alg, s, t, e, stub)
        return
    ties = len(set(s.tolist())) < len(s)
    unsorted = bool((np.diff(s) > 0).any())
    key = (alg, len(s), case.get("gran"), case.get("arr"), hash(tuple(sorted(s.tolist()))), tuple(t.tolist()[:64]))
    chk.case(None, key if (ties or unsorted) else None,
             sample=dict(alg=alg, n=len(s), arrangement=case.get("arr"), tie_granularity=case.get("gran"),
                         scores_head=[float(x) for x in s[:6]], labels_head=[bool(x) for x in t[:6]],
                         impl_head=[float(x) for x in out[:6]]))
    chk.count("alg", alg)
    chk.count("entry_point_form", f"{alg}:{form}")
    chk.count("n", (len(s) // 100) * 100 if len(s) >= 100 else len(s))
    chk.count("ties", ties)
    chk.count("arrangement", case.get("arr"))
    chk.count("granularity", case.get("gran"))
    chk.count("shape", case.get("shape"))
    chk.count("mixture", case.get("mixture"))
    chk.count("values_all_equal", bool(len(out) and (out == out[0]).all()))
    if rec.inputs_modified:
        chk.spec_violation(f"input-arrays-modified:{alg}",
                           dict(case=jsonable(case, alg), modified=rec.inputs_modified,
                                clause="the i-th returned value belongs to the i-th input PSM: the estimator changed the "
                                       f"caller's {' and '.join(rec.inputs_modified)} array in place"))
        return
    if not stub:
        kernel_side_requests(chk, alg, case, rec)
        hist_side_requests(chk, alg, case, s, t, out, rec)
    # kernel hypotheses
    hyp = []
    if not stub:
        hyp = kernel_hypotheses(alg, s, t, rec)
        chk.count("kernel_hypotheses", "hold" if not hyp else "violated")
        if hyp:
            chk.extra.setdefault("kernel_hypothesis_violations", [])
            if len(chk.extra["kernel_hypothesis_violations"]) < 20:
                chk.extra["kernel_hypothesis_violations"].append(dict(alg=alg, n=len(s), what=hyp))
    # +inf boundary of from_counts (top-ranked row is a decoy)
    if alg == "from_counts" and np.isinf(out).all():
        chk.reject("from_counts-top-decoy-inf")
    # spec clauses on the implementation output
    v = spec_clauses(alg, s, out)
    if v is not None and not stub and not in_quantifier(s, t):
        chk.reject(f"{alg}:outside-quantifier:{v.split(':')[0]}")
        return
    if (v is not None and not stub and v.split(":")[0] == "nan value" and alg in ("hist_nnls", "from_peps")
            and len(rec.nnls) == 1 and not rec.nnls[0].any() and np.isnan(out).all()):
        # the NNLS fit is identically 0 (pi0 clamped to 1e-10 because no target scores in the decoys' left flank):
        # `pep_est / pep_est[0]` = 0/0 for every PSM — the behaviour before the repair 835a908
        # (Mutants.histNnlsOfOld_violates); the repaired code leaves the fit unscaled (C06_hist_nnls_defined_iff)
        chk.count("hist_all_zero_fit", alg)
        chk.spec_violation(f"all-zero-fit:{alg}",
                           dict(case=jsonable(case, alg), impl=[float(x) for x in out[:20]], estimator=alg,
                                pi0=(rec.pi0[0] if rec.pi0 else None),
                                clause="each PSM receives one finite value: the monotone NNLS fit of hist_nnls is "
                                       "identically 0, scale_to_one computes 0/0 and every PSM gets NaN"))
        return
    if v is not None and not stub and hyp and v.split(":")[0] in ("nan value", "non-finite PEP"):
        chk.spec_violation(f"kernel-numerics:{hyp_kernel(alg)}",
                           dict(case=jsonable(case, alg), impl=[float(x) for x in out[:50]], estimator=alg,
                                clause=f"{v}; kernel hypotheses violated: {hyp}"))
        return
    if v is not None:
        chk.spec_violation(f"{v.split(':')[0]}:{alg}",
                           dict(case=jsonable(case, alg), impl=[float(x) for x in out[:50]], clause=v,
                                expected="one finite in-range value per PSM, non-increasing in the score, "
                                         "equal for equal scores"))
        return
    # alignment: f(perm x) = perm f(x)
    tdt = td_tie(s, t)
    if perm is not None:
        p = np.array(perm)
        # the permuted copy is handed over in another memory form: read-only (pandas under copy-on-write) or as a
        # non-contiguous view
        view = INPUT_VIEWS[int(p[0]) % 3] if len(p) else "plain"
        chk.count("input_view_of_permuted_run", view)
        try:
            out2, rec2 = run_impl(alg, s[p], t[p], view=view, **kw)
        except BaseException as e:
            if isinstance(e, KeyboardInterrupt):
                raise
            classify_exception(chk, dict(case, scores=s[p].tolist(), labels=t[p].tolist()), alg, s[p], t[p], e, stub,
                               permuted=True)
            return
        if rec2.inputs_modified:
            chk.spec_violation(f"input-arrays-modified:{alg}",
                               dict(case=jsonable(case, alg, perm), modified=rec2.inputs_modified, view=view,
                                    clause="the estimator changed the caller's array in place"))
            return
        v2 = spec_clauses(alg, s[p], out2)
        if v2 is not None:
            chk.spec_violation(f"{v2.split(':')[0]}:{alg}",
                               dict(case=jsonable(dict(case, scores=s[p].tolist(), labels=t[p].tolist()), alg),
                                    impl=[float(x) for x in out2[:50]], clause=v2))
            return
        if alg == "from_counts" and tdt:
            # a target ties with a decoy: the value of that tie group legitimately depends on the argsort's
            # tie order (C06_from_counts_tie_order_dependent_witness); relational clauses only
            chk.count("from_counts_td_tie_input")
        else:
            chk.count("equivariance_checked", alg)
            if np.array_equal(out[p], out2):
                chk.count("equivariance_bit_exact", alg)
            if not close(out[p], out2) and not stub and not same_kernel_record(rec, rec2):
                # The numeric kernel itself answered differently for the permuted input (floating-point summation
                # order inside gaussian_kde / nnls / the spline; typically a tail bin where both densities vanish):
                # the hypothesis "the kernel depends on the multiset of (score, label) only" fails for this input, so
                # f(perm x) = perm f(x) cannot be expected. Alignment of the permuted run is then checked against the
                # model fed with ITS OWN kernel record (below), and the event is tallied.
                chk.count("kernel_order_sensitive", alg)
                chk.extra.setdefault("kernel_hypothesis_violations", [])
                if len(chk.extra["kernel_hypothesis_violations"]) < 20:
                    chk.extra["kernel_hypothesis_violations"].append(
                        dict(alg=alg, n=len(s), what="kernel output differs between two orders of the same input"))
                try:
                    pending.append((alg, dict(case, scores=s[p].tolist(), labels=t[p].tolist(), perm=None), s[p], out2,
                                    model_request(alg, s[p], t[p], rec2), []))
                except Exception as e:  # noqa: BLE001
                    chk.corr_break(alg, dict(case=jsonable(case, alg), error="no kernel record (permuted run): " + repr(e)[:200]))
                    return
            elif not close(out[p], out2):
                k = int(np.argmax(np.where(np.isfinite(out[p] - out2), np.abs(out[p] - out2), np.inf)))
                chk.spec_violation(
                    f"equivariance:{alg}",
                    dict(case=jsonable(case, alg, perm), clause="alignment: f(perm x) != perm f(x)",
                         row=k, score=float(s[p][k]), impl_on_permuted=float(out2[k]),
                         expected=float(out[p][k]), impl=[float(x) for x in out2[:50]]))
                return
    # model
    try:
        line = model_request(alg, s, t, rec)
        # entry-point models: for the PEP estimators `pepsfromscores` repeats the estimator model behind the
        # table, so it is requested when the name was given by keyword or omitted (the positional form is the
        # dispatch test's); the q-value pipelines are quadratic in exact rationals: all cases up to 500 rows,
        # every third above
        if alg in PEP_ALGS:
            want = form != "positional" or bool(stub)
        else:
            want = len(s) <= 500 or len(s) % 3 == 0 or bool(stub)
        extras = entry_requests(alg, s, t, rec, form) if want else []
        chk.count("entry_model_requested", f"{alg}:{bool(extras)}")
    except Exception as e:  # recorded kernel data unusable (e.g. a mutated code path skipped the kernel)
        chk.corr_break(alg, dict(case=jsonable(case, alg), error="no kernel record: " + repr(e)[:200]))
        return
    pending.append((alg, case, s, out, line, extras))


def compare_model(chk, op, alg, case, out, resp_line):
    """implementation output vs one model response; -> True when they agree"""
    m = parse_model(resp_line)
    if isinstance(m, str):
        if m == "inf-all" and np.isinf(out).all() and (out > 0).all():
            return True
        if m == "nan-all" and np.isnan(out).all():
            return True
        chk.corr_break(op, dict(case=jsonable(case, alg), impl=[float(x) for x in out[:50]], model=m))
        return False
    if not close(out, m):
        k2 = int(np.argmax(np.abs(np.nan_to_num(out - m, nan=np.inf)))) if out.shape == m.shape else -1
        chk.corr_break(op, dict(case=jsonable(case, alg), impl=[float(x) for x in out[:50]],
                                model=[float(x) for x in m[:50]], first_diff_row=k2))
        return False
    return True


def flush(chk, pending, spec_too=True):
    flush_kernel_side(chk)
    flush_hist_side(chk)
    if not pending:
        return
    lines = []
    where = []   # per pending entry: (index of the model line, index of the spec line, [(op, index) extras])
    for ent in pending:
        alg, case, s, out, line = ent[:5]
        extras = ent[5] if len(ent) > 5 else []
        i_model = len(lines)
        lines.append(line)
        small = spec_too and len(s) <= 250 and np.isfinite(out).all()
        hi = Fraction(1) if alg in PEP_ALGS else None
        i_spec = len(lines)
        lines.append(req("spec-C06", Fraction(0), hi, F(MONO_TOL), fl(s), fl(out)) if small
                     else req("spec-C06", Fraction(0), None, Fraction(0), [], []))
        ex = []
        for op, l in extras:
            ex.append((op, len(lines)))
            lines.append(l)
        where.append((i_model, i_spec, ex))
    resp = common.driver_batch(lines)
    for ent, (i_model, i_spec, ex) in zip(pending, where):
        alg, case, s, out = ent[:4]
        sp = resp[i_spec].strip()
        if sp != "ok":
            chk.spec_violation(f"{sp}:{alg}", dict(case=jsonable(case, alg), impl=[float(x) for x in out[:50]],
                                                   clause=f"spec-C06 (Lean checker) answers {sp}"))
            continue
        if compare_model(chk, alg, alg, case, out, resp[i_model]):
            chk.count("model_agrees", alg)
        for op, i in ex:
            if compare_model(chk, f"{op}:{alg}", alg, case, out, resp[i]):
                chk.count("entry_model_agrees", f"{op}:{alg}")
    pending.clear()


def random_perm(rng, n):
    p = list(range(n))
    rng.shuffle(p)
    return p


def rng2(chk):
    """the generator of the dimensions added in the second pass: a stream of its own, a function of VERIF_SEED like
    chk.rng, so that the estimator cases of the earlier dimensions stay those of earlier runs with the same seed"""
    if not hasattr(chk, "_rng2"):
        import random

        chk._rng2 = random.Random(f"C06-second-pass:{chk.seed}")
    return chk._rng2


def run_generated(chk, n_heavy, n_light, nmax):
    rng = chk.rng
    r2 = rng2(chk)
    pending = []
    plan = [("qvality", n_heavy), ("kde_nnls", n_heavy), ("hist_nnls", n_light), ("from_peps", n_light),
            ("from_counts", n_light)]
    kinds = ["separated", "target_tail", "outlier"]
    for alg, count in plan:
        for i in range(count):
            lim = nmax if alg in ("hist_nnls", "from_peps", "from_counts") else min(nmax, 1200)
            case = gen_case(rng, lim, mixture="regular")
            # how the estimator is named at the entry point: positionally, by keyword, or (qvality) not at all
            case["form"] = rng.choice(["positional", "keyword", "default"] if alg == "qvality"
                                      else ["positional", "keyword"])
            perm = random_perm(rng, len(case["scores"]))
            # the first cases of every estimator are one of each non-regular mixture kind, and so is every third or
            # so of the others (drawn from the second stream; the regular case drawn above is dropped)
            if i < len(kinds) or r2.random() < 0.3:
                case = dict(gen_case(r2, lim, mixture=kinds[i] if i < len(kinds) else r2.choice(kinds)),
                            form=case["form"])
                perm = random_perm(r2, len(case["scores"]))
            eval_one(chk, case, alg, perm, pending)
            if len(pending) >= 12:
                flush(chk, pending)
    flush(chk, pending)


# ----------------------------------------------------------------------------------------------
# small-scope sweeps of the real composition code (kernels stubbed or bypassed)
# ----------------------------------------------------------------------------------------------
def sweep_primitives(chk, full):
    """np.interp and monotonize_simple against the model on all small vectors"""
    import mokapot.peps as P

    vals = [0.0, 0.5, 1.0, 2.0]
    lines, cases = [], []
    for n in range(1, 5 if full else 4):
        for x in itertools.product(vals[:3], repeat=n):
            cases.append(("runmax", x, P.monotonize_simple(np.array(x), True)))
            lines.append(req("runmax", fl(x)))
            cases.append(("runmin", x, P.monotonize_simple(np.array(x), False)))
            lines.append(req("runmin", fl(x)))
    xs = [-1.0, 0.0, 0.25, 0.5, 1.0, 1.5, 2.0, 3.0]
    for n in range(1, 5 if full else 4):
        for xp in itertools.combinations_with_replacement(vals, n):   # ascending, duplicates included
            for fp in itertools.product([0.0, 1.0, 3.0], repeat=n):
                cases.append(("interp", (xp, fp), np.interp(np.array(xs), np.array(xp), np.array(fp))))
                lines.append(req("interp", fl(xp), fl(fp), fl(xs)))
    resp = common.driver_batch(lines)
    for (op, arg, impl), r in zip(cases, resp):
        m = parse_model(r)
        chk.case(None, (op, arg))
        chk.count("sweep", op)
        if isinstance(m, str) or not close(impl, m):
            chk.corr_break(op, dict(arg=repr(arg), impl=[float(v) for v in impl], model=repr(m)))


def sweep_small(chk, nmax):
    """all score vectors over {0,1,2} and all labellings up to length nmax through the real wrapper /
    q-value code with the numeric kernels replaced by fixed functions (they are abstract parameters)"""
    import mokapot.qvalues as Q

    gtab = {0.0: 0.9, 1.0: 0.4, 2.0: 0.05}

    def stub_kernel(ts, ds):
        alls = np.sort(np.concatenate([ts, ds]))[::-1]
        return np.array([gtab[x] for x in alls.tolist()])

    pending = []
    count = 0
    for n in range(1, nmax + 1):
        for sc in itertools.product([0.0, 1.0, 2.0], repeat=n):
            for lab in itertools.product([False, True], repeat=n):
                if all(lab) or not any(lab):
                    continue
                case = dict(scores=list(sc), labels=list(lab), arr="exhaustive", gran=1, shape="exhaustive")
                s = np.array(sc)
                t = np.array(lab)
                count += 1
                # qvality wrapper with a pointwise stub kernel: the result must be g(score) row by row
                out, rec = run_impl("qvality", s, t, stub_kernel=stub_kernel)
                exp = np.array([gtab[x] for x in sc])
                chk.case(None, ("wrap", sc, lab))
                chk.count("sweep", "qvality-wrapper")
                if not np.array_equal(out, exp):
                    chk.spec_violation("alignment:qvality-wrapper",
                                       dict(case=jsonable(dict(case, stub="pointwise"), "qvality"),
                                            impl=out.tolist(), expected=exp.tolist(),
                                            clause="i-th PEP is not the kernel's value for the i-th PSM's score"))
                else:
                    pending.append(("qvality", case, s, out, model_request("qvality", s, t, rec),
                                    entry_requests("qvality", s, t, rec)))
                # qvalues_from_peps with given peps (public function, kernel bypassed)
                peps = np.array([gtab[x] for x in sc])
                with np.errstate(all="ignore"):
                    q = np.asarray(Q.qvalues_from_peps(s.copy(), t.copy(), peps.copy()), dtype=float)
                chk.case(None, ("from_peps", sc, lab))
                chk.count("sweep", "qvalues_from_peps")
                v = spec_clauses("from_peps", s, q)
                if v is not None:
                    chk.spec_violation(f"{v.split(':')[0]}:from_peps",
                                       dict(case=jsonable(dict(case, stub="peps given"), "from_peps"),
                                            impl=q.tolist(), clause=v))
                else:
                    ind = [int(i) for i in np.argsort(-s)]
                    pending.append(("from_peps", case, s, q, req("frompeps", psms(s, t), fl(peps), ind)))
                # qvalues_from_counts with pi0 fixed
                try:
                    q, rec = run_impl("from_counts", s, t, stub_pi0=0.5)
                except ZeroDivisionError:
                    continue
                chk.case(None, ("from_counts", sc, lab))
                chk.count("sweep", "qvalues_from_counts")
                if np.isinf(q).all():
                    chk.reject("from_counts-top-decoy-inf")
                v = spec_clauses("from_counts", s, q)
                if v is not None:
                    chk.spec_violation(f"{v.split(':')[0]}:from_counts",
                                       dict(case=jsonable(dict(case, stub="pi0=0.5"), "from_counts"),
                                            impl=q.tolist(), clause=v))
                else:
                    pending.append(("from_counts", case, s, q, model_request("from_counts", s, t, rec),
                                    entry_requests("from_counts", s, t, rec)))
                if len(pending) >= 3000:
                    flush(chk, pending)
    flush(chk, pending)
    chk.extra["small_scope_sweep"] = (
        f"all score vectors over 3 values x all mixed labellings, n<={nmax}: {count} inputs through the qvality "
        "wrapper (stub pointwise kernel), qvalues_from_peps (given PEPs) and qvalues_from_counts (pi0 fixed)")


# ----------------------------------------------------------------------------------------------
# result files of assign_confidence: the PEP column is aligned with its row
# ----------------------------------------------------------------------------------------------
def result_files(chk, n_runs):
    import pandas as pd
    import mokapot
    import mkdata

    rng = chk.rng
    for r in range(n_runs):
        alg = PEP_ALGS[r % 3]
        df = mkdata.make_psm_table(rng, n_spectra=rng.choice([250, 400]), max_per_spectrum=2, n_feat=2,
                                   integer_scores=True, tie_free=rng.random() < 0.5, signal=3.0)
        with tempfile.TemporaryDirectory() as td, warnings.catch_warnings():
            warnings.simplefilter("ignore")
            td = Path(td)
            pin = mkdata.write_table(df, td / "in.pin")
            try:
                ds = mkdata.read_dataset(pin)
                scores = [df["feat0"].to_numpy(dtype=float)]
                mokapot.assign_confidence([ds], max_workers=1, scores=scores, descs=[True], prefixes=[None],
                                          dest_dir=td, decoys=True, peps_algorithm=alg, do_rollup=True)
            except BaseException as e:
                if isinstance(e, KeyboardInterrupt):
                    raise
                chk.reject(f"assign_confidence:{alg}:{type(e).__name__}")
                continue
            for level in ("psms", "peptides"):
                parts = []
                for kind in ("targets", "decoys"):
                    f = td / f"{kind}.{level}"
                    if f.exists():
                        part = pd.read_csv(f, sep="\t")
                        part["__target"] = kind == "targets"
                        parts.append(part)
                if not parts:
                    chk.reject(f"assign_confidence:no-{level}-file")
                    continue
                res = pd.concat(parts, ignore_index=True)
                sc = res["score"].to_numpy(dtype=float)
                pep = res["posterior_error_prob"].to_numpy(dtype=float)
                is_t = res["__target"].to_numpy(dtype=bool)
                chk.case(None, ("file", alg, level, r, len(res)))
                chk.count("result_file", f"{alg}:{level}")
                v = spec_clauses(alg, sc, pep)
                if v is not None:
                    chk.spec_violation(f"result-file-{v.split(':')[0]}:{alg}",
                                       dict(level=level, alg=alg, rows=len(res), clause="PEP column of the "
                                            f"{level} result file: {v}", scores=sc[:40].tolist(),
                                            impl=pep[:40].tolist()))
                    continue
                # the column must be what peps_from_scores gives for exactly these rows
                if is_t is not None and is_t.sum() >= 50 and (~is_t).sum() >= 50:
                    try:
                        ref, _ = run_impl(alg, sc, is_t)
                    except BaseException:
                        continue
                    chk.count("result_file_recomputed", f"{alg}:{level}")
                    if not close(ref, pep):
                        k = int(np.argmax(np.abs(ref - pep)))
                        chk.spec_violation(f"result-file-alignment:{alg}",
                                           dict(level=level, alg=alg, row=k, score=float(sc[k]),
                                                impl=float(pep[k]), expected=float(ref[k]),
                                                clause="PEP in the result file is not the PEP of that row's score"))


# ----------------------------------------------------------------------------------------------
# the dispatch tables PEP_ALGORITHM / QVALUE_ALGORITHM and the defaults of the two entry points
# ----------------------------------------------------------------------------------------------
UNKNOWN_NAMES = ["", "Qvality", "QVALITY", "qvality ", "kde", "hist", "nnls", "hist_nnls_", "tdc_", "from_pep",
                 "counts", "percolator", "None"]


def dispatch_cases(chk, n_random):
    """every table name, the omitted argument, names of the *other* table and unknown names through the real
    `peps_from_scores` / `qvalues_from_scores`, with the estimators replaced by recorders (which estimator is
    reached, with which arguments); compared with the Lean tables (`pepdispatch`, `qdispatch`)"""
    import mokapot.peps as P
    import mokapot.qvalues as Q

    rng = chk.rng
    names = [None] + PEP_ALGS + ["qvality_bin", "tdc"] + Q_ALGS + UNKNOWN_NAMES
    for _ in range(n_random):
        base = rng.choice(PEP_ALGS + Q_ALGS + ["tdc", "qvality_bin"])
        k = rng.randrange(len(base) + 1)
        names.append(rng.choice([base[:k], base + rng.choice("_ x"), base.upper(), base[:k] + base[k + 1:]]))
    s = np.array([3.0, 1.0, 2.0, 2.0])
    t = np.array([True, False, True, False])
    sentinel = np.array([0.125, 0.5, 0.25, 0.25])
    lines = [req("pepdispatch", NONE if n is None else n) for n in names]
    lines += [req("qdispatch", NONE if n is None else n) for n in names]
    resp = common.driver_batch(lines)
    calls = []

    def recorder(label):
        def f(*a, **k):
            calls.append((label, a, k))
            return sentinel
        return f

    saved = []
    for mod_, attr, label in [(P, "peps_from_scores_qvality", "qvality"), (P, "peps_from_scores_kde_nnls", "kde_nnls"),
                              (P, "peps_from_scores_hist_nnls", "hist_nnls"), (Q, "tdc", "tdc"),
                              (Q, "qvalues_from_peps", "from_peps"), (Q, "qvalues_from_counts", "from_counts")]:
        saved.append((mod_, attr, getattr(mod_, attr)))
        setattr(mod_, attr, recorder(label))
    try:
        for table, entry, offset in (("pep", P.peps_from_scores, 0), ("q", Q.qvalues_from_scores, len(names))):
            for i, n in enumerate(names):
                for form in (("default",) if n is None else ("positional", "keyword")):
                    del calls[:]
                    kwname = "pep_algorithm" if table == "pep" else "qvalue_algorithm"
                    try:
                        if form == "default":
                            out = entry(s, t)
                        elif form == "keyword":
                            out = entry(s, t, **{kwname: n})
                        else:
                            out = entry(s, t, n)
                        got = None
                    except KeyError:
                        out, got = None, "reject-KeyError"
                    except Exception as e:  # noqa: BLE001
                        out, got = None, f"reject-{type(e).__name__}"
                    if got is None:
                        if len(calls) != 1 or out is not sentinel:
                            got = f"calls={[c[0] for c in calls]} passthrough={out is sentinel}"
                        else:
                            label, a, k = calls[0]
                            args_ok = len(a) >= 2 and a[0] is s and a[1] is t
                            if table == "pep":
                                binary = bool(k.get("use_binary", a[2] if len(a) > 2 else False)) if label == "qvality" else False
                                got = "[%s %s]" % ("qvality_bin" if (label == "qvality" and binary) else label,
                                                   "T" if binary else "F")
                            else:
                                got = label
                                if label == "tdc" and k.get("desc", a[2] if len(a) > 2 else True) is not True:
                                    got = "tdc-not-descending"
                            if not args_ok:
                                got += " (scores/targets not handed on)"
                    exp = resp[offset + i].strip()
                    chk.case(None, ("dispatch", table, n, form))
                    chk.count("dispatch", f"{table}:{'omitted' if n is None else ('table' if not exp.startswith('reject') else 'unknown')}:{form}")
                    if got == exp:
                        chk.count("dispatch_agrees", table)
                        continue
                    offered = not exp.startswith("reject")
                    info = dict(table=table, name=n, form=form, impl=got, model=exp)
                    if offered and got.startswith("reject"):
                        chk.spec_violation(f"dispatch-offered-estimator-raises:{table}",
                                           dict(info, clause="for every estimator offered each PSM receives a value: the "
                                                             "entry point raised for a name of its table", expected=exp))
                    else:
                        chk.corr_break(f"{table}dispatch", info)
    finally:
        for mod_, attr, old in reversed(saved):
            setattr(mod_, attr, old)


# ----------------------------------------------------------------------------------------------
# the chunked writer (public functions write_confidences + create_chunks + the chunked reader)
# ----------------------------------------------------------------------------------------------
OUT_COLS = ["PSMId", "peptide", "score", "q_value", "posterior_error_prob", "proteinIds"]


def parse_files(line):
    """response of `levelfiles` / `writeconf` -> ([(id, score, q, pep)], [(...)] | None) or the reject atom"""
    line = line.strip()
    if not line.startswith("["):
        return line
    tf, dfile = dec(line)

    def rows(x):
        return [(a_int(r[0]), a_rat(r[1]), a_rat(r[2]), a_rat(r[3])) for r in x]

    return rows(tf), (None if isinstance(dfile, str) else rows(dfile))


def fx(x):
    """exact value of a float for comparisons; non-finite values (the +inf q-values of from_counts with a decoy on
    top, NaN PEPs of a degenerate histogram fit) compare by their repr"""
    try:
        x = float(x)
    except (TypeError, ValueError):   # a cell of another column under this heading (header and data rows disagree)
        return ("non-numeric", repr(x))
    return F(x) if math.isfinite(x) else ("non-finite", repr(x))


def num(v):
    """back to a float for messages / shape checks"""
    if isinstance(v, Fraction):
        return float(v)
    try:
        return float(v[1])
    except (TypeError, ValueError):
        return float("nan")


def read_out_file(path, idmap):
    """result file -> [(id, score, q, pep)] with exact values (round-trip float parsing)"""
    import pandas as pd

    if not Path(path).exists():
        return None
    df = pd.read_csv(path, sep="\t", float_precision="round_trip", dtype={"PSMId": str})
    qcol = "q-value" if "q-value" in df.columns else "q_value"
    return [(idmap.get(str(i), -1), fx(sc), fx(q), fx(pp)) for i, sc, q, pp in
            zip(df.iloc[:, 0], df["score"], df[qcol], df["posterior_error_prob"])]


def sweep_writer(chk, nmax, n_mismatch):
    """all label vectors, all chunk sizes 1..n+1, decoys on/off for levels of up to nmax rows through the real
    `write_confidences` fed by the real chunked reader and `create_chunks` — the wiring of `write_to_disk`;
    plus sequences of unequal lengths (a short PEP vector ...): truncation / pandas error as modelled"""
    import pandas as pd
    from mokapot.confidence_writer import write_confidences
    from mokapot.tabular_data import TabularDataReader, TabularDataWriter
    from mokapot.utils import create_chunks

    rng = chk.rng
    cases = []
    for n in range(1, nmax + 1):
        for lab in itertools.product([False, True], repeat=n):
            for c in range(1, n + 2):
                cases.append((n, lab, c, rng.random() < 0.5, n, n, n))
    for _ in range(n_mismatch):
        n = rng.randint(2, nmax + 2)
        lab = tuple(rng.random() < 0.5 for _ in range(n))
        lens = [n, n, n]
        lens[rng.randrange(3)] = rng.randint(0, n + 2)
        cases.append((n, lab, rng.randint(1, n + 1), rng.random() < 0.5, *lens))
    lines, impls = [], []
    with tempfile.TemporaryDirectory() as td, warnings.catch_warnings():
        warnings.simplefilter("ignore")
        td = Path(td)
        for k, (n, lab, c, decoys, nq, npep, nt) in enumerate(cases):
            ids = list(range(n))
            scores = [float(2 * (n - i)) for i in range(n)]
            qs = np.array([(i + 1) / 64.0 for i in range(nq)])
            ps = np.array([(i + 1) / 128.0 for i in range(npep)])
            ts = np.array([lab[i % n] for i in range(nt)], dtype=bool)
            level = td / f"lvl{k}.csv"
            pd.DataFrame(dict(PSMId=[f"r{i}" for i in ids], Label=[bool(x) for x in lab], peptide="P", proteinIds="X",
                              score=scores)).to_csv(level, sep="\t", index=False)
            outs = [td / f"t{k}.csv"] + ([td / f"d{k}.csv"] if decoys else [])
            for o in outs:
                TabularDataWriter.from_suffix(o, OUT_COLS).initialize()
            in_cols = ["PSMId", "peptide", "proteinIds", "score"]
            try:
                write_confidences(TabularDataReader.from_path(level).get_chunked_data_iterator(c, in_cols),
                                  create_chunks(qs, chunk_size=c), create_chunks(ps, chunk_size=c),
                                  create_chunks(ts, chunk_size=c), list(outs), decoys, "psms", list(OUT_COLS))
                idmap = {f"r{i}": i for i in ids}
                impl = (read_out_file(outs[0], idmap), read_out_file(outs[1], idmap) if decoys else None)
            except Exception as e:  # noqa: BLE001  pandas: ValueError (column length) / IndexError, IndexingError (mask length)
                impl = ("reject-pandas-length-error" if type(e).__name__ in ("ValueError", "IndexError", "IndexingError")
                        else f"reject-{type(e).__name__}")
            impls.append(impl)
            lines.append(req("writeconf", c, decoys, [[i, F(x)] for i, x in zip(ids, scores)], fl(qs), fl(ps),
                             [bool(x) for x in ts]))
    resp = common.driver_batch(lines)
    for (n, lab, c, decoys, nq, npep, nt), impl, r in zip(cases, impls, resp):
        m = parse_files(r)
        equal = nq == n and npep == n and nt == n
        chk.case(None, ("writer", n, lab, c, decoys, nq, npep, nt))
        chk.count("writer_sweep", "equal-lengths" if equal else "unequal-lengths")
        chk.count("writer_chunk_size", "c<n" if c < n else ("c=n" if c == n else "c>n"))
        info = dict(n=n, labels=list(lab), chunk_size=c, decoys=decoys, lengths=[nq, npep, nt], impl=repr(impl)[:600],
                    model=repr(m)[:600])
        if equal and not isinstance(impl, str):
            # direct re-statement of the clause: row i, with q[i] and pep[i], in the file of its label, in order
            exp_t = [(i, F(2.0 * (n - i)), F((i + 1) / 64.0), F((i + 1) / 128.0)) for i in range(n) if lab[i]]
            exp_d = [(i, F(2.0 * (n - i)), F((i + 1) / 64.0), F((i + 1) / 128.0)) for i in range(n) if not lab[i]]
            if impl[0] != exp_t or (decoys and impl[1] != exp_d):
                chk.spec_violation("writer-alignment",
                                   dict(info, expected=repr((exp_t, exp_d if decoys else None))[:600],
                                        clause="the PEP column of a result file is aligned with its row: "
                                               "write_confidences did not write row i with pep[i] to the file of its label"))
                continue
        elif equal:
            chk.spec_violation("writer-raises", dict(info, clause="each PSM receives one PEP: write_confidences raised "
                                                                  "on sequences of equal lengths"))
            continue
        if impl != m:
            chk.corr_break("writeconf", info)
        else:
            chk.count("writer_model_agrees")


# ----------------------------------------------------------------------------------------------
# result files, second part: the level loop of _assign_confidence and the chunked writer, for chunk sizes
# below the level size, decoys on/off, lower-is-better scores, the alternative q-value estimators, both input
# formats; PEP estimator real or replaced by a stub (it is an abstract parameter of the model)
# ----------------------------------------------------------------------------------------------
def g_stub(x, k):
    """a fixed response, non-increasing in the score up to rounding, with values in [0,1]; the worst scores reach
    exactly 1, the best exactly 0 (`k` = scale of the scores of the run)"""
    x = float(x)
    return min(1.0, max(0.0, 0.55 - 0.6 * x / (k + abs(x))))


@contextlib.contextmanager
def level_recording(stub, gk=128.0):
    """pass-through wrappers inside mokapot.confidence: per level, what the loop handed to the PEP estimator,
    what came back, and the level file + arrays present when the writer is entered"""
    import pandas as pd
    import mokapot.confidence as C

    levels = []
    cur = {}
    o_pep = C.peps_from_scores
    o_wtd = C.Confidence.write_to_disk

    def pep(*a, **k):
        ent = dict(args=(np.array(a[0], dtype=float), np.array(a[1], dtype=bool)),
                   alg=(a[2] if len(a) > 2 else k.get("pep_algorithm", None)), mark0=cur.get("mark"))
        cur["pep"] = ent
        if stub == "exit-no-decoys":
            ent["call"] = "exit-no-decoys"
            raise SystemExit("Error: no decoy hits available for PEP calculation (stub)")
        if stub == "exit-other":
            ent["call"] = "exit-other"
            raise SystemExit("stub: another reason to exit")
        if stub == "raised":
            ent["call"] = "raised"
            raise FloatingPointError("stub: the estimator failed")
        if stub == "ones":
            r = np.ones(len(a[0]))
        elif stub == "pointwise":
            r = np.array([g_stub(x, gk) for x in a[0]])
        else:
            try:
                r = o_pep(*a, **k)
            except SystemExit as e:
                ent["call"] = "exit-no-decoys" if "no decoy hits available for PEP calculation" in str(e) else "exit-other"
                raise
            except BaseException:
                ent["call"] = "raised"
                raise
        ent["call"] = "ok"
        ent["out"] = np.array(r, dtype=float)
        return r

    def wtd(self, data_path, columns, level, decoys, out_paths, sqlite_path=None):
        dp = Path(data_path)
        lf = pd.read_parquet(dp) if dp.suffix == ".parquet" else pd.read_csv(dp, sep="\t", float_precision="round_trip",
                                                                            dtype={"PSMId": str})
        lab = lf[self._target_column]
        idcol = "PSMId" if "PSMId" in lf.columns else lf.columns[0]   # protein level: "mokapot protein group"
        levels.append(dict(level=level, decoys=decoys, out_paths=[Path(x) for x in out_paths], target_column=self._target_column,
                           level_columns=[str(c) for c in lf.columns],
                           ids=[str(x) for x in lf[idcol]], file_scores=lf["score"].to_numpy(dtype=float),
                           file_targets=(lab.to_numpy() == 1) if lab.dtype != bool else lab.to_numpy(dtype=bool),
                           qvals=np.array(self.qvals, dtype=float),
                           peps=None if self.peps is None else np.array(self.peps, dtype=float),
                           targets=np.array(self.targets, dtype=bool), pep=cur.pop("pep", None)))
        cur["in_writer"] = level
        r = o_wtd(self, data_path, columns, level, decoys, out_paths, sqlite_path)
        cur.pop("in_writer", None)
        return r

    C.peps_from_scores = pep
    C.Confidence.write_to_disk = wtd
    try:
        yield levels, cur
    finally:
        C.peps_from_scores = o_pep
        C.Confidence.write_to_disk = o_wtd


def gen_file_run(rng, k, real, r2=None):
    """options of one assign_confidence run"""
    if real:
        o = dict(stub=None, alg=real, n_spectra=rng.choice([260, 340]), tie_free=rng.random() < 0.5,
                 c=rng.choice([37, 64, 101, 150, 10 ** 6]), decoys=rng.random() < 0.7, desc=rng.random() < 0.6,
                 qalg=rng.choice(["tdc", "from_peps", "from_counts"]), peps_error=rng.random() < 0.3,
                 fmt=rng.choice([".pin", ".pin", ".parquet"]))
        # extra roll-up levels (one more PEP call each): on a third of the real runs, one extra level
        r2 = r2 or rng
        o["levels"] = [r2.choice(["ModifiedPeptide", "Precursor", "PeptideGroup"])] if r2.random() < 0.34 else []
        o["proteins"] = False
        return o
    stub = ["pointwise", "pointwise", "pointwise", "ones", "ones", "exit-no-decoys", "exit-other", "raised"][k % 8]
    n_spectra = rng.choice([12, 20, 33])
    o = dict(stub=stub, alg=rng.choice(PEP_ALGS), n_spectra=n_spectra, tie_free=rng.random() < 0.4,
             c=rng.choice([1, 2, 3, 5, 7, n_spectra - 1, n_spectra, n_spectra + 1, 10 ** 6]),
             decoys=rng.random() < 0.5, desc=rng.random() < 0.5, qalg="tdc",
             peps_error=rng.random() < 0.5, fmt=rng.choice([".pin", ".pin", ".parquet"]))
    # the other levels that get result files: any subset of the extra roll-up levels, and the protein level
    r2 = r2 or rng
    o["levels"] = [c for c in ("ModifiedPeptide", "Precursor", "PeptideGroup") if r2.random() < 0.4]
    o["proteins"] = r2.random() < 0.3
    return o


def result_files_ext(chk, n_stub, real_algs):
    import mokapot
    import mkdata
    import pipeline

    rng = chk.rng
    r2 = rng2(chk)
    runs = [gen_file_run(rng, k, None, r2) for k in range(n_stub)] + [gen_file_run(rng, 0, a, r2) for a in real_algs]
    for o in runs:
        df = mkdata.make_psm_table(rng, n_spectra=o["n_spectra"], max_per_spectrum=2, n_feat=2, integer_scores=True,
                                   tie_free=o["tie_free"], signal=3.0, label_enc=rng.choice(["pm1", "pm1", "bool"]) if o["fmt"] == ".pin" else "pm1",
                                   level_cols=tuple(o.get("levels", ())),
                                   **(dict(letter_peptides=True, n_peptides=12) if o.get("proteins") else {}))
        feat = df["feat0"].to_numpy(dtype=float)
        opts = {k: o[k] for k in ("stub", "alg", "c", "decoys", "desc", "qalg", "peps_error", "fmt")}
        opts["levels"] = list(o.get("levels", ()))
        opts["proteins"] = bool(o.get("proteins"))
        opts["gk"] = 128.0 * (4096.0 if o["tie_free"] else 1.0)
        with tempfile.TemporaryDirectory() as td, warnings.catch_warnings(), np.errstate(all="ignore"):
            warnings.simplefilter("ignore")
            td = Path(td)
            pin = mkdata.write_table(df, td / ("in" + o["fmt"]))
            raised = None
            with recording() as rec, level_recording(o["stub"], opts["gk"]) as (levels, cur), \
                    pipeline.chunk_sizes(confidence=o["c"]):
                # mark the kernel records at the start of every PEP call
                import mokapot.confidence as C
                inner = C.peps_from_scores

                def marked(*a, _inner=inner, **k):
                    cur["mark"] = (len(rec.nnls), len(rec.hist_grid), len(rec.kde_grid), len(rec.qvality))
                    return _inner(*a, **k)

                C.peps_from_scores = marked
                try:
                    ds = mkdata.read_dataset(pin)
                    pkw = {}
                    if o.get("proteins"):
                        fasta = mkdata.make_fasta(12, 6, td / "db.fasta")
                        with contextlib.redirect_stdout(io.StringIO()), contextlib.redirect_stderr(io.StringIO()):
                            pkw = dict(proteins=mokapot.read_fasta(fasta, missed_cleavages=0, min_length=4), rng=1)
                    # a lower-is-better score is handed over as such (descs=[False]); the files report its negation
                    mokapot.assign_confidence([ds], max_workers=1, scores=[feat if o["desc"] else -feat],
                                              descs=[o["desc"]], prefixes=[None], dest_dir=td, decoys=o["decoys"],
                                              peps_algorithm=o["alg"], qvalue_algorithm=o["qalg"],
                                              peps_error=o["peps_error"], do_rollup=True, **pkw)
                except BaseException as e:
                    if isinstance(e, KeyboardInterrupt):
                        raise
                    raised = e
                finally:
                    C.peps_from_scores = inner
                pend_call = cur.get("pep")   # a PEP call after which the writer was not reached
            check_file_run(chk, opts, td, levels, pend_call, raised, rec, cur.get("in_writer"))


def check_file_run(chk, opts, td, levels, pend_call, raised, rec, in_writer=None):
    stub, alg, qalg = opts["stub"], opts["alg"], opts["qalg"]
    gk = opts.get("gk", 128.0)
    chk.count("file_run", f"{'stub:' + stub if stub else 'real:' + alg}")
    chk.count("file_run_chunk", "c=1e6" if opts["c"] >= 10 ** 6 else ("c<=7" if opts["c"] <= 7 else "c>7"))
    chk.count("file_run_opts", f"decoys={opts['decoys']},desc={opts['desc']},q={qalg},fmt={opts['fmt']},peps_error={opts['peps_error']}")
    # -- the level at which the run stopped, if any --------------------------------------------------------
    if raised is not None and in_writer is not None:
        # q-values and PEPs of the level were in hand, one per row: the property promises the result files
        chk.case(None, ("file-run-writer-raised", repr(sorted(opts.items()))))
        chk.spec_violation("result-file-writer-raises",
                           dict(opts=opts, level=in_writer, error=repr(raised)[:300],
                                clause="each PSM receives one PEP in its result file: writing the "
                                       f"{in_writer} level raised {type(raised).__name__}"))
        levels = levels[:-1]   # the files of that level are incomplete
    elif raised is not None:
        call = pend_call["call"] if pend_call else None
        n = len(pend_call["args"][0]) if pend_call else 0
        exp = None
        if call in ("exit-other", "raised"):
            exp = "reject-SystemExit" if call == "exit-other" else "reject-raised"
        elif call in ("ok", "exit-no-decoys") and opts["peps_error"]:
            vals = pend_call["out"] if call == "ok" else np.zeros(n)
            if len(vals) == 0 or (vals == 1).all():
                exp = "reject-ValueError"
        got = "reject-SystemExit" if isinstance(raised, SystemExit) else (
            "reject-ValueError" if isinstance(raised, ValueError) and "PEP values are all equal to 1" in str(raised)
            else "reject-raised")
        chk.case(None, ("file-run-raised", repr(sorted(opts.items())), got))
        chk.count("file_run_outcome", got)
        if exp == got:
            chk.count("file_run_raise_as_modelled")
            if stub is None:
                chk.reject(f"assign_confidence:{alg}:{type(raised).__name__}")
        elif stub is None and (pend_call is None or call in ("raised", "exit-other")):
            chk.reject(f"assign_confidence:{alg}:{type(raised).__name__}")  # kernel numerics / outside this model
        else:
            chk.corr_break("levelfiles-raise", dict(opts=opts, impl=f"{got}: {raised!r}"[:300], model=exp, pep_call=call))
    elif pend_call is not None:
        chk.corr_break("levelfiles-raise", dict(opts=opts, impl="no exception, writer not reached", pep_call=pend_call.get("call")))
    # -- the levels that were written ------------------------------------------------------------------------
    lines, ctx = [], []
    for lv in levels:
        call = lv["pep"]
        n = len(lv["ids"])
        idmap = {x: i for i, x in enumerate(lv["ids"])}
        info = dict(opts=opts, level=lv["level"], rows=n)
        chk.case(None, ("file-level", repr(sorted(opts.items())), lv["level"], n, tuple(lv["ids"][:8])))
        chk.count("file_level", f"{lv['level']}:{'n<=c' if n <= opts['c'] else 'n>c'}")
        if call is None or len(idmap) != n:
            chk.corr_break("levelfiles", dict(info, error="PEP estimator not called before the writer" if call is None
                                              else "level identifiers not unique"))
            continue
        tf = read_out_file(lv["out_paths"][0], idmap)
        dfile = read_out_file(lv["out_paths"][1], idmap) if len(lv["out_paths"]) > 1 else None
        if len(lv["out_paths"]) != (2 if opts["decoys"] else 1) or tf is None or (opts["decoys"] and dfile is None):
            chk.corr_break("levelfiles", dict(info, error=f"result files {[str(x.name) for x in lv['out_paths']]}"))
            continue
        # (1) the estimator saw the rows of the level file, in order (signed score, label)
        sc_in, t_in = call["args"]
        if not (np.array_equal(sc_in, lv["file_scores"]) and np.array_equal(t_in, lv["file_targets"])):
            chk.spec_violation("result-file-estimator-input",
                               dict(info, clause="aligned with its PSM: the PEP estimator was not given the level file's "
                                    "(score, label) rows in file order", impl=[float(x) for x in sc_in[:20]],
                                    expected=[float(x) for x in lv["file_scores"][:20]]))
            continue
        peps_ret = call["out"] if call["call"] == "ok" else np.zeros(n)
        # (2) direct re-statement: every row of the level is in the file of its label, once, with the PEP the
        #     estimator returned for that row (and, stubbed pointwise estimator: g of the row's own score)
        bad = None
        seen = {}
        for fname, rows, want in (("targets", tf, True), ("decoys", dfile, False)):
            if rows is None:
                continue
            for (i, sc, q, pp) in rows:
                if i < 0 or i in seen:
                    bad = f"{fname}: unknown or repeated PSMId (row id {i})"
                elif bool(lv["file_targets"][i]) != want:
                    bad = f"{fname}: row {lv['ids'][i]} has the other label"
                elif len(peps_ret) != n or pp != fx(peps_ret[i]):
                    bad = f"{fname}: row {lv['ids'][i]} (score {num(sc)}) has PEP {num(pp)}, its own is " \
                          f"{float(peps_ret[i]) if len(peps_ret) == n else 'missing'}"
                elif sc != fx(lv["file_scores"][i]):
                    bad = f"{fname}: row {lv['ids'][i]} has score {num(sc)}, level file {float(lv['file_scores'][i])}"
                elif stub == "pointwise" and pp != fx(g_stub(num(sc), gk)):
                    bad = f"{fname}: row {lv['ids'][i]} PEP {num(pp)} is not g(score) = {g_stub(num(sc), gk)}"
                seen[i] = fname
                if bad:
                    break
            if bad:
                break
        if not bad:
            missing = [lv["ids"][i] for i in range(n) if i not in seen and (opts["decoys"] or lv["file_targets"][i])]
            if missing:
                bad = f"rows without a result line: {missing[:5]}"
        if bad:
            chk.spec_violation("result-file-alignment",
                               dict(info, clause="the PEP column of every result file is aligned with its row: " + bad,
                                    impl=[(lv["ids"][i] if i >= 0 else "?", num(sc), num(pp)) for i, sc, q, pp in (tf + (dfile or []))[:30]],
                                    expected=[(x, float(s_), float(p_)) for x, s_, p_ in
                                              zip(lv["ids"][:30], lv["file_scores"][:30], peps_ret[:30])]))
            continue
        chk.count("result_file_aligned", f"{'stub' if stub else alg}:{lv['level']}")
        # (2b) the header line: the PEP cells stand under `posterior_error_prob` (the rows carry no names; the values
        #      read above by heading were the row's own PEP / score, so the data order is the header's)
        extras = [c for c in ("ModifiedPeptide", "Precursor", "PeptideGroup") if c in opts.get("levels", ())]
        exp_hdr = (["mokapot protein group", "best peptide", "stripped sequence", "score", "q-value", "posterior_error_prob"]
                   if lv["level"] == "proteins" else
                   ["PSMId", "peptide", *extras, "score", "q-value", "posterior_error_prob", "proteinIds"])
        hdrs = [open(pth).readline().rstrip("\r\n").split("\t") for pth in lv["out_paths"]]
        if any(h != exp_hdr for h in hdrs):
            chk.spec_violation("result-file-header",
                               dict(info, impl=hdrs, expected=exp_hdr,
                                    clause="the PEP column of every result file: the header line of the "
                                           f"{lv['level']} files is not the expected list of column names"))
            continue
        chk.count("result_file_columns", f"{lv['level']}:extras={len(extras)}")
        lines.append(req("pepcolumns", lv["level"], lv.get("target_column") or "Label", extras))
        ctx.append(("cols", lv, info, hdrs[0], lv.get("level_columns")))
        # (3) shape of the columns over the rows present in the files
        allrows = tf + (dfile or [])
        fs = np.array([num(r[1]) for r in allrows])
        fp = np.array([num(r[3]) for r in allrows])
        fq = np.array([num(r[2]) for r in allrows])
        nt, nd = int(lv["file_targets"].sum()), int((~lv["file_targets"]).sum())
        inq = stub in (None, "pointwise") and (stub == "pointwise" or (nt >= 50 and nd >= 50 and len(set(fs.tolist())) >= 10))
        if call["call"] == "ok" and stub != "ones" and len(fs):
            v = spec_clauses(alg, fs, fp)
            if v is not None and inq:
                chk.spec_violation(f"result-file-{v.split(':')[0]}:{'stub' if stub else alg}",
                                   dict(info, clause=f"PEP column of the {lv['level']} result files: {v}",
                                        scores=fs[:40].tolist(), impl=fp[:40].tolist()))
                continue
            if v is not None:
                chk.reject(f"result-file:{alg}:outside-quantifier:{v.split(':')[0]}")
        if qalg != "tdc" and len(fs) and opts["decoys"]:
            v = spec_clauses(qalg, fs, fq)
            if v is not None and nt >= 50 and nd >= 50 and np.isfinite(fq).all():
                chk.spec_violation(f"result-file-q-{v.split(':')[0]}:{qalg}",
                                   dict(info, clause=f"q-value column ({qalg}) of the {lv['level']} result files: {v}",
                                        scores=fs[:40].tolist(), impl=fq[:40].tolist()))
                continue
        # (4) the models: PEPs of the level from the recorded kernel outputs; files from the level loop + writer
        if stub is None and call["call"] == "ok" and call.get("mark0") is not None:
            m = call["mark0"]
            try:
                if alg == "qvality":
                    l = req("pepsfromscores", alg, fl(rec.qvality[m[3]][2]), [], [], psms(sc_in, t_in))
                elif alg == "kde_nnls":
                    l = req("pepsfromscores", alg, [], fl(rec.kde_grid[m[2]]), fl(rec.nnls[m[0]]), psms(sc_in, t_in))
                else:
                    l = req("pepsfromscores", alg, [], fl(rec.hist_grid[m[1]]), fl(rec.nnls[m[0]]), psms(sc_in, t_in))
                lines.append(l)
                ctx.append(("peps", lv, info, peps_ret, None))
            except Exception as e:  # noqa: BLE001
                chk.corr_break("levelfiles", dict(info, error="no kernel record: " + repr(e)[:200]))
        pc = fl(call["out"]) if call["call"] == "ok" else Atom(call["call"])
        if np.isfinite(lv["qvals"]).all() and (call["call"] != "ok" or np.isfinite(call["out"]).all()):
            lines.append(req("peplevelfiles", min(opts["c"], 10 ** 9), opts["decoys"], True, opts["peps_error"],
                             [[i, F(s_), bool(t_)] for i, (s_, t_) in enumerate(zip(lv["file_scores"], lv["file_targets"]))],
                             fl(lv["qvals"]), pc))
            ctx.append(("files", lv, info, tf, dfile))
        else:
            chk.reject("result-file:non-finite-q-or-pep-column")
    if lines:
        resp = common.driver_batch(lines)
        for (kind, lv, info, a, b), r in zip(ctx, resp):
            if kind == "cols":
                try:
                    m = [[common.a_str(x) for x in part] for part in dec(r)]
                except Exception:  # noqa: BLE001
                    m = None
                if m is None or m[0] != a or m[1] != a or (b is not None and m[2] != b):
                    chk.corr_break("pepcolumns", dict(info, impl=dict(header=a, level_file_columns=b), model=repr(m)[:600]))
                else:
                    chk.count("result_file_columns_model_agrees", lv["level"])
            elif kind == "peps":
                m = parse_model(r)
                if isinstance(m, str) and m == "nan-all" and len(a) and np.isnan(a).all():
                    chk.reject(f"result-file:{alg}:nan-all")
                elif isinstance(m, str) or not close(a, m):
                    chk.corr_break(f"pepsfromscores:level:{alg}",
                                   dict(info, impl=[float(x) for x in a[:40]], model=repr(m)[:400]))
                else:
                    chk.count("result_file_pep_model_agrees", f"{alg}:{lv['level']}")
            else:
                m = parse_files(r)
                if isinstance(m, str) or m[0] != a or m[1] != b:
                    chk.corr_break("levelfiles", dict(info, impl=repr((a[:6], None if b is None else b[:6]))[:700],
                                                      model=repr(m if isinstance(m, str) else (m[0][:6], None if m[1] is None else m[1][:6]))[:700]))
                else:
                    chk.count("result_file_model_agrees", lv["level"])


# ----------------------------------------------------------------------------------------------
# result files of the roll-up tool (brew_rollup.main): the third producer of a posterior_error_prob column
# ----------------------------------------------------------------------------------------------
ROLLUP_STD = {"SpecId": "psm_id", "PSMId": "psm_id", "Precursor": "precursor", "pcm": "precursor", "PCM": "precursor",
              "Peptide": "peptide", "PeptideGroup": "peptide_group", "peptidegroup": "peptide_group",
              "ModifiedPeptide": "modified_peptide", "modifiedpeptide": "modified_peptide", "q-value": "q_value"}
ROLLUP_SRC_FILE = {"psm": "psms", "precursor": "precursors", "peptide": "peptides"}
ROLLUP_NEEDS = {"precursor": "Precursor"}


def gen_rollup_run(rng, k, real):
    levels = [c for c in ("ModifiedPeptide", "Precursor", "PeptideGroup") if rng.random() < 0.6]
    base = rng.choice(["psm", "psm", "psm", "precursor", "peptide"])
    if base in ROLLUP_NEEDS and ROLLUP_NEEDS[base] not in levels:
        levels = [c for c in ("ModifiedPeptide", "Precursor", "PeptideGroup") if c in levels or c == ROLLUP_NEEDS[base]]
    if real:
        return dict(stub=None, alg=real, n_spectra=rng.choice([260, 340]), tie_free=rng.random() < 0.5, levels=levels,
                    base="psm", qalg=rng.choice(["tdc", "from_peps", "from_counts"]), given=rng.random() < 0.7)
    stub = ["pointwise", "pointwise", "pointwise", "ones", "exit-no-decoys", "raised"][k % 6]
    return dict(stub=stub, alg=rng.choice(PEP_ALGS), n_spectra=rng.choice([12, 20, 33]), tie_free=rng.random() < 0.4,
                levels=levels, base=base, qalg="tdc", given=rng.random() < 0.5)


def read_tool_file(path):
    """result file of the tool -> [(score, q, pep)] with exact values, in file order (None: absent)"""
    import pandas as pd

    if not Path(path).exists():
        return None
    df = pd.read_csv(path, sep="\t", float_precision="round_trip")
    return [(fx(a), fx(b), fx(c)) for a, b, c in zip(df["score"], df["q_value"], df["posterior_error_prob"])]


def rollup_files(chk, n_stub, real_algs):
    """`brew_rollup.main` on result files written by assign_confidence: per roll-up level, the q-values and PEPs the
    tool's estimators returned for the rows of the level (recorded by pass-through wrappers; the PEP estimator real or
    a stub) against the two files the tool wrote: row i of the level, with pep[i], in the file of its label, in order"""
    import mkdata
    import pipeline

    BR = pipeline.mod("mokapot.brew_rollup")
    QV = pipeline.mod("mokapot.qvalues")
    rng = rng2(chk)
    runs = [gen_rollup_run(rng, k, None) for k in range(n_stub)] + [gen_rollup_run(rng, 0, a) for a in real_algs]
    for o in runs:
        df = mkdata.make_psm_table(rng, n_spectra=o["n_spectra"], max_per_spectrum=2, n_feat=2, integer_scores=True,
                                   tie_free=o["tie_free"], signal=3.0, level_cols=tuple(o["levels"]))
        feat = df["feat0"].to_numpy(dtype=float)
        gk = 128.0 * (4096.0 if o["tie_free"] else 1.0)
        opts = {k: o[k] for k in ("stub", "alg", "levels", "base", "qalg", "given", "tie_free", "n_spectra")}
        calls, qcalls = [], []
        o_pep, o_q = BR.peps_from_scores, QV.qvalues_from_scores

        def pep(*a, _o=o, **k):
            ent = dict(scores=np.array(a[0], dtype=float), targets=np.array(a[1], dtype=bool),
                       alg=(a[2] if len(a) > 2 else k.get("pep_algorithm")), call="raised")
            calls.append(ent)
            if _o["stub"] == "exit-no-decoys":
                ent["call"] = "exit-no-decoys"
                raise SystemExit("Error: no decoy hits available for PEP calculation (stub)")
            if _o["stub"] == "raised":
                raise FloatingPointError("stub: the estimator failed")
            if _o["stub"] == "ones":
                r = np.ones(len(a[0]))
            elif _o["stub"] == "pointwise":
                r = np.array([g_stub(x, gk) for x in a[0]])
            else:
                r = o_pep(*a, **k)
            ent["call"] = "ok"
            ent["out"] = np.array(r, dtype=float)
            return r

        def qv(*a, **k):
            r = o_q(*a, **k)
            qcalls.append(np.array(r, dtype=float))
            return r

        with tempfile.TemporaryDirectory() as td, warnings.catch_warnings(), np.errstate(all="ignore"):
            warnings.simplefilter("ignore")
            td = Path(td)
            src, dest = td / "src", td / "dest"
            src.mkdir(); dest.mkdir()
            raised = None
            try:
                ds = mkdata.read_dataset(mkdata.write_table(df, td / "in.pin"))
                with pipeline.pep_kernel(stub=True):    # the tool's input files: their PEP column is dropped by the tool
                    pipeline.run_assign_confidence([ds], [feat], src, prefixes=["p0"], decoys=True, do_rollup=True)
            except BaseException as e:
                if isinstance(e, KeyboardInterrupt):
                    raise
                chk.reject(f"rollup-input:{type(e).__name__}")
                continue
            srcf = [src / f"p0.{w}.{ROLLUP_SRC_FILE[o['base']]}" for w in ("targets", "decoys")]
            if any((not f.exists()) or len(pd.read_csv(f, sep="\t")) == 0 for f in srcf):
                chk.reject("rollup-input-file-without-rows")
                continue
            header = list(pd.read_csv(srcf[0], sep="\t", nrows=0).columns)
            cols = [ROLLUP_STD.get(c, c) for c in header]
            levels = [lv for lv in BR.compute_rollup_levels(ROLLUP_STD.get(o["base"], o["base"])) if lv in cols]
            args = ["--level", o["base"], "-s", str(src), "-d", str(dest), "-r", "roll"]
            if o["given"]:
                args += ["--peps_algorithm", o["alg"], "--qvalue_algorithm", o["qalg"]]
            exp_alg = o["alg"] if o["given"] else "qvality"
            BR.peps_from_scores, QV.qvalues_from_scores = pep, qv
            try:
                with contextlib.redirect_stdout(io.StringIO()), contextlib.redirect_stderr(io.StringIO()):
                    BR.main(args)
            except BaseException as e:
                if isinstance(e, KeyboardInterrupt):
                    raise
                raised = e
            finally:
                BR.peps_from_scores, QV.qvalues_from_scores = o_pep, o_q
            chk.count("rollup_run", f"{'stub:' + o['stub'] if o['stub'] else 'real:' + o['alg']}")
            chk.count("rollup_run_opts", f"base={o['base']},levels={len(levels)},options={'given' if o['given'] else 'default'}")
            check_rollup_run(chk, opts, dest, levels, calls, qcalls, raised, exp_alg, gk)


def check_rollup_run(chk, opts, dest, levels, calls, qcalls, raised, exp_alg, gk):
    stub, alg = opts["stub"], exp_alg
    lines, ctx = [], []
    if raised is not None:
        last = calls[-1] if calls else None
        got = "reject-SystemExit" if isinstance(raised, SystemExit) else "reject-raised"
        chk.case(None, ("rollup-raised", repr(sorted(opts.items())), got))
        if last is None or last["call"] == "ok":
            # q-values and PEPs of the level were in hand (or no level was reached): the files are promised
            if stub is None and last is None:
                chk.reject(f"rollup:{alg}:{type(raised).__name__}")
            else:
                chk.spec_violation("rollup-tool-raises",
                                   dict(opts=opts, error=repr(raised)[:300],
                                        clause="each PSM receives one PEP in its result file: the roll-up tool raised "
                                               f"{type(raised).__name__} although the estimators had answered"))
            return
        exp = "reject-SystemExit" if last["call"] == "exit-no-decoys" else "reject-raised"
        if stub is None:
            chk.reject(f"rollup:{alg}:{type(raised).__name__}")   # the real estimator failed: its own check reports it
        elif got != exp:
            chk.corr_break("rolluplevelfiles-raise", dict(opts=opts, impl=f"{got}: {raised!r}"[:300], model=exp))
        else:
            chk.count("rollup_raise_as_modelled", got)
        calls = calls[:-1]
    elif stub in ("exit-no-decoys", "raised") and levels:
        chk.case(None, ("rollup-not-raised", repr(sorted(opts.items()))))
        chk.corr_break("rolluplevelfiles-raise", dict(opts=opts, impl="no exception", model="reject"))
        return
    if raised is None and len(calls) != len(levels):
        chk.corr_break("rolluplevelfiles", dict(opts=opts, error=f"{len(calls)} PEP calls for the levels {levels}"))
        return
    for k, call in enumerate(calls):
        lv = levels[k]
        sc, tg, pp = call["scores"], call["targets"], call["out"]
        qs = qcalls[k] if k < len(qcalls) else None
        n = len(sc)
        info = dict(opts=opts, level=lv, rows=n)
        chk.case(None, ("rollup-level", repr(sorted(opts.items())), lv, n, tuple(sc[:6].tolist())))
        chk.count("rollup_level", lv)
        if call["alg"] != alg:
            chk.corr_break("rolluplevelfiles", dict(info, error=f"estimator {call['alg']!r} instead of {alg!r}"))
            continue
        tf = read_tool_file(dest / f"roll.targets.{lv}s")
        dfile = read_tool_file(dest / f"roll.decoys.{lv}s")
        if tf is None or dfile is None or qs is None or len(qs) != n or len(pp) != n:
            chk.corr_break("rolluplevelfiles", dict(info, error="result file, q-values or PEPs of the level missing"))
            continue
        # direct re-statement: row i of the level, with q[i] and pep[i], in the file of its label, in level order
        exp_t = [(fx(sc[i]), fx(qs[i]), fx(pp[i])) for i in range(n) if tg[i]]
        exp_d = [(fx(sc[i]), fx(qs[i]), fx(pp[i])) for i in range(n) if not tg[i]]
        bad = None
        for fname, rows, exp in (("targets", tf, exp_t), ("decoys", dfile, exp_d)):
            if len(rows) != len(exp):
                bad = f"{fname}: {len(rows)} rows for {len(exp)} rows of the level with that label"
            else:
                for j, (r_, e_) in enumerate(zip(rows, exp)):
                    if r_[0] != e_[0]:
                        bad = f"{fname}: row {j} has score {num(r_[0])}, the level row {num(e_[0])}"
                    elif r_[2] != e_[2]:
                        bad = f"{fname}: row {j} (score {num(r_[0])}) has PEP {num(r_[2])}, its own is {num(e_[2])}"
                    elif r_[1] != e_[1]:
                        bad = f"{fname}: row {j} (score {num(r_[0])}) has q-value {num(r_[1])}, its own is {num(e_[1])}"
                    elif stub == "pointwise" and r_[2] != fx(g_stub(num(r_[0]), gk)):
                        bad = f"{fname}: row {j} PEP {num(r_[2])} is not g(score) = {g_stub(num(r_[0]), gk)}"
                    if bad:
                        break
            if bad:
                break
        if bad:
            chk.spec_violation("rollup-file-alignment",
                               dict(info, clause="the PEP column of every result file is aligned with its row (roll-up "
                                    "tool): " + bad, impl=[(num(a), num(c)) for a, b, c in (tf + dfile)[:30]],
                                    expected=[(float(a), float(c)) for a, c in zip(sc[:30], pp[:30])]))
            continue
        chk.count("rollup_file_aligned", f"{'stub' if stub else alg}:{lv}")
        fs = np.array([num(r[0]) for r in tf + dfile])
        fp = np.array([num(r[2]) for r in tf + dfile])
        nt, nd = int(tg.sum()), int((~tg).sum())
        inq = stub == "pointwise" or (stub is None and nt >= 50 and nd >= 50 and len(set(fs.tolist())) >= 10)
        if stub != "ones" and len(fs):
            v = spec_clauses(alg, fs, fp)
            if v is not None and inq:
                chk.spec_violation(f"rollup-file-{v.split(':')[0]}:{'stub' if stub else alg}",
                                   dict(info, clause=f"PEP column of the {lv} files of the roll-up tool: {v}",
                                        scores=fs[:40].tolist(), impl=fp[:40].tolist()))
                continue
            if v is not None:
                chk.reject(f"rollup-file:{alg}:outside-quantifier:{v.split(':')[0]}")
        if np.isfinite(qs).all() and np.isfinite(pp).all():
            lines.append(req("rolluplevelfiles", [[i, F(s_), bool(t_)] for i, (s_, t_) in enumerate(zip(sc, tg))],
                             fl(qs), fl(pp)))
            ctx.append((info, tg, tf, dfile))
        else:
            chk.reject("rollup-file:non-finite-q-or-pep-column")
    if lines:
        resp = common.driver_batch(lines)
        for (info, tg, tf, dfile), r in zip(ctx, resp):
            r = r.strip()
            ok = r.startswith("[")
            if ok:
                mt, md = dec(r)
                m_t = [(a_rat(x[1]), a_rat(x[2]), a_rat(x[3])) for x in mt]
                m_d = [(a_rat(x[1]), a_rat(x[2]), a_rat(x[3])) for x in md]
                ids_ok = ([a_int(x[0]) for x in mt] == [i for i in range(len(tg)) if tg[i]]
                          and [a_int(x[0]) for x in md] == [i for i in range(len(tg)) if not tg[i]])
                ok = ids_ok and m_t == tf and m_d == dfile
            if not ok:
                chk.corr_break("rolluplevelfiles", dict(info, impl=repr((tf[:5], dfile[:5]))[:600], model=r[:600]))
            else:
                chk.count("rollup_file_model_agrees", info["level"])


# ----------------------------------------------------------------------------------------------
# ----------------------------------------------------------------------------------------------
# THIRD PASS: second calls / re-used array objects, small-scope sweeps of fit_nnls and hist_data_from_scores
# ----------------------------------------------------------------------------------------------
def rng3(chk):
    """the generator of the dimensions added in the third pass (a stream of its own, a function of VERIF_SEED)"""
    if not hasattr(chk, "_rng3"):
        import random

        chk._rng3 = random.Random(f"C06-third-pass:{chk.seed}")
    return chk._rng3


def direct_function(alg):
    """the estimator behind a table name, called directly (alternative entry point)"""
    import mokapot.peps as P
    import mokapot.qvalues as Q

    return {"qvality": P.peps_from_scores_qvality, "kde_nnls": P.peps_from_scores_kde_nnls,
            "hist_nnls": P.peps_from_scores_hist_nnls, "from_peps": Q.qvalues_from_peps,
            "from_counts": Q.qvalues_from_counts}[alg]


def call_quiet(f, *a):
    with warnings.catch_warnings(), np.errstate(all="ignore"):
        warnings.simplefilter("ignore")
        return np.asarray(f(*a), dtype=float)


def reuse_sequence(alg, via, sA, tA, sB, tB):
    """the sequence of calls of one re-use case -> None, or (label of the first call whose answer is not the answer
    for the contents at the time of the call, its answer, the reference answer, the scores of that call, answer of
    the first call).  Reference answers are first calls on distinct objects that all stay alive."""
    import mokapot.peps as P
    import mokapot.qvalues as Q

    if via == "entry":
        f = (lambda s_, t_: P.peps_from_scores(s_, t_, alg)) if alg in PEP_ALGS else \
            (lambda s_, t_: Q.qvalues_from_scores(s_, t_, alg))
    else:
        f = direct_function(alg)
    # a third data set for the objects allocated after the first ones were freed
    sC, tC = sA[::-1].copy() * 0.5 + 1.0, tA[::-1].copy()
    live = [sA.copy(), tA.copy(), sB.copy(), tB.copy(), sC.copy(), tC.copy()]
    ref_A = call_quiet(f, live[0], live[1])
    ref_B = call_quiet(f, live[2], live[3])
    ref_C = call_quiet(f, live[4], live[5])
    s, t = sA.copy(), tA.copy()
    out_A = call_quiet(f, s, t)
    s[:] = sB
    t[:] = tB                                         # same objects, new contents
    out_B = call_quiet(f, s, t)
    out_B2 = call_quiet(f, s, t)                      # unchanged objects, third call
    del s, t                                          # freed: the next arrays of this size may get their address
    s2, t2 = np.empty_like(sC), np.empty_like(tC)
    s2[:] = sC
    t2[:] = tC
    out_C = call_quiet(f, s2, t2)
    again_A = call_quiet(f, sA.copy(), tA.copy())
    for label, o, ref, sc_ in (("first call on fresh objects", out_A, ref_A, sA),
                               ("same objects refilled in place", out_B, ref_B, sB),
                               ("same objects, third call", out_B2, ref_B, sB),
                               ("new objects allocated after the first were freed", out_C, ref_C, sC),
                               ("first data set again in fresh objects", again_A, ref_A, sA)):
        if o.shape != ref.shape or not np.array_equal(o, ref, equal_nan=True):
            return label, o, ref, sc_, out_A
    return None


def report_reuse(chk, alg, via, A, sA, tA, sB, tB, bad):
    label, o, ref, sc_, out_A = bad
    k = int(np.argmax(np.abs(np.nan_to_num(o - ref, nan=np.inf)))) if o.shape == ref.shape else -1
    stale = o.shape == out_A.shape and np.array_equal(o, out_A, equal_nan=True)
    case = dict(A, scores=sB.tolist(), labels=tB.tolist())
    chk.spec_violation(
        f"stale-result-on-second-call:{alg}",
        dict(case=jsonable(case, alg), call=label, via=via, row=k,
             reuse=dict(first_scores=[float(x).hex() for x in sA], first_labels=[bool(x) for x in tA], via=via),
             score=float(sc_[k]) if k >= 0 else None, impl=[float(x) for x in o[:30]],
             expected=[float(x) for x in ref[:30]], equals_first_calls_answer=bool(stale),
             spec_on_that_answer=spec_clauses(alg, sc_, o),
             clause="the i-th returned value belongs to the i-th input PSM: the answer of a second call "
                    "is not the answer for the arrays' contents at the time of the call"))


def reuse_cases(chk, n_per_alg, nmax):
    """second calls: every estimator (through its entry point or called directly) is called on data set A, then the SAME
    two ndarray objects are refilled in place with data set B (same length) and handed over again, then a third time
    unchanged, then a data set C in new objects allocated right after the first were freed (which may get their
    address), then A again.  Each answer must be the answer for the contents the arrays have at the time of the call:
    bit for bit the answer of a first call on distinct, simultaneously alive objects with those contents."""
    r3 = rng3(chk)
    for alg in PEP_ALGS + Q_ALGS:
        for i in range(n_per_alg):
            lim = min(nmax, 400 if alg in ("qvality", "kde_nnls") else 1200)
            A = gen_case(r3, lim, mixture="regular")
            n = len(A["scores"])
            # B: another data set of the same size: A's scores transformed non-monotonically (reflected around the
            # median, rescaled, shifted), labels permuted with the scores — every position's own score changes
            sA = np.array(A["scores"], dtype=float)
            tA = np.array(A["labels"], dtype=bool)
            p = np.array(random_perm(r3, n))
            sB = (np.median(sA) - sA[p]) * r3.choice([0.5, 1.0, 2.0]) + r3.choice([0.0, 3.0])
            tB = ~tA[p] if r3.random() < 0.5 and 50 <= int((~tA).sum()) else tA[p]
            via = r3.choice(["entry", "direct"])
            try:
                bad = reuse_sequence(alg, via, sA, tA, sB, tB)
            except BaseException as e:  # noqa: BLE001
                if isinstance(e, KeyboardInterrupt):
                    raise
                chk.reject(f"reuse:{alg}:{type(e).__name__}")
                continue
            chk.case(None, ("reuse", alg, via, n, hash(tuple(sB.tolist()))),
                     sample=dict(alg=alg, kind="second call on refilled arrays", via=via, n=n))
            chk.count("reuse_case", f"{alg}:{via}")
            if bad is not None:
                report_reuse(chk, alg, via, A, sA, tA, sB, tB, bad)
            else:
                chk.count("reuse_agrees", alg)


def sweep_fit_system(chk, nmax, n_random):
    """the real fit_nnls(n, k, ascending=False) on all count vectors n in {0,1,2,3}^N (N <= nmax) — every pattern of
    empty bins, including a leading / trailing one — and on random longer ones: the system it hands to
    scipy.optimize.nnls against Model `fitRows` / `fitRhs` / `fitW2` (op fitsystem), and its return value against
    the reversed cumulative sum of the solver's answer"""
    import mokapot.peps as P

    r3 = rng3(chk)
    todo = []
    for N in range(1, nmax + 1):
        for n in itertools.product([0, 1, 2, 3], repeat=N):
            todo.append((list(n), [round(r3.uniform(0.0, 4.0), 3) for _ in range(N)]))
    for _ in range(n_random):
        N = r3.randint(5, 40)
        todo.append(([r3.choice([0, 0, 1, 2, 5, 17, 120]) for _ in range(N)], [r3.uniform(0.0, 50.0) for _ in range(N)]))
    lines, metas = [], []
    for n, k in todo:
        n_arr, k_arr = np.array(n, dtype=np.int64), np.array(k, dtype=float)
        with recording() as rec, warnings.catch_warnings(), np.errstate(all="ignore"):
            warnings.simplefilter("ignore")
            try:
                p_ = np.asarray(P.fit_nnls(n_arr.copy(), k_arr.copy(), ascending=False), dtype=float)
            except Exception as e:  # noqa: BLE001
                chk.reject(f"fit_nnls:{type(e).__name__}")
                continue
        if len(rec.nnls_in) != 1 or rec.nnls_in[0] is None:
            chk.corr_break("fitsystem", dict(n=n, k=k, error=f"nnls called {len(rec.nnls_in)} times"))
            continue
        lines.append(req("fitsystem", [Fraction(int(x)) for x in n[::-1]], fl(k[::-1])))
        metas.append((n, k, rec.nnls_in[0], rec.nnls[0], p_))
    resp = common.driver_batch(lines)
    for (n, k, nnls_in, d, p_), r in zip(metas, resp):
        chk.case(None, ("fitsystem", tuple(n)) if 0 in n else None, sample=dict(op="fit_nnls", n=n[:12], k=k[:12]))
        chk.count("fit_system_empty_bins", min(4, n.count(0)))
        chk.count("fit_system_trailing_empty_bin", bool(n[0] == 0))   # the last row of the reversed problem
        m = dec(r.strip())
        rows, rhs, w2 = deep(a_rat, m[0]), deep(a_rat, m[1]), deep(a_rat, m[2])
        ok = system_agrees(nnls_in, rows, rhs, w2) and close(p_, np.cumsum(d)[::-1])
        if ok:
            chk.count("hist_side_agrees", "fitsystem:sweep")
        else:
            chk.corr_break("fitsystem", dict(n=n, k=k, impl=dict(A=[float(x) for x in nnls_in[0].ravel()[:36]],
                                                                 b=[float(x) for x in nnls_in[1][:12]]),
                                             model=r[:400]))


def sweep_hist_data(chk, nmax):
    """the real hist_data_from_scores with explicit bin edges on all score vectors over {0, 1/2, 1, 2, 3, 7/2}^n x all
    labellings: scores on inner edges, on the first and the last edge, outside the edges; counts, densities and midpoints
    against Model `histDataOf` / `histDensity` (op histdata)"""
    import mokapot.peps as P

    vals = [0.0, 0.5, 1.0, 2.0, 3.0, 3.5]
    edge_sets = [[0.0, 1.0, 2.0, 3.0], [0.5, 3.0], [1.0, 1.5, 3.5]]
    lines, metas = [], []
    for n in range(1, nmax + 1):
        for sc in itertools.product(vals, repeat=n):
            for lab in itertools.product([True, False], repeat=n):
                for edges in edge_sets:
                    for dens in (False, True):
                        s, t = np.array(sc, dtype=float), np.array(lab, dtype=bool)
                        with warnings.catch_warnings(), np.errstate(all="ignore"):
                            warnings.simplefilter("ignore")
                            es, tc, dc = P.hist_data_from_scores(s, t, bins=np.array(edges), density=dens)
                        lines.append(req("histdata", fl(edges), psms(s, t), dens))
                        metas.append((sc, lab, edges, dens, np.asarray(es, float), np.asarray(tc, float), np.asarray(dc, float)))
    resp = common.driver_batch(lines)
    for (sc, lab, edges, dens, es, tc, dc), r in zip(metas, resp):
        on_edge = any(x in edges for x in sc)
        chk.case(None, ("histdata", sc, lab, tuple(edges), dens) if on_edge else None,
                 sample=dict(op="hist_data_from_scores", scores=list(sc), labels=list(lab), edges=edges, density=dens))
        m = dec(r.strip())
        mes, mt, md = (np.array(deep(a_rat, x), dtype=float) for x in m)
        # density of an empty histogram is 0/0 in numpy; the model divides by a zero total: core Rat x/0 = 0
        nan_ok = dens and ((np.isnan(tc).all() and not any(lab[i] and edges[0] <= sc[i] <= edges[-1] for i in range(len(sc))))
                           or (np.isnan(dc).all() and not any((not lab[i]) and edges[0] <= sc[i] <= edges[-1] for i in range(len(sc)))))
        if nan_ok:
            chk.reject("hist_data:empty-histogram-density-nan")
            continue
        if close(es, mes) and close(tc, mt) and close(dc, md):
            chk.count("hist_side_agrees", "histdata:sweep")
        else:
            chk.corr_break("histdata", dict(scores=list(sc), labels=list(lab), edges=edges, density=dens,
                                            impl=dict(t=tc.tolist(), d=dc.tolist()), model=r[:300]))


def corpus_cases():
    p = common.VERIF / "harness" / "corpus" / "C06.json"
    if p.exists():
        return [from_json(d) for d in json.loads(p.read_text())]
    return []


def run_corpus(chk):
    pending = []
    for c in corpus_cases():
        algs = [c["alg"]] if c.get("alg") else PEP_ALGS + Q_ALGS
        for alg in algs:
            perm = c.get("perm") or list(range(len(c["scores"])))[::-1]
            eval_one(chk, c, alg, perm, pending)
    flush(chk, pending)


def quantile_case(nt, nd, sep, sd):
    """a deterministic, regular input: targets at the quantiles of N(sep, sd), decoys at the quantiles of N(0, 1),
    interleaved (no incorrect target at all)"""
    from statistics import NormalDist

    nd_ = NormalDist()
    tg = [sep + sd * nd_.inv_cdf((k + 0.5) / nt) for k in range(nt)]
    dc = [nd_.inv_cdf((k + 0.5) / nd) for k in range(nd)]
    rows = [x for pair in itertools.zip_longest([(x, True) for x in tg], [(x, False) for x in dc]) for x in pair
            if x is not None]
    return dict(scores=[r[0] for r in rows], labels=[r[1] for r in rows], shape="quantiles", gran=None,
                arr="interleaved", pi0=0.0, sep=sep, mixture="separated")


def run_fixed(chk):
    """hand-picked inputs run on every seed: the smallest regular inputs on which the second pass found the code to
    fail (GAPS-C06.md §6; repaired by commit 835a908 of /repo) — kept as regression inputs"""
    pending = []
    for nt, nd, sep, sd in ((50, 50, 8.0, 0.5), (50, 50, 6.0, 0.5)):
        for alg in ("kde_nnls", "hist_nnls", "from_peps", "from_counts"):
            case = dict(quantile_case(nt, nd, sep, sd), form="positional")
            chk.count("fixed_case", f"sep={sep}:{alg}")
            eval_one(chk, case, alg, list(range(nt + nd))[::-1], pending)
    flush(chk, pending)


def search(chk):
    """failing-input search when a proof or the correspondence is broken"""
    run_generated(chk, 10, 150, 1500)
    if not chk.spec_violations:
        sweep_small(chk, 6)
    if not chk.spec_violations:
        sweep_writer(chk, 5, 300)
    if not chk.spec_violations:
        result_files_ext(chk, 64, ["hist_nnls"] * 6 + ["kde_nnls"] * 2)
    if not chk.spec_violations:
        rollup_files(chk, 36, ["hist_nnls"] * 3 + ["kde_nnls"])


def minimise(chk):
    """shrink the rows of the first generated violation while the same clause keeps failing"""
    if not chk.spec_violations:
        return
    sig, info = chk.spec_violations[0]
    c0 = info.get("case")
    if not c0 or "scores" not in c0 or c0.get("arr") == "exhaustive" or len(c0["scores"]) > 4000:
        return
    alg = c0["alg"]
    if alg in ("qvality", "kde_nnls"):
        return  # seconds per evaluation; the replay file carries the full input
    base = from_json(c0)
    rows = list(zip(base["scores"], base["labels"]))
    had_perm = "perm" in c0

    def fails(rs):
        sub = common.Check(chk.prop, chk.tier, chk.seed)
        c = dict(base, scores=[r[0] for r in rs], labels=[r[1] for r in rs])
        c.pop("perm", None)
        pend = []
        try:
            eval_one(sub, c, alg, list(range(len(rs)))[::-1] if had_perm else None, pend)
        except Exception:
            return False
        return any(s == sig for s, _ in sub.spec_violations)

    try:
        small = common.shrink_list(rows, fails, min_len=2)
    except Exception:
        return
    if len(small) < len(rows):
        sub = common.Check(chk.prop, chk.tier, chk.seed)
        c = dict(base, scores=[r[0] for r in small], labels=[r[1] for r in small])
        c.pop("perm", None)
        eval_one(sub, c, alg, list(range(len(small)))[::-1] if had_perm else None, [])
        for s, i in sub.spec_violations:
            if s == sig:
                chk.spec_violations[0] = (s, dict(i, shrunk_from_rows=len(rows)))
                break


def sqlite_cases(chk, n_cases):
    """the SQLite result database (assign_confidence(sqlite_path=...)): the PSM-level and peptide-level tables must
    carry, for every row, the same q-value, score and PEP as the text result files of the same analysis, and the PEP
    of a row is the estimator's value for that row's own score (stub estimator g(score) = 1/(1+2^score))"""
    import importlib
    import shutil
    import sqlite3
    import tempfile

    import mokapot

    conf = importlib.import_module("mokapot.confidence")
    for _ in range(n_cases):
        rng = chk.rng
        n = rng.choice([30, 60, 120])
        seed = rng.randrange(1 << 30)
        r = np.random.default_rng(seed)
        label = np.where(r.random(n) < 0.5, 1, -1)
        score = np.array([float(rng.randint(-40, 40)) / 4 for _ in range(n)])      # exact in text and REAL
        npep = max(2, n // 2)
        df = pd.DataFrame({"SpecId": np.arange(1, n + 1), "Label": label, "ScanNr": np.arange(1, n + 1),
                           "ExpMass": 1000 + np.arange(n), "feat": score, "feat2": np.arange(n) % 5,
                           "Peptide": 10001 + (np.arange(n) * 7) % npep, "Proteins": ["P%d" % i for i in range(n)]})
        chunk = rng.choice([None, 7, 25])
        g = lambda s: 1.0 / (1.0 + 2.0 ** np.asarray(s, dtype=float))   # noqa: E731
        old = conf.peps_from_scores
        conf.peps_from_scores = lambda scores, targets, *a, **k: g(scores)
        d = Path(tempfile.mkdtemp(prefix="c06sql"))
        try:
            pin = d / "a.pin"
            df.to_csv(pin, sep="\t", index=False)
            out = {}
            for kind in ("txt", "db"):
                dd = d / kind
                dd.mkdir()
                kw = {}
                if kind == "db":
                    con = sqlite3.connect(dd / "r.db")
                    con.execute("CREATE TABLE CANDIDATE (CANDIDATE_ID INTEGER NOT NULL, PSM_FDR REAL, SVM_SCORE REAL, "
                                "POSTERIOR_ERROR_PROBABILITY REAL, PRIMARY KEY (CANDIDATE_ID));")
                    con.execute("CREATE TABLE PEPTIDE_VALIDATION (PEPTIDE_ID INTEGER NOT NULL, FDR REAL, PEP REAL, "
                                "SVM_SCORE REAL, PRIMARY KEY (PEPTIDE_ID))")
                    con.executemany("INSERT INTO CANDIDATE (CANDIDATE_ID) VALUES(?)", [(int(i),) for i in df["SpecId"]])
                    con.commit(); con.close()
                    kw["sqlite_path"] = dd / "r.db"
                ctx = P.chunk_sizes(confidence=chunk) if chunk else contextlib.nullcontext()
                with ctx, contextlib.redirect_stdout(io.StringIO()), contextlib.redirect_stderr(io.StringIO()):
                    ds = mokapot.read_pin([pin], max_workers=1)
                    mokapot.assign_confidence(ds, max_workers=1, scores=[score.copy()], dest_dir=dd, prefixes=[None],
                                              decoys=True, **kw)
                out[kind] = dd
            txt_psm = pd.concat([P.read_result(out["txt"] / "targets.psms"), P.read_result(out["txt"] / "decoys.psms")])
            txt_pep = pd.concat([P.read_result(out["txt"] / "targets.peptides"),
                                 P.read_result(out["txt"] / "decoys.peptides")])
            con = sqlite3.connect(out["db"] / "r.db")
            cand = pd.read_sql("SELECT * FROM CANDIDATE", con)
            pepv = pd.read_sql("SELECT * FROM PEPTIDE_VALIDATION", con)
            con.close()
        except Exception as e:  # noqa: BLE001
            chk.reject("sqlite-run-failed:" + type(e).__name__)
            continue
        finally:
            conf.peps_from_scores = old
            shutil.rmtree(d, ignore_errors=True)
        chk.case(None, (seed, "sqlite"), sample=dict(kind="sqlite", n=n, chunk=chunk, psm_rows=len(cand)))
        chk.count("sqlite-chunk", str(chunk))
        clause = None
        t = {int(r_["PSMId"]): (float(r_["q-value"]), float(r_["score"]), float(r_["posterior_error_prob"]))
             for r_ in txt_psm.to_dict("records")}
        for r_ in cand.to_dict("records"):
            i = int(r_["CANDIDATE_ID"])
            if i not in t:
                if r_["PSM_FDR"] is not None and r_["PSM_FDR"] == r_["PSM_FDR"]:
                    clause = f"PSM {i} has values in the database but is in no PSM-level result file"
                continue
            got = (r_["PSM_FDR"], r_["SVM_SCORE"], r_["POSTERIOR_ERROR_PROBABILITY"])
            if any(x is None or x != x for x in got):
                clause = f"PSM {i}: missing value in CANDIDATE {got}"
            elif tuple(float(x) for x in got) != t[i]:
                clause = (f"PSM {i}: database (q, score, PEP) = {got} but the text result files have {t[i]}")
            elif float(got[2]) != float(g(got[1])):
                clause = f"PSM {i}: PEP {got[2]} is not the estimator's value for its own score {got[1]}"
            if clause:
                break
        if clause is None:
            tp = {int(r_["peptide"]): (float(r_["q-value"]), float(r_["posterior_error_prob"]), float(r_["score"]))
                  for r_ in txt_pep.to_dict("records")}
            dbp = {int(r_["PEPTIDE_ID"]): (float(r_["FDR"]), float(r_["PEP"]), float(r_["SVM_SCORE"]))
                   for r_ in pepv.to_dict("records")}
            if dbp != tp:
                bad = sorted(k for k in set(dbp) | set(tp) if dbp.get(k) != tp.get(k))[:3]
                clause = f"peptide level: database rows differ from the text result files for peptides {bad}: " \
                         f"{[dbp.get(k) for k in bad]} vs {[tp.get(k) for k in bad]}"
        if clause:
            chk.spec_violation("sqlite-result-alignment", dict(seed=seed, n=n, chunk=chunk, clause=clause))
            return


def main(chk, args):
    build = common.build_and_audit("C06")
    if not build.driver_ok:
        chk.finish(build, RULE)
    run_corpus(chk)
    run_fixed(chk)
    if chk.tier == "quick":
        sweep_primitives(chk, full=False)
        run_generated(chk, 7, 60, 1200)
        sweep_small(chk, 4)
        result_files(chk, 3)
        dispatch_cases(chk, 10)
        sweep_writer(chk, 4, 40)
        result_files_ext(chk, 16, ["hist_nnls", "hist_nnls", "kde_nnls"])
        rollup_files(chk, 4, ["hist_nnls"])
        sqlite_cases(chk, 2)
        reuse_cases(chk, 2, 1200)
        sweep_fit_system(chk, 3, 20)
        sweep_hist_data(chk, 2)
    else:
        sweep_primitives(chk, full=True)
        run_generated(chk, 60, 600, 3000)
        sweep_small(chk, 6)
        result_files(chk, 12)
        dispatch_cases(chk, 300)
        sweep_writer(chk, 6, 600)
        result_files_ext(chk, 160, ["hist_nnls"] * 14 + ["kde_nnls"] * 6 + ["qvality"] * 4)
        rollup_files(chk, 60, ["hist_nnls"] * 6 + ["kde_nnls"] * 3 + ["qvality"] * 2)
        sqlite_cases(chk, 20)
        reuse_cases(chk, 12, 3000)
        sweep_fit_system(chk, 5, 300)
        sweep_hist_data(chk, 3)
    minimise(chk)
    lc = common.leanchecker("C06") if chk.tier == "thorough" else None
    if lc is not None:   # the other property modules (Props/C06File, C06Kernel, C06Tool) are re-checked as well
        for extra_mod in ("C06File", "C06Kernel", "C06Tool", "C06Hist"):
            lc2 = common.leanchecker(extra_mod)
            lc = (lc[0] and lc2[0], lc[1] + lc2[1])
    chk.assumptions += [
        "PARTIAL claim: the numeric kernels (triqler's spline + its monotonisation, scipy gaussian_kde on the "
        "linspace grid, np.histogram bin midpoints, scipy.optimize.nnls, estimate_pi0_by_slope/np.polyfit) are "
        "abstract parameters of the model (since the third pass: of the histogram only np.histogram_bin_edges); the theorems assume: NNLS solution d >= 0, evaluation grid ascending, "
        "qvality returns one value in [0,1] per PSM in descending-score order, non-decreasing, equal on equal "
        "scores, pi0 >= 0, kernels depend on the multiset of (score,label) only. These hypotheses are asserted on "
        "every real call (input_distribution['kernel_hypotheses:*'], kernel_hypothesis_violations)",
        "float64 arithmetic of cumsum / division / slope*(x-x0)+y0 is compared with the exact rational model "
        f"within {TOL} (relative+absolute); monotonicity of the real output is checked up to {MONO_TOL}; equal "
        "scores must give bit-identical values",
        "np.argsort / np.interp / np.clip / np.maximum.accumulate / np.cumsum behave as modelled (np.interp: "
        "last knot index j with xp[j] <= x, fp[j] when xp[j] == x); the tie order of np.argsort(-scores) is "
        "taken from numpy on the same array and handed to the model as its parameter",
        "from_counts: f(perm x) = perm f(x) is checked only on inputs without a target/decoy score tie (with "
        "such a tie the value of the tie group depends on the argsort tie order: "
        "C06_from_counts_tie_order_dependent_witness); if the top-ranked row is a decoy every q-value is +inf "
        "(tallied as rejected 'from_counts-top-decoy-inf')",
        "entry points: the model of qvalues_from_peps' default pipeline derives the hist_nnls PEPs from the recorded "
        "(bin midpoints, NNLS solution) itself (op frompepshist; the older op frompeps is fed the PEPs the code "
        "computed); the model of qvalues_from_counts computes pi0 * #T/#D from the labels (op fromcountspi0); "
        "qvality_bin (external `qvality` binary, not installed) is covered by the dispatch test and by the theorem "
        "only, its numeric kernel is never run",
        "result files: per level, the rows of the level file (read when the writer is entered), the arrays handed to "
        "the PEP estimator and its return value are recorded by pass-through wrappers on mokapot.confidence."
        "peps_from_scores and Confidence.write_to_disk; alignment is checked by PSMId with exact float equality "
        "(text files parsed with float_precision='round_trip'); the level loop is reached with desc=True only "
        "(assign_confidence negates lower-is-better scores itself), the desc=False branch of the model is covered "
        "by the theorem and the mutant only; the SQLite writer is driven by `sqlite_cases` (database rows compared with the text result files of the same analysis, stub estimator); the protein level and the extra roll-up levels are driven by the stub runs of result_files_ext",
        "second pass: estimate_pi0_by_slope is modelled up to np.polyfit (the product threshold * max and the slope are "
        "recomputed by the harness with the same numpy primitives on the recorded arrays and handed to the model as its "
        "parameters; the returned value is compared exactly); the NNLS input of kde_nnls is compared within the float "
        "tolerance (plus 8 * 2^-1074 / target_pdf on grid points with subnormal densities, tallied as float-boundary "
        "cases), NaN (0/0 on a vanishing target density: the code before 835a908) as `nan`; gaussian_kde, np.polyfit and scipy "
        "nnls stay abstract",
        "third pass: np.histogram with explicit edges, the bin midpoints, density=True, n / k of estimate_trials_and_successes "
        "(restrict=False) and the matrix / right-hand side / weights of fit_nnls and monotonize_nnls are modelled "
        "(Model/PepsHist.lean); the joint edges np.histogram_bin_edges(scores, 'auto') are recomputed by the harness wrapper "
        "with numpy on the array the code handed to hist_data_from_scores and given to the model as its parameter (a change of "
        "the binning in the code shows as a correspondence break of `histdata`); counts are compared exactly, the recorded "
        "W@A, W@k with sqrt(w2)*rows, sqrt(w2)*rhs of the model within the float tolerance; qvalues_from_counts: exact "
        "rational densities may take another branch of estimate_pi0_by_slope than the float densities when equal counts sit "
        "in bins whose float widths differ in the last bit — recognised (exact_flank) and tallied as a float-boundary case; "
        "statelessness of the estimators (second calls on re-used objects) is covered by differential execution only",
        "roll-up tool: per level, the arrays handed to mokapot.brew_rollup.peps_from_scores and returned by it and by "
        "mokapot.qvalues.qvalues_from_scores are recorded by pass-through wrappers; the level's rows are identified by "
        "their position (targets file = rows with the target label, in level order); the order of the levels is that of "
        "brew_rollup.compute_rollup_levels (checked by C03)",
    ]
    chk.finish(build, RULE, search=search, lc=lc,
               trusted_extra=["triqler.qvality, scipy.stats.gaussian_kde, scipy.optimize.nnls, np.histogram_bin_edges, "
                              "np.polyfit (abstract kernels, hypotheses validated per call)",
                              "numpy argsort/interp/clip/cumsum/maximum.accumulate"])


def replay(chk, path):
    info = json.loads(open(path).read())
    c = info.get("case")
    if not c or "scores" not in c:
        print(json.dumps(info, indent=1)[:3000])
        return 0
    common.build_and_audit("C06")
    case = from_json(c)
    if info.get("reuse"):   # a re-use case: run the sequence of calls again
        ru = info["reuse"]
        sA = np.array([float.fromhex(x) for x in ru["first_scores"]], dtype=float)
        tA = np.array(ru["first_labels"], dtype=bool)
        sB, tB = np.array(case["scores"], dtype=float), np.array(case["labels"], dtype=bool)
        bad = reuse_sequence(c["alg"], ru["via"], sA, tA, sB, tB)
        if bad is not None:
            report_reuse(chk, c["alg"], ru["via"], case, sA, tA, sB, tB, bad)
        for sig, i in chk.spec_violations:
            print("REPRODUCED", sig, json.dumps(i, default=str)[:1500])
        return 1 if chk.spec_violations else 0
    pending = []
    stub = None
    if case.get("arr") == "exhaustive":
        print("small-scope case: re-run the sweep with ./check C06 --tier thorough")
    eval_one(chk, case, c["alg"], c.get("perm"), pending, stub=stub)
    flush(chk, pending)
    for sig, i in chk.spec_violations:
        print("REPRODUCED", sig, json.dumps(i, default=str)[:1500])
    return 1 if chk.spec_violations else 0
