"""C13 — chunked table reading equals whole reading; writers lose and reorder nothing.

Correspondence harness: the real readers / writers of mokapot.tabular_data and
mokapot.streaming (through TabularDataReader.from_path, the reader classes,
TabularDataWriter.from_suffix + get_associated_reader) against the Lean model
(driver ops tab-read / tab-chunked / tab-wr-csv / tab-wr-pq) and against the specification
(restated here in Python on the generated table, and evaluated independently by
the Lean op tab-spec-select).
"""
from __future__ import annotations

import itertools
import json
import math
import os
import shutil
import tempfile
import warnings
from pathlib import Path

import numpy as np
import pandas as pd
import pyarrow as pa
import pyarrow.parquet as pq

import common
from common import Atom, a_str, dec, req

RULE = (
    "reader case = (reader tree over generated tables: delimited text / Parquet with a row-group size / in-memory "
    "frame, optionally renamed, joined column-wise, with a computed column; chunk size; column selection or None); "
    "writer case = (suffix, columns, buffer size, buffer kind, sequence of appends, stale file content); "
    "distinct = distinct (tree shape, row count, chunk size, selection pattern) resp. (suffix, buffer size, kind, "
    "append-length sequence); non-trivial = at least two chunks resp. at least two appends or one emitted batch "
    "boundary inside an append; thorough adds the exhaustive sweep n<=5 x chunk sizes 1..n+1 x all base readers x "
    "row-group sizes x all selections of <=2 of 2 columns, and all compositions of n<=5 rows into appends x buffer "
    "sizes 0..n+1 x buffer kinds x both suffixes; "
    "write-once case = (suffix, columns, buffer size, frame, stale file content, separator, index labels of the frame) "
    "through from_suffix(...).write(frame); auto case = (1-3 writers from from_suffix with their own suffix / buffer "
    "size / separator / stale file, one buffer kind, a program of appends each going to one or several writers (the "
    "same object), optionally overwritten by the caller afterwards, run under auto_finalize / an ExitStack of `with "
    "writer` / explicit initialize-finalize); non-trivial = at least two writers received rows; text readers and "
    "writers take a separator from {tab, comma, semicolon, bar}; in-memory readers also through "
    "DataFrameReader.from_series / from_array; get_column_names() is compared for every reader; "
    "second pass: reader trees up to depth 3 (rename over rename, computed over computed / over a renamed reader, join "
    "in join, computed below a join or a rename), rename maps that permute old names, Parquet files written by pandas "
    "with a stored index (12% of the single-base Parquet fixtures; judged by the specification under either consistent "
    "view of such a file), 20% of the reader objects used again (second read, two more iterators consumed "
    "alternately), tables of 150-5000 rows; cells include NaN, +-inf and the int64 / 2^53 boundaries; writer options "
    "left to their defaults, column_types for text writers, buffered appends with permuted columns / dict keys (spec "
    "only); calls case = (1-3 writer objects from from_suffix for ONE file, a program of episodes: initialize() by one "
    "object followed by segments append_data...;finalize() by any objects | write(frame); checked after every "
    "episode; 15% free text programs judged against the model only); out-of-domain requests (chunk size 0, unknown "
    "column) are compared with the model's rejections; "
    "third pass: shared case = (1-2 in-memory frames the caller keeps, 1-3 reader objects over them: plain / renamed "
    "(half of the maps permute old names) / computed column / joined with the other frame or a file / nested, a "
    "program of 3-7 calls get_column_names | read | chunk iterator on these objects, columns=None in 45% of the "
    "requests): every call is judged against the table the reader denotes over the frames as handed in, the caller's "
    "frames are compared with pristine copies and the files byte for byte afterwards, and observations, object "
    "identity of read()'s result and final frames are compared with the model (op tab-uses); non-trivial = a whole "
    "read followed by at least one more call; columns=None is generated for computed-column readers too (a refusal "
    "is the spec violation computed-reader-columns-none — found in this pass, repaired in /repo c6f4cd0; the model "
    "computedp of the repaired class is wired when the code under test accepts None, computed otherwise); text files read with text_columns= (45% of the text fixtures with a string column) "
    "hold numeric-looking spellings (007, 1.50, 1e5, True, inf) in those columns"
)

# values that survive pandas' CSV type inference unchanged (everything else is excluded and listed in the evidence)
CSV_SAFE_STR = [
    "x", "y z", "PEPTIDE", "K.ACDEFGHIK.L", "q\"r", "t,u", "w\tv", " lead", "trail ", "ÄÖü", "a'b", "semi;colon",
    "-", "_", "n/a-ish", "1a", "e5x", "#hash", "a=b", "[br]", "pi|pe",
]
CSV_EXCLUDED = [
    "", "NA", "N/A", "NaN", "nan", "null", "NULL", "None", "n/a", "#N/A", "<NA>", "-nan", "1", "1.5", "1e5", "inf",
    "True", "False", "true", "FALSE", "line\nbreak", "cr\rx",
]
# third pass: cells of columns read with `text_columns=` (CSVFileReader / from_path, tabular_data.py:196-208): the
# column is parsed as text, so numeric-looking spellings must come back as they are, from every chunk
TEXT_COL_STR = CSV_SAFE_STR + ["1", "007", "1.50", "1e5", "-0", "True", "false", "inf", "0x1F", "1_000", "+3", " 7"]
WIDE_STR = CSV_SAFE_STR + ["", "NA", "nan", "None", "1", "1.5", "True", "line\nbreak"]
NAME_POOL = ["a", "b", "score", "Spec Id", "x y", "É", "c1", "target", "peptide", "q-value", "d", "e_f",
             # second pass: names that look like a number / contain a separator character
             "1", "a,b", "pi|pe;x"]
SEPS = ["\t", "\t", ",", ";", "|"]
BASES = ("csv", "pq", "frame", "series", "array")
FLOATS = [0.0, -0.0, 0.5, -1.25, 2.0, 0.1, 1e22, 1e-5, 3.141592653589793, -7.0, 1234.5, 5e-324, 1.7976931348623157e308]
# second pass: cells at the edge of the numeric types (canonical atoms keep them apart: "?nan", "finf", "f-inf")
EDGE_FLOATS = [float("nan"), float("inf"), float("-inf"), 2.0 ** 53 + 2.0, -2.0 ** 63]
EDGE_INTS = [2 ** 63 - 1, -2 ** 63, 2 ** 53 + 1, -(2 ** 53) - 1]
BIG = 2 ** 60


# ----------------------------------------------------------------------------------------------------------
# cells
# ----------------------------------------------------------------------------------------------------------
def cell_atom(v) -> str:
    """canonical wire atom of a cell value, keeping its type class"""
    if isinstance(v, (bool, np.bool_)):
        return "T" if bool(v) else "F"
    if isinstance(v, (int, np.integer)):
        return "i" + str(int(v))
    if isinstance(v, (float, np.floating)):
        f = float(v)
        if f != f:
            return "?nan"
        return "f" + f.hex()
    if isinstance(v, str):
        return "s" + v.encode("utf-8").hex()
    return "?" + type(v).__name__


def gen_value(rng, typ, csv_safe):
    if typ == "int":
        if rng.random() < 0.04:
            return rng.choice(EDGE_INTS)
        return rng.choice([0, 1, -1, 7, 42, -300, 2**40 + 3, rng.randint(-10**6, 10**6)])
    if typ == "float":
        if rng.random() < 0.06:
            return rng.choice(EDGE_FLOATS)
        return rng.choice(FLOATS) if rng.random() < 0.7 else rng.randint(-8000, 8000) / rng.choice([1, 2, 4, 8, 16])
    if typ == "bool":
        return rng.random() < 0.5
    return rng.choice(CSV_SAFE_STR if csv_safe else WIDE_STR)


def make_series(vals, typ, str_object=False):
    if typ == "int":
        return pd.Series(vals, dtype="int64")
    if typ == "float":
        return pd.Series(vals, dtype="float64")
    if typ == "bool":
        return pd.Series(vals, dtype="bool")
    return pd.Series(vals, dtype="object") if str_object else pd.Series(vals, dtype="str")


def make_df(names, types, rows, index=None, str_object=False):
    cols = {}
    for k, (n, t) in enumerate(zip(names, types)):
        cols[n] = make_series([r[k] for r in rows], t, str_object)
    df = pd.DataFrame(cols, columns=list(names))
    if len(names) == 0:
        df = pd.DataFrame(index=range(len(rows)))
    if index is not None:
        df.index = pd.Index(list(index), dtype="int64")
    return df


PA_TYPES = {"int": pa.int64(), "float": pa.float64(), "bool": pa.bool_(), "str": pa.string()}
NP_TYPES = {"int": np.dtype("int64"), "float": np.dtype("float64"), "bool": np.dtype("bool"), "str": np.dtype("O")}


def canon_df(df):
    """(names, [(index label, [(name, atom) ...]) ...]) of a pandas frame"""
    names = [str(c) for c in df.columns]
    cols = [df.iloc[:, k].tolist() for k in range(df.shape[1])]
    idx = [int(i) for i in df.index]
    rows = []
    for i in range(len(df)):
        rows.append((idx[i], [(names[k], cell_atom(cols[k][i])) for k in range(len(names))]))
    return (names, rows)


def parse_model_df(v):
    """driver rendering [[names] [[idx [[name cell]...]]...]] -> same shape as canon_df"""
    names = [a_str(t) for t in v[0]]
    rows = []
    for r in v[1]:
        rows.append((int(r[0]), [(a_str(p[0]), p[1]) for p in r[1]]))
    return (names, rows)


# ----------------------------------------------------------------------------------------------------------
# reader trees
# ----------------------------------------------------------------------------------------------------------
class Work:
    """scratch directory on tmpfs"""

    def __init__(self):
        base = "/dev/shm" if os.path.isdir("/dev/shm") else None
        self.dir = Path(tempfile.mkdtemp(prefix="c13-", dir=base))
        self.n = 0

    def path(self, suffix):
        self.n += 1
        return self.dir / f"f{self.n}{suffix}"

    def close(self):
        shutil.rmtree(self.dir, ignore_errors=True)


def gen_base(rng, kind, names, n, index=None, allow_pidx=False):
    csv = kind == "csv"
    if kind == "frame" and len(names) == 1 and rng.random() < 0.35:
        # one-column in-memory readers built by DataFrameReader.from_series / from_array
        kind = "series" if index is not None else rng.choice(["series", "array"])
    types = [rng.choice(["int", "float", "str", "bool"]) for _ in names]
    rows = [[gen_value(rng, t, csv) for t in types] for _ in range(n)]
    node = {"t": kind, "names": list(names), "types": types, "rows": rows}
    if kind == "series":
        node["index"] = list(index) if index is not None else list(range(n))
        node["obj"] = rng.random() < 0.5
        if rng.random() < 0.5:
            node["sname"], node["name"] = names[0], None      # from_series(series): the series' own name
        else:
            node["sname"], node["name"] = "series-name", names[0]  # from_series(series, name=...)
    if kind == "array":
        node["ndarray"] = rng.random() < 0.5
    if kind == "pq":
        node["rg"] = rng.choice([1, 2, 3, 5, max(1, n), 1000])
        if allow_pidx and rng.random() < 0.12:
            # second pass: a Parquet file as pandas writes it for a frame with a non-default index
            # (`df.to_parquet(path)`): the labels are stored in the file (column `__index_level_0__` resp.
            # RangeIndex metadata) and pyarrow restores them in `to_pandas()`
            if rng.random() < 0.5:
                node["pidx"], node["index"] = "stored", rng.sample(range(0, 60 if n <= 12 else 4 * n), n)
            else:
                start = rng.choice([1, 5, 40])
                node["pidx"], node["index"] = "range", list(range(start, start + n))
    if kind == "frame":
        node["index"] = list(index) if index is not None else list(range(n))
        node["obj"] = rng.random() < 0.5
    if kind == "csv":
        node["suffix"] = rng.choice([".csv", ".pin", ".tab", ".psms", ".peptides", ".weird"])
        node["sep"] = rng.choice(SEPS)
        strs = [k for k, t in enumerate(types) if t == "str"]
        if strs and rng.random() < 0.45:
            # third pass: identifier columns declared as text (`text_columns=`): numeric-looking spellings
            tc = rng.sample(strs, rng.randint(1, len(strs)))
            node["text_cols"] = [names[k] for k in tc]
            for r in rows:
                for k in tc:
                    r[k] = rng.choice(TEXT_COL_STR)
            if rng.random() < 0.2:
                node["text_cols"].append("not-a-column")
    return node


def table_of(node):
    """the table a reader tree denotes: (names, index labels, rows of atoms)"""
    t = node["t"]
    if t in BASES:
        n = len(node["rows"])
        idx = list(node["index"]) if t in ("frame", "series") or node.get("pidx") else list(range(n))
        return list(node["names"]), idx, [[cell_atom(v) for v in r] for r in node["rows"]]
    if t == "mapped":
        names, idx, rows = table_of(node["sub"])
        return [node["map"].get(x, x) for x in names], idx, rows
    if t == "joined":
        parts = [table_of(s) for s in node["subs"]]
        names = sum([p[0] for p in parts], [])
        idx = parts[0][1]
        rows = [sum([p[2][i] for p in parts], []) for i in range(len(idx))]
        return names, idx, rows
    if t == "computed":
        names, idx, rows = table_of(node["sub"])
        fn = node["fn"]
        out = []
        for i, r in zip(idx, rows):
            if fn[0] == "const":
                v = cell_atom(fn[1])
            elif fn[0] == "affine":
                v = "i" + str(fn[1] * i + fn[2])
            else:
                v = "i" + str(int(r[names.index(fn[1])][1:]) + fn[2] * i)
            out.append(r + [v])
        return names + [node["col"]], idx, out
    raise AssertionError(t)


_NONE_OK = None


def computed_none_ok():
    """does ComputedTabularDataReader accept columns=None?  (third pass: it raised until /repo c6f4cd0 — finding
    `computed-reader-columns-none`, FINDING-C13.md; the Lean model has both the class as it is, `computedReaderP`, and
    as it was, `computedReader`; the harness wires the one the code under test behaves like, judged once per run, and
    a refusal of columns=None is a spec violation in either case)"""
    global _NONE_OK
    if _NONE_OK is None:
        from mokapot.streaming import ComputedTabularDataReader
        from mokapot.tabular_data import DataFrameReader
        try:
            with warnings.catch_warnings():
                warnings.simplefilter("ignore")
                ComputedTabularDataReader(DataFrameReader(pd.DataFrame({"a": [1, 2]})), "k", np.dtype("int64"),
                                          lambda df: np.zeros(len(df), dtype="int64")).read()
            _NONE_OK = True
        except Exception:
            _NONE_OK = False
    return _NONE_OK


def build_reader(node, work, shared=None):
    """the real mokapot reader for a tree (`shared`: the caller's frames, by position, for leaves with a `src`)"""
    from mokapot.streaming import ComputedTabularDataReader, JoinedTabularDataReader
    from mokapot.tabular_data import ColumnMappedReader, DataFrameReader, TabularDataReader

    t = node["t"]
    if t == "csv":
        p = work.path(node["suffix"])
        sep = node.get("sep", "\t")
        make_df(node["names"], node["types"], node["rows"]).to_csv(p, sep=sep, index=False)
        kw = {"text_columns": list(node["text_cols"])} if node.get("text_cols") else {}
        return TabularDataReader.from_path(p, **kw) if sep == "\t" else TabularDataReader.from_path(p, sep=sep, **kw)
    if t == "pq":
        p = work.path(".parquet")
        if node.get("pidx"):
            df = make_df(node["names"], node["types"], node["rows"])
            if node["pidx"] == "range":
                start = node["index"][0] if node["index"] else 5
                df.index = pd.RangeIndex(start, start + len(df))
            else:
                df.index = pd.Index(list(node["index"]), dtype="int64")
            df.to_parquet(p, row_group_size=node["rg"])
            return TabularDataReader.from_path(p)
        schema = pa.schema([(n, PA_TYPES[ty]) for n, ty in zip(node["names"], node["types"])])
        tab = pa.Table.from_pandas(make_df(node["names"], node["types"], node["rows"]), preserve_index=False,
                                   schema=schema)
        pq.write_table(tab, p, row_group_size=node["rg"])
        return TabularDataReader.from_path(p)
    if t == "frame":
        if shared is not None and "src" in node:
            return DataFrameReader(shared[node["src"]])
        return DataFrameReader(make_df(node["names"], node["types"], node["rows"], node["index"], node["obj"]))
    if t == "series":
        ser = make_series([r[0] for r in node["rows"]], node["types"][0], node["obj"])
        ser.index = pd.Index(list(node["index"]), dtype="int64")
        ser.name = node["sname"]
        if node["name"] is None:
            return DataFrameReader.from_series(ser)
        return DataFrameReader.from_series(ser, name=node["name"])
    if t == "array":
        vals = [r[0] for r in node["rows"]]
        if node["ndarray"]:
            dt = {"int": "int64", "float": "float64", "bool": "bool", "str": object}[node["types"][0]]
            return DataFrameReader.from_array(np.array(vals, dtype=dt), node["names"][0])
        return DataFrameReader.from_array(list(vals), node["names"][0])
    if t == "mapped":
        sub = node["sub"]
        if sub["t"] in ("csv", "pq") and node.get("via_from_path", True):
            # exercise TabularDataReader.from_path(..., column_map=...)
            inner = build_reader(sub, work, shared)
            kw = {"sep": sub["sep"]} if sub.get("sep", "\t") != "\t" else {}
            if sub.get("text_cols"):
                kw["text_columns"] = list(sub["text_cols"])
            return TabularDataReader.from_path(inner.file_name, column_map=dict(node["map"]), **kw)
        return ColumnMappedReader(build_reader(sub, work, shared), dict(node["map"]))
    if t == "joined":
        return JoinedTabularDataReader([build_reader(s, work, shared) for s in node["subs"]])
    if t == "computed":
        fn = node["fn"]
        if fn[0] == "const":
            v = fn[1]
            f = lambda df: np.full(len(df), v, dtype=object if isinstance(v, str) else None)  # noqa: E731
        elif fn[0] == "affine":
            a, b = fn[1], fn[2]
            f = lambda df: a * np.asarray(df.index, dtype="int64") + b  # noqa: E731
        else:
            name, a = fn[1], fn[2]
            f = lambda df: df[name].to_numpy() + a * np.asarray(df.index, dtype="int64")  # noqa: E731
        return ComputedTabularDataReader(build_reader(node["sub"], work, shared), node["col"], np.dtype("int64"), f)
    raise AssertionError(t)


def wire_tree(node, shared=False):
    t = node["t"]
    if shared and t == "frame" and "src" in node:
        return [Atom("src"), node["src"]]
    if t == "csv":
        return [Atom("csv"), node["names"], [[Atom(cell_atom(v)) for v in r] for r in node["rows"]]]
    if t == "pq":
        rg, rows = node["rg"], node["rows"]
        groups = [rows[i:i + rg] for i in range(0, len(rows), rg)]
        return [Atom("pq"), node["names"], [[[Atom(cell_atom(v)) for v in r] for r in g] for g in groups]]
    if t == "frame":
        return [Atom("frame"), node["names"], list(node["index"]),
                [[Atom(cell_atom(v)) for v in r] for r in node["rows"]]]
    if t == "series":
        return [Atom("series"), node["sname"], Atom("none") if node["name"] is None else node["name"],
                list(node["index"]), [Atom(cell_atom(r[0])) for r in node["rows"]]]
    if t == "array":
        return [Atom("array"), node["names"][0], [Atom(cell_atom(r[0])) for r in node["rows"]]]
    if t == "mapped":
        return [Atom("mapped"), wire_tree(node["sub"], shared), [[k, v] for k, v in node["map"].items()]]
    if t == "joined":
        return [Atom("joined"), [wire_tree(s, shared) for s in node["subs"]]]
    if t == "computed":
        fn = node["fn"]
        if fn[0] == "const":
            f = [Atom("const"), Atom(cell_atom(fn[1]))]
        elif fn[0] == "affine":
            f = [Atom("affine"), fn[1], fn[2]]
        else:
            f = [Atom("addcol"), fn[1], fn[2]]
        return [Atom("computedp" if computed_none_ok() else "computed"), wire_tree(node["sub"], shared), node["col"], f]
    raise AssertionError(t)


def shape_of(node):
    t = node["t"]
    if t in BASES:
        return t
    if t == "mapped":
        return f"mapped({shape_of(node['sub'])})"
    if t == "computed":
        return f"computed({shape_of(node['sub'])})"
    return "joined(" + ",".join(shape_of(s) for s in node["subs"]) + ")"


def n_rows(node):
    t = node["t"]
    if t in BASES:
        return len(node["rows"])
    if t == "joined":
        return n_rows(node["subs"][0])
    return n_rows(node["sub"])


def keep_rows(node, keep):
    """the same tree over the sub-table of the rows at positions `keep` (for shrinking)"""
    t = node["t"]
    d = dict(node)
    if t in BASES:
        d["rows"] = [node["rows"][i] for i in keep]
        if t in ("frame", "series") or node.get("pidx") == "stored":
            d["index"] = [node["index"][i] for i in keep]
        elif node.get("pidx") == "range":
            start = node["index"][0] if node["index"] else 5
            d["index"] = list(range(start, start + len(keep)))
    elif t == "joined":
        d["subs"] = [keep_rows(s, keep) for s in node["subs"]]
    else:
        d["sub"] = keep_rows(node["sub"], keep)
    return d


def accepts_none(node):
    """does the reader tree accept `columns=None`?  (a computed-column reader anywhere below a join / rename that
    hands `None` on does not: `_reader_columns(None)` raises)"""
    t = node["t"]
    if t in BASES:
        return True
    if t == "computed":
        return False
    if t == "joined":
        return all(accepts_none(s_) for s_ in node["subs"])
    return accepts_none(node["sub"])


def has_stored_index(node):
    t = node["t"]
    if t in BASES:
        return bool(node.get("pidx"))
    if t == "joined":
        return any(has_stored_index(s_) for s_ in node["subs"])
    return has_stored_index(node["sub"])


SHAPES = 2 * ["base", "base", "mapped", "joined", "joined", "computed", "computed-joined", "mapped-joined",
              "joined-mapped"] + [
    # second pass: deeper compositions (the theorems are compositional, the generator was not)
    "mapped-mapped", "computed-computed", "joined-nested", "joined-computed", "mapped-computed",
    # the pipeline's composition (brew_rollup.py:296-315): a computed column over a renamed file reader
    "computed-mapped", "computed-mapped"]


def gen_tree(rng, nmax, allow_pidx=True, force_n=None):
    n = rng.choice([0, 0, 1, 1, 2, 3, 4, 5, 6, 7, 8, 10, 12])
    n = min(n, nmax)
    if force_n is not None:
        n = force_n
    ncols = rng.choice([1, 2, 2, 3, 3, 4, 5])
    names = rng.sample(NAME_POOL, ncols)
    shape = rng.choice(SHAPES)
    kinds = ["csv", "pq", "frame"]
    custom_index = None

    def base(kind, nm, index=None, pidx=False):
        return gen_base(rng, kind, nm, n, index, allow_pidx=pidx and allow_pidx)

    pool = [x for x in NAME_POOL + ["Z1", "Z2", "Z3", "Z4", "Z5"] if x not in names]

    def rename_map(nm):
        m = {}
        if len(nm) >= 2 and rng.random() < 0.2:
            # second pass: new names taken from the old ones (a swap / rotation of columns): injective on the
            # columns, but every new name is also an old name
            k = rng.randint(2, len(nm))
            sub = rng.sample(list(nm), k)
            for x, y in zip(sub, sub[1:] + sub[:1]):
                m[x] = y
            return m
        for x in nm:
            if rng.random() < 0.6 and pool:
                m[x] = pool.pop(rng.randrange(len(pool)))
        if rng.random() < 0.3:
            m["not-a-column"] = "whatever"
        return m

    def split(nm):
        k = rng.randint(1, min(3, len(nm)))
        cuts = sorted(rng.sample(range(1, len(nm)), k - 1)) if k > 1 else []
        parts, prev = [], 0
        for c in cuts + [len(nm)]:
            parts.append(nm[prev:c])
            prev = c
        return parts

    def computed_over(tree, col):
        tnames = table_of(tree)[0]
        int_cols = []
        if tree["t"] in BASES:
            int_cols = [x for k_, (x, ty) in enumerate(zip(tree["names"], tree["types"])) if ty == "int"
                        and all(abs(r[k_]) < BIG for r in tree["rows"])]
        r = rng.random()
        if shape != "computed":
            int_cols = []
        if r < 0.35:
            fn = ["const", rng.choice([True, False, 7, "lbl"])]
        elif r < 0.75 or not int_cols:
            fn = ["affine", rng.choice([1, 10, -3]), rng.choice([0, 5])]
        else:
            fn = ["addcol", rng.choice(int_cols), rng.choice([1, 100])]
        assert col not in tnames
        return {"t": "computed", "sub": tree, "col": col, "fn": fn}

    # (a function of a cell needs its column in every selection: only generated for a top-level computed reader,
    # where gen_cols adds the column)

    if shape == "base":
        kind = rng.choice(kinds)
        if kind == "frame" and rng.random() < 0.4:
            custom_index = rng.sample(range(0, 50 if n <= 12 else 4 * n), n)
        tree = base(kind, names, custom_index, pidx=True)
    elif shape in ("mapped", "mapped-mapped", "computed-mapped"):
        tree = {"t": "mapped", "sub": base(rng.choice(kinds), names, pidx=shape != "computed-mapped"),
                "map": rename_map(names),
                "via_from_path": rng.random() < 0.7}
        if shape == "mapped-mapped":
            tree = {"t": "mapped", "sub": tree, "map": rename_map(table_of(tree)[0])}
    elif shape in ("joined", "computed-joined", "mapped-joined", "joined-mapped", "joined-nested", "joined-computed"):
        all_frames = rng.random() < 0.2
        if all_frames and rng.random() < 0.5:
            custom_index = rng.sample(range(0, 50 if n <= 12 else 4 * n), n)
        subs = []
        for part in split(names):
            kind = "frame" if all_frames else rng.choice(kinds)
            b = base(kind, part, custom_index if kind == "frame" else None)
            if shape == "joined-mapped" and rng.random() < 0.6:
                b = {"t": "mapped", "sub": b, "map": rename_map(part), "via_from_path": rng.random() < 0.7}
            subs.append(b)
        if shape == "joined-computed":
            # a computed-column reader as a sub-reader of the join (refuses columns=None)
            j = rng.randrange(len(subs))
            if custom_index is None or subs[j]["t"] == "frame":
                subs[j] = computed_over(subs[j], rng.choice(["k", "is_decoy", "new col"]))
        if shape == "joined-nested" and len(subs) >= 2:
            # a join inside a join
            subs = [{"t": "joined", "subs": subs[:-1]}, subs[-1]] if rng.random() < 0.5 else \
                [subs[0], {"t": "joined", "subs": subs[1:]}]
        tree = {"t": "joined", "subs": subs}
        if shape == "mapped-joined":
            tree = {"t": "mapped", "sub": tree, "map": rename_map(table_of(tree)[0])}
    else:
        tree = base(rng.choice(kinds), names)
    if shape in ("computed", "computed-joined", "computed-computed", "mapped-computed", "computed-mapped"):
        tree = computed_over(tree, rng.choice(["k", "is_decoy", "new col"]))
        if shape == "computed-computed":
            tree = computed_over(tree, "k2")
        if shape == "mapped-computed":
            tree = {"t": "mapped", "sub": tree, "map": rename_map(table_of(tree)[0])}
    return tree


def gen_cols(rng, tree):
    names = table_of(tree)[0]
    r = rng.random()
    if r < 0.25:
        # (third pass: also for a top-level computed-column reader — `columns=None` means all columns)
        if accepts_none(tree) or computed_none_ok() or rng.random() < 0.15:
            return None
        r = 0.25 + 0.75 * rng.random()
    if r < 0.32:
        cols = []
    elif r < 0.5:
        cols = list(names)
        rng.shuffle(cols)
    else:
        k = rng.randint(1, len(names))
        cols = rng.sample(names, k)
    if tree["t"] == "computed":
        fn = tree["fn"]
        if fn[0] == "addcol" and fn[1] not in cols:
            cols.insert(rng.randrange(len(cols) + 1), fn[1])
        if rng.random() < 0.15:
            cols = [tree["col"]]
            if fn[0] == "addcol":
                cols.append(fn[1])
    return cols


def _set_rg(node, rng, n):
    """larger tables: row groups that are not tiny"""
    t = node["t"]
    if t == "pq":
        node["rg"] = rng.choice([7, 64, 100, max(1, n // 3), n + 1])
    elif t == "joined":
        for s_ in node["subs"]:
            _set_rg(s_, rng, n)
    elif t not in BASES:
        _set_rg(node["sub"], rng, n)


def gen_reader_case(rng, nmax=12, force_n=None):
    tree = gen_tree(rng, nmax, force_n=force_n)
    n = n_rows(tree)
    c = rng.choice([1, 1, 2, 2, 3, 4, 5, 7, max(1, n - 1), max(1, n), n + 1, n + 5])
    if force_n is not None:
        # second pass: tables well beyond a dozen rows (chunk / row-group / batch boundaries that never coincide)
        _set_rg(tree, rng, n)
        c = rng.choice([7, 50, 64, 100, max(1, n // 2), max(1, n - 1)])
    case = {"kind": "reader", "tree": tree, "c": c, "cols": gen_cols(rng, tree)}
    if rng.random() < 0.2:
        # second pass: the reader object is used again — a second read() and two more chunk iterators (another chunk
        # size), consumed alternately
        case["again"] = rng.choice([1, 2, 3, max(1, n), n + 1])
    return case


def expected_select(tree, cols):
    names, idx, rows = table_of(tree)
    if cols is None:
        # third pass: `columns=None` asks for all columns of ANY reader — also of a computed-column reader (the
        # unchanged code raises there: finding `computed-reader-columns-none`)
        return (names, [(i, list(zip(names, r))) for i, r in zip(idx, rows)])
    pos = [names.index(c) for c in cols]
    return (list(cols), [(i, [(names[p], r[p]) for p in pos]) for i, r in zip(idx, rows)])


def run_impl_reader(case, work):
    """-> ('ok', read canon, [chunk canon...], column names) | ('raise', where, repr)"""
    with warnings.catch_warnings():
        warnings.simplefilter("ignore")
        try:
            reader = build_reader(case["tree"], work)
        except Exception as e:  # building the fixture itself must not fail
            raise RuntimeError(f"fixture construction failed: {e!r}")
        try:
            colnames = [str(x) for x in reader.get_column_names()]
        except Exception as e:
            return ("raise", "get_column_names", f"{type(e).__name__}: {e}"[:300])
        try:
            whole = canon_df(reader.read(case["cols"]))
        except Exception as e:
            return ("raise", "read", f"{type(e).__name__}: {e}"[:300])
        try:
            chunks = [canon_df(ch) for ch in reader.get_chunked_data_iterator(case["c"], case["cols"])]
        except Exception as e:
            return ("raise", "chunked", f"{type(e).__name__}: {e}"[:300])
        again = None
        if case.get("again"):
            try:
                its = [reader.get_chunked_data_iterator(case["again"], case["cols"]),
                       reader.get_chunked_data_iterator(case["c"], case["cols"])]
                outs, live = [[], []], [True, True]
                while any(live):
                    for k in (0, 1):
                        if live[k]:
                            try:
                                outs[k].append(canon_df(next(its[k])))
                            except StopIteration:
                                live[k] = False
                again = (canon_df(reader.read(case["cols"])), outs[0], outs[1],
                         [str(x) for x in reader.get_column_names()])
            except Exception as e:
                return ("raise", "second-use", f"{type(e).__name__}: {e}"[:300])
    return ("ok", whole, chunks, colnames, again)


NONE_SIG = "computed-reader-columns-none"
NONE_CLAUSE = ("`columns=None` (the default of read() / get_chunked_data_iterator(): all columns) is refused by "
               "ComputedTabularDataReader and by every reader that hands None on to one: "
               "`_reader_columns(None)` iterates over None (streaming.py:125-128) — the property promises the whole "
               "table, in chunks as in one piece, from ANY reader")


def reader_spec_verdict(case, impl):
    """the property, restated: None if it holds, else (signature, clause, expected)"""
    exp = expected_select(case["tree"], case["cols"])
    shape = shape_of(case["tree"])
    if impl[0] == "raise" and case["cols"] is None and not accepts_none(case["tree"]):
        return (NONE_SIG, NONE_CLAUSE + ": " + impl[2][:160], exp)
    if impl[0] == "raise":
        return (f"reader-exception:{impl[1]}:{shape}", "the reader raised on a well-formed request: " + impl[2], exp)
    _, whole, chunks, colnames = impl[:4]
    if has_stored_index(case["tree"]):
        return stored_index_verdict(case, impl, exp)
    if colnames != table_of(case["tree"])[0]:
        return (f"column-names:{shape}", "get_column_names() is not the list of the table's columns, in order", exp)
    if whole != exp:
        return (f"read-differs-from-table:{shape}",
                "read(columns) is not the table restricted to the requested columns in the requested order "
                "with its row index", exp)
    cat_rows = [r for ch in chunks for r in ch[1]]
    if cat_rows != whole[1]:
        what = "index" if [r[1] for r in cat_rows] == [r[1] for r in whole[1]] else "rows"
        return (f"chunks-differ-from-read:{what}:{shape}",
                "concatenating the chunks does not give what read() gives (rows lost / duplicated / reordered / "
                "changed, or the row index does not continue)", exp)
    for ch in chunks:
        if ch[0] != whole[0]:
            return (f"chunk-columns:{shape}", "a chunk does not carry the requested columns in the requested order", exp)
    if len(impl) > 4 and impl[4] is not None:
        whole2, chunks_a, chunks_b, colnames2 = impl[4]
        for what, chs in (("other-chunk-size", chunks_a), ("same-chunk-size", chunks_b)):
            if [r for ch in chs for r in ch[1]] != whole[1] or any(ch[0] != whole[0] for ch in chs):
                return (f"reader-reuse:chunks:{shape}",
                        f"a second / interleaved chunk iterator of the same reader object ({what}) does not deliver "
                        "the rows of read()", exp)
        if whole2 != whole or colnames2 != colnames:
            return (f"reader-reuse:read:{shape}", "a second read() of the same reader object differs from the first",
                    exp)
    return None


IDX_COL = "__index_level_0__"


def stored_index_verdict(case, impl, exp):
    """Parquet file with a stored pandas index.  Two consistent views of such a file are accepted: (A) the stored
    labels are the row index (or are ignored: labels 0..n-1) and the columns are the data columns; (B) the file is read
    without its pandas metadata: labels 0..n-1 and the physical column `__index_level_0__` is one more column holding
    the stored labels.  Within a view everything is as for any table: get_column_names() = the columns of read(None),
    requested columns in the requested order, chunks concatenate to read().  One signature for all failures."""
    _, whole, chunks, colnames = impl[:4]
    sig = "parquet-stored-index"
    pre = "Parquet file written by pandas with its index: "
    names = table_of(case["tree"])[0]
    n = len(exp[1])
    stored = [r[0] for r in exp[1]]
    extra = [IDX_COL] if colnames == names + [IDX_COL] else []
    if colnames != names + extra:
        return (sig, pre + f"get_column_names() is {colnames}, the table's columns are {names}", exp)
    labels = [r[0] for r in whole[1]]
    if case["cols"] is None:
        if whole[0] != colnames:
            return (sig, pre + f"get_column_names() announces {colnames}, read() returns the columns {whole[0]}", exp)
        if extra and [r[1][-1][1] for r in whole[1]] != ["i" + str(x) for x in stored]:
            return (sig, pre + f"the column {IDX_COL} does not hold the stored labels", exp)
        cells = [r[1][:len(names)] for r in whole[1]]
    else:
        if whole[0] != exp[0]:
            return (sig, pre + "read(columns) does not carry the requested columns in the requested order", exp)
        cells = [r[1] for r in whole[1]]
    if cells != [r[1] for r in exp[1]]:
        return (sig, pre + "read(columns) is not the table restricted to the requested columns", exp)
    if labels != list(range(n)) and (extra or labels != stored):
        return (sig, pre + f"the row labels of read() ({labels}) are neither the stored ones nor 0..n-1", exp)
    cat_rows = [r for ch in chunks for r in ch[1]]
    if cat_rows != whole[1]:
        return (sig, pre + "concatenating the chunks does not give what read() gives — chunk labels "
                     f"{[[r[0] for r in ch[1]] for ch in chunks]}, read() labels {labels}", exp)
    if any(ch[0] != whole[0] for ch in chunks):
        return (sig, pre + "a chunk does not carry the columns of read()", exp)
    return None


def jsonable_case(case):
    return json.loads(json.dumps(case))


def eval_reader_cases(chk, cases, work, tally=True):
    lines = []
    for cs in cases:
        w = wire_tree(cs["tree"])
        cols = Atom("none") if cs["cols"] is None else list(cs["cols"])
        names, idx, rows = table_of(cs["tree"])
        lines.append(req("tab-read", w, cols))
        lines.append(req("tab-chunked", w, cs["c"], cols))
        lines.append(req("tab-spec-select", cols, names, idx, [[Atom(x) for x in r] for r in rows]))
        lines.append(req("tab-names", w))
    resp = common.driver_batch(lines)
    for k, cs in enumerate(cases):
        r_read, r_chunked, r_spec = (dec(resp[4 * k]), dec(resp[4 * k + 1]), dec(resp[4 * k + 2]))
        if any("bad-" in x for x in resp[4 * k: 4 * k + 4]):
            raise RuntimeError(f"driver rejected the request of case {cs}: {resp[4 * k: 4 * k + 4]}")
        r_names = dec(resp[4 * k + 3])
        m_names = [a_str(x) for x in (r_names if isinstance(r_names, list) else [r_names])]
        impl = run_impl_reader(cs, work)
        shape = shape_of(cs["tree"])
        n = n_rows(cs["tree"])
        nchunks = len(impl[2]) if impl[0] == "ok" else -1
        if tally:
            key = (shape, n, cs["c"], None if cs["cols"] is None else len(cs["cols"]),
                   tuple(cs["cols"] or ()) == tuple(table_of(cs["tree"])[0]))
            chk.case(None, key if nchunks >= 2 else None,
                     sample=dict(reader=shape, rows=n, chunk_size=cs["c"], columns=cs["cols"],
                                 chunk_lengths=[len(ch[1]) for ch in impl[2]] if impl[0] == "ok" else impl[1:]))
            chk.count("reader", shape.split("(")[0])
            chk.count("rows", n)
            chk.count("chunk_size_vs_rows", "c>n" if cs["c"] > n else ("c=n" if cs["c"] == n else "c<n"))
            chk.count("columns", "None" if cs["cols"] is None else ("empty" if not cs["cols"] else "subset"))
            for sp in _seps_of(cs["tree"]):
                chk.count("text_reader_sep", repr(sp))
            for f_ in _file_leaves(cs["tree"]):
                if f_["t"] == "csv":
                    chk.count("text_reader_text_columns", len(f_.get("text_cols") or []))
            for b in _bases_of(cs["tree"]):
                chk.count("base_reader", b)
            chk.count("reader_depth", _depth(cs["tree"]))
            chk.count("reader_object_used_again", bool(cs.get("again")))
            chk.count("parquet_index_in_file", _pidx_of(cs["tree"]))
            chk.count("rename_map_reuses_old_names", _swap_of(cs["tree"]))
        exp = expected_select(cs["tree"], cs["cols"])
        if impl[0] == "raise" and cs["cols"] is None and not accepts_none(cs["tree"]):
            # third pass: a violation of the property (finding `computed-reader-columns-none`), no longer "no
            # promise"; the model of such code (`computedReader`, the class before c6f4cd0) refuses the request too
            if tally:
                chk.count("computed_reader_columns_None", "raises")
            chk.spec_violation(NONE_SIG, dict(case=jsonable_case(cs), clause=NONE_CLAUSE, impl=_short(impl),
                                              expected=_short(("ok", exp, None))))
            if r_read != "reject" or r_chunked != "reject":
                chk.corr_break("tab-read", dict(case=jsonable_case(cs), impl="raises", model=str(r_read)[:200]))
            continue
        if tally and cs["cols"] is None and not accepts_none(cs["tree"]):
            chk.count("computed_reader_columns_None", "answers")
        # Lean's spec evaluation must agree with the Python restatement (both are "the spec")
        if r_spec == "reject" or parse_model_df(r_spec) != exp:
            raise RuntimeError(f"spec-select (Lean) and the Python restatement disagree on {cs}")
        verdict = reader_spec_verdict(cs, impl)
        if verdict is not None:
            sig, clause, _ = verdict
            chk.spec_violation(sig, dict(case=jsonable_case(cs), clause=clause,
                                         impl=_short(impl), expected=_short(("ok", exp, None))))
            continue
        if has_stored_index(cs["tree"]) and ([r[0] for r in impl[1][1]] != list(range(n))
                                             or impl[3] != table_of(cs["tree"])[0]):
            # the model's Parquet file has no stored labels (rows are labelled 0..n-1, data columns only): nothing to
            # compare with when the implementation takes another consistent view
            chk.count("parquet_stored_index", "consistent-other-view")
            continue
        # model vs implementation, chunk by chunk
        m_read = None if r_read == "reject" else parse_model_df(r_read)
        m_chunks = None if r_chunked == "reject" else [parse_model_df(x) for x in r_chunked]
        if m_names != impl[3]:
            chk.corr_break("tab-names", dict(case=jsonable_case(cs), impl=impl[3], model=m_names))
        elif m_read != impl[1]:
            chk.corr_break("tab-read", dict(case=jsonable_case(cs), impl=_short(impl), model=str(m_read)[:600]))
        elif m_chunks != impl[2]:
            chk.corr_break("tab-chunked", dict(case=jsonable_case(cs),
                                              impl=[(ch[0], [r[0] for r in ch[1]]) for ch in impl[2]],
                                              model=None if m_chunks is None else
                                              [(ch[0], [r[0] for r in ch[1]]) for ch in m_chunks]))


def _seps_of(node):
    t = node["t"]
    if t == "csv":
        return [node.get("sep", "\t")]
    if t == "joined":
        return [x for s_ in node["subs"] for x in _seps_of(s_)]
    if t in ("mapped", "computed"):
        return _seps_of(node["sub"])
    return []


def _depth(node):
    t = node["t"]
    if t in BASES:
        return 0
    if t == "joined":
        return 1 + max(_depth(s_) for s_ in node["subs"])
    return 1 + _depth(node["sub"])


def _pidx_of(node):
    t = node["t"]
    if t in BASES:
        return node.get("pidx") or "none"
    if t == "joined":
        return "none"
    return _pidx_of(node["sub"])


def _swap_of(node):
    t = node["t"]
    if t in BASES:
        return False
    if t == "joined":
        return any(_swap_of(s_) for s_ in node["subs"])
    if t == "mapped" and set(node["map"].values()) & set(node["map"].keys()):
        return True
    return _swap_of(node["sub"])


def _bases_of(node):
    t = node["t"]
    if t in BASES:
        return [t]
    if t == "joined":
        return [x for s_ in node["subs"] for x in _bases_of(s_)]
    return _bases_of(node["sub"])


def _short(impl):
    if impl[0] == "raise":
        return {"raised": impl[1], "error": impl[2]}
    out = {"read": {"columns": impl[1][0], "index": [r[0] for r in impl[1][1]],
                    "rows": [[c[1] for c in r[1]] for r in impl[1][1]]}}
    if impl[2] is not None:
        out["chunks"] = [{"columns": ch[0], "index": [r[0] for r in ch[1]],
                          "rows": [[c[1] for c in r[1]] for r in ch[1]]} for ch in impl[2]]
    return out


# ----------------------------------------------------------------------------------------------------------
# writers
# ----------------------------------------------------------------------------------------------------------
KINDS = ["dataframe", "dicts", "records"]


def gen_writer_case(rng, nmax=12, big=None):
    suffix = rng.choice([".csv", ".parquet", ".peptides", ".weird"])
    ncols = rng.choice([1, 2, 3, 4])
    names = rng.sample(NAME_POOL, ncols)
    types = [rng.choice(["int", "float", "str", "bool"]) for _ in names]
    n = min(nmax, rng.choice([0, 1, 2, 3, 4, 5, 6, 8, 10, 12]))
    if big is not None:
        n = big[0]
    rows = [[gen_value(rng, t, True) for t in types] for _ in range(n)]
    bufsize = rng.choice([0, 0, 1, 2, 2, 3, 4, 5, max(2, n - 1), max(2, n), n + 1, 1000])
    kind = rng.choice(KINDS) if bufsize > 1 else "dataframe"
    if big is not None:
        # second pass: the pipeline's configuration (brew_rollup.py:374-386: 1000-row buffer of dicts, one row per
        # append) and other buffers that fill up many times
        bufsize, kind = big[1], big[2]
    appends, pos = [], 0
    if kind == "records":
        appends = [{"a": "record", "rows": [r]} for r in rows]
    else:
        while pos < n or (rng.random() < 0.15 and len(appends) < 8):
            k = rng.choice([0, 1, 1, 2, 3, n - pos]) if kind != "dicts" else rng.choice([0, 1, 1, 1, 2, 3, n - pos])
            k = max(0, min(k, n - pos))
            if pos >= n:
                k = 0
            part = rows[pos:pos + k]
            pos += k
            if kind == "dataframe":
                appends.append({"a": "frame", "rows": part})
            elif k == 1 and rng.random() < 0.6:
                appends.append({"a": "dict", "rows": part})
            else:
                appends.append({"a": "dicts", "rows": part})
    case = {"kind": "writer", "suffix": suffix, "names": names, "types": types, "bufsize": bufsize, "bkind": kind,
            "appends": appends, "stale": rng.choice(["none", "garbage", "same-header"]),
            "read_c": rng.choice([1, 2, 3, max(1, n)]),
            # extension: separator option, index labels of the appended frames, `with writer:` instead of explicit calls
            "sep": rng.choice(SEPS), "index": rng.choice(INDEX_MODES), "ctx": rng.choice(["explicit", "with"])}
    if kind == "records" and rng.random() < 0.4:
        case["rec_narrow"] = True
    # second pass: options left to their defaults (`from_suffix(path, columns)` without buffer_size / buffer_type when
    # the case is the default), `column_types=` also for text writers (the pipeline passes them)
    case["omit_defaults"] = rng.random() < 0.5
    case["text_types"] = rng.random() < 0.4
    if bufsize > 1 and kind in ("dataframe", "dicts") and ncols >= 2 and rng.random() < 0.2:
        # second pass: appends whose columns / dict keys come in another order than the writer's.  Buffered rows are
        # matched BY NAME (pd.concat, pd.DataFrame(list_of_dicts)); only the head of a flushed block decides the
        # column order of the frame handed on, which the text writer refuses when it differs (no promise), the
        # Parquet writer takes by name.
        cand = [i for i, a in enumerate(appends) if a["rows"]]
        if cand:
            bperm = {}
            for i in rng.sample(cand, rng.randint(1, min(3, len(cand)))):
                perm = list(range(ncols))
                while perm == list(range(ncols)):
                    rng.shuffle(perm)
                bperm[str(i)] = perm
            case["bperm"] = bperm
    if rng.random() < 0.15 and ncols >= 2 and bufsize <= 1 and any(a["rows"] for a in appends):
        # one append with its columns in another order: the text writer refuses it, the Parquet writer goes by name
        perm = list(range(ncols))
        while perm == list(range(ncols)):
            rng.shuffle(perm)
        cand = [i for i, a in enumerate(appends) if a["rows"]]
        case["perm"] = [rng.choice(cand), perm]
    return case


INDEX_MODES = ["default", "default", "shifted", "reversed", "dup"]


def frame_index(mode, n):
    """index labels of a frame handed to a writer (never written: index=False / preserve_index=False)"""
    if mode == "shifted":
        return [100 + 3 * i for i in range(n)]
    if mode == "reversed":
        return list(range(n - 1, -1, -1))
    if mode == "dup":
        return [7] * n
    return None


def make_stale(p, stale, names, types, is_pq):
    if stale == "garbage":
        p.write_bytes(b"PAR1 stale\tjunk\n1\t2\n3\t4\n")
    elif stale == "same-header":
        if is_pq:
            pq.write_table(pa.table({n: pa.array([], type=PA_TYPES[t]) for n, t in zip(names, types)}
                                    | {"zz_stale": pa.array([], type=pa.int64())}), p)
            pq.write_table(pa.table({"zz_stale": [1, 2, 3]}), p)
        else:
            p.write_text("\t".join(names) + "\n" + "\t".join("9" for _ in names) + "\n")


def stale_wire(stale, names, with_sep=False):
    """previous content of a text file as the model sees it"""
    pre = ["\t"] if with_sep else []
    if stale == "same-header":
        return pre + [list(names), [[Atom("i9") for _ in names]]]
    if stale == "garbage":
        return pre + [["PAR1 stale", "junk"], [[Atom("i1"), Atom("i2")], [Atom("i3"), Atom("i4")]]]
    return Atom("none")


def sep_kwargs(case_or_sep, is_pq):
    sep = case_or_sep if isinstance(case_or_sep, str) else case_or_sep.get("sep", "\t")
    return {} if is_pq or sep == "\t" else {"sep": sep}


def writer_args(case):
    """(python objects handed to append_data, wire args)"""
    names, types = case["names"], case["types"]
    objs, wire = [], []
    for i, a in enumerate(case["appends"]):
        order = list(range(len(names)))
        if case.get("perm") and case["perm"][0] == i:
            order = case["perm"][1]
        if case.get("bperm") and str(i) in case["bperm"]:
            order = case["bperm"][str(i)]
        nm = [names[j] for j in order]
        ty = [types[j] for j in order]
        rows = [[r[j] for j in order] for r in a["rows"]]
        wrows = [[[n_, Atom(cell_atom(v))] for n_, v in zip(nm, r)] for r in rows]
        if a["a"] == "frame":
            objs.append(make_df(nm, ty, rows, index=frame_index(case.get("index", "default"), len(rows))))
            wire.append([Atom("frame"), nm, wrows])
        elif a["a"] == "dict":
            objs.append(dict(zip(nm, rows[0])))
            wire.append([Atom("dict"), wrows[0]])
        elif a["a"] == "dicts":
            objs.append([dict(zip(nm, r)) for r in rows])
            wire.append([Atom("dicts"), wrows])
        else:
            df1 = make_df(nm, ty, rows, str_object=True)
            cd = {}
            if case.get("rec_narrow"):
                # records as they come from differently typed sources (a text file read in chunks: whole numbers
                # parse as integers in one chunk, as floats in the next; fixed-width strings of each value's own
                # width): the field dtypes of successive records differ, values must still come back unchanged
                frac_cols = {names[j] for j in range(len(names)) if types[j] == "float"
                             and any(not float(a2["rows"][0][j]).is_integer() for a2 in case["appends"] if a2["rows"])}
                for n_, t_, v_ in zip(nm, ty, rows[0]):
                    # (only in columns that also hold a fractional value: the column as a whole stays a float column)
                    if t_ == "float" and n_ in frac_cols and float(v_).is_integer() and 0 < abs(float(v_)) < 2 ** 52:
                        cd[n_] = "int64"
                    elif t_ == "str":
                        cd[n_] = f"<U{max(1, len(str(v_)))}"
            rec = df1.to_records(index=False, column_dtypes=cd)[0]
            objs.append(rec)
            wire.append([Atom("record"), wrows[0]])
    return objs, wire


def read_back(w, p, read_c, is_pq, sepkw):
    """what the associated reader (whole and chunk-wise) and from_path read from the finalised file"""
    from mokapot.tabular_data import TabularDataReader

    rd = w.get_associated_reader()
    whole = canon_df(rd.read())
    chunks = [canon_df(ch) for ch in rd.get_chunked_data_iterator(read_c)]
    via_path = canon_df(TabularDataReader.from_path(p, **sepkw).read())
    groups = None
    if is_pq:
        md = pq.ParquetFile(p).metadata
        groups = [md.row_group(i).num_rows for i in range(md.num_row_groups)]
    return whole, chunks, groups, via_path


def run_impl_writer(case, work):
    """-> ('ok', read canon, chunk canons, parquet row-group sizes | None, from_path canon) | ('raise', where, repr)"""
    from mokapot.tabular_data import TableType, TabularDataWriter

    tt = {"dataframe": TableType.DataFrame, "dicts": TableType.Dicts, "records": TableType.Records}[case["bkind"]]
    p = work.path(case["suffix"])
    is_pq = case["suffix"] == ".parquet"
    make_stale(p, case["stale"], case["names"], case["types"], is_pq)
    objs, _ = writer_args(case)
    kwargs = dict(sep_kwargs(case, is_pq))
    if is_pq:
        kwargs["column_types"] = [PA_TYPES[t] for t in case["types"]]
    elif case.get("text_types"):
        kwargs["column_types"] = [NP_TYPES[t] for t in case["types"]]
    if not (case.get("omit_defaults") and case["bufsize"] == 0):
        kwargs["buffer_size"] = case["bufsize"]
    if not (case.get("omit_defaults") and case["bkind"] == "dataframe"):
        kwargs["buffer_type"] = tt
    with warnings.catch_warnings():
        warnings.simplefilter("ignore")
        stage = "initialize"
        try:
            w = TabularDataWriter.from_suffix(p, list(case["names"]), **kwargs)
            if case.get("ctx") == "with":
                with w:
                    stage = "append_data"
                    for o in objs:
                        w.append_data(o)
                    stage = "finalize"
            else:
                w.initialize()
                stage = "append_data"
                try:
                    for o in objs:
                        w.append_data(o)
                except Exception:
                    try:
                        w.finalize()
                    except Exception:
                        pass
                    raise
                stage = "finalize"
                w.finalize()
        except Exception as e:
            return ("raise", stage, f"{type(e).__name__}: {e}"[:300])
        try:
            whole, chunks, groups, via_path = read_back(w, p, case["read_c"], is_pq, sep_kwargs(case, is_pq))
        except Exception as e:
            return ("raise", "read-back", f"{type(e).__name__}: {e}"[:300])
    return ("ok", whole, chunks, groups, via_path)


def writer_expected(case):
    names = case["names"]
    rows = [r for a in case["appends"] for r in a["rows"]]
    return (list(names), [(i, [(n, cell_atom(v)) for n, v in zip(names, r)]) for i, r in enumerate(rows)])


def writer_wellformed(case):
    """inside the property's quantifier: every append carries the writer's columns, in order for the text writer"""
    return not case.get("perm") or case["suffix"] == ".parquet"


def writer_spec_verdict(case, impl):
    exp = writer_expected(case)
    tag = f"{'parquet' if case['suffix'] == '.parquet' else 'text'}:{case['bkind']}:{'buffered' if case['bufsize'] > 1 else 'plain'}"
    if impl[0] == "raise":
        return (f"writer-exception:{impl[1]}:{tag}", "the writer raised on a well-formed sequence of appends: " + impl[2],
                exp)
    if impl[1] != exp:
        got = [r[1] for r in impl[1][1]]
        want = [r[1] for r in exp[1]]
        if impl[1][0] != exp[0]:
            what = "columns"
        elif len(got) < len(want):
            what = "rows-lost"
        elif len(got) > len(want):
            what = "rows-extra"
        elif sorted(map(str, got)) == sorted(map(str, want)):
            what = "rows-reordered"
        else:
            what = "values-changed"
        return (f"writer-roundtrip:{what}:{tag}",
                "reading back the finalised file does not return exactly the appended rows, in order, unchanged", exp)
    cat = [r for ch in impl[2] for r in ch[1]]
    want_rows = exp[1]
    if case.get("rec_narrow") and case["suffix"] != ".parquet":
        # the harness itself handed whole numbers of a float column over as integers, so the text file holds "2"
        # next to "2.5": a reader chunk holding only such values parses them as integers (per-chunk type inference of
        # the text reader, outside the writer clause) — compare the numbers, not their kind
        def num(a):
            return "f" + float(int(a[1:])).hex() if a.startswith("i") else a

        cat = [(i, [(n, num(a)) for n, a in cells]) for i, cells in cat]
        want_rows = [(i, [(n, num(a)) for n, a in cells]) for i, cells in want_rows]
    if cat != want_rows:
        return (f"writer-roundtrip-chunked:{tag}", "chunk-wise read-back of the finalised file differs from the "
                "appended rows", exp)
    if len(impl) > 4 and impl[4] != exp:
        return (f"writer-roundtrip-from_path:{tag}", "TabularDataReader.from_path on the finalised file does not "
                "return the appended rows", exp)
    return None


def eval_writer_cases(chk, cases, work, tally=True):
    lines = []
    for cs in cases:
        _, wire = writer_args(cs)
        kind = Atom(cs["bkind"])
        if cs["suffix"] == ".parquet":
            lines.append(req("tab-wr-pq", cs["names"], cs["bufsize"], kind, wire))
        else:
            lines.append(req("tab-wr-csv", cs["names"], cs["bufsize"], kind, stale_wire(cs["stale"], cs["names"]), wire))
    resp = common.driver_batch(lines)
    for k, cs in enumerate(cases):
        if "bad-" in resp[k]:
            raise RuntimeError(f"driver rejected the request of case {cs}: {resp[k]}")
        r_model = dec(resp[k])
        impl = run_impl_writer(cs, work)
        lens = [len(a["rows"]) for a in cs["appends"]]
        is_pq = cs["suffix"] == ".parquet"
        if tally:
            nontriv = len([x for x in lens if x]) >= 2 or (cs["bufsize"] > 1 and any(x > cs["bufsize"] for x in lens))
            chk.case(None, (cs["suffix"], cs["bufsize"], cs["bkind"], tuple(lens), tuple(cs["types"])) if nontriv
                     else None,
                     sample=dict(writer=cs["suffix"], buffer_size=cs["bufsize"], buffer_kind=cs["bkind"],
                                 append_lengths=lens, stale=cs["stale"]))
            chk.count("writer", "parquet" if is_pq else "text")
            chk.count("buffer_kind", cs["bkind"] if cs["bufsize"] > 1 else "unbuffered")
            chk.count("buffer_size_vs_rows", "0/1" if cs["bufsize"] <= 1 else
                      ("size>n" if cs["bufsize"] > sum(lens) else "size<=n"))
            chk.count("appends", min(len(lens), 9))
            chk.count("stale_file", cs["stale"])
            if not is_pq:
                chk.count("text_writer_sep", repr(cs.get("sep", "\t")))
            chk.count("appended_frame_index", cs.get("index", "default") if cs["bkind"] == "dataframe" else "n/a")
            chk.count("writer_lifetime", cs.get("ctx", "explicit"))
            chk.count("from_suffix_options", "defaults-omitted" if cs.get("omit_defaults") and
                      (cs["bufsize"] == 0 or cs["bkind"] == "dataframe") else "explicit")
            chk.count("text_writer_column_types", bool(cs.get("text_types")) if not is_pq else "n/a")
            chk.count("buffered_append_column_order", "permuted" if cs.get("bperm") else "writer-order")
        model_reject = r_model in ("reject", "reject-read")
        if cs.get("bperm"):
            # rows matched by name inside the buffer; the model's buffer is positional (rows in writer order are its
            # domain, ArgWF), so these cases are judged by the specification alone
            if impl[0] == "raise" and not is_pq and impl[2].startswith("ValueError: Column names"):
                chk.reject("text-writer-buffered-block-head-column-order")
                continue
            verdict = writer_spec_verdict(cs, impl)
            if verdict is not None:
                sig, clause, exp = verdict
                chk.spec_violation(sig.replace("writer-", "writer-by-name-", 1),
                                   dict(case=jsonable_case(cs), clause="appends with columns / keys in another order "
                                        "(matched by name): " + clause,
                                        impl=_short(impl[:3]) if impl[0] == "ok" else _short(impl),
                                        expected=_short(("ok", exp, None))))
            continue
        if not writer_wellformed(cs):
            # text writer + permuted columns: check_valid_data raises ValueError; no promise
            if impl[0] == "raise":
                chk.reject("text-writer-column-order:" + impl[2].split(":")[0])
                if not model_reject:
                    chk.corr_break("tab-wr-csv", dict(case=jsonable_case(cs), impl="raises", model="accepts"))
            else:
                chk.corr_break("tab-wr-csv", dict(case=jsonable_case(cs), impl="accepts permuted columns",
                                              model=str(r_model)[:200]))
            continue
        verdict = writer_spec_verdict(cs, impl)
        if verdict is not None:
            sig, clause, exp = verdict
            chk.spec_violation(sig, dict(case=jsonable_case(cs), clause=clause,
                                         impl=_short(impl[:3]) if impl[0] == "ok" else _short(impl),
                                         expected=_short(("ok", exp, None))))
            continue
        if model_reject:
            chk.corr_break("tab-wr", dict(case=jsonable_case(cs), impl="succeeds", model=str(r_model)))
            continue
        m_df = parse_model_df(r_model[0] if is_pq else r_model)
        if m_df != impl[1]:
            chk.corr_break("tab-wr", dict(case=jsonable_case(cs), impl=_short(impl[:3]), model=str(m_df)[:600]))
        if is_pq:
            # informational: the batches handed to the Parquet writer are visible as row groups
            m_groups = [int(x) for x in r_model[1]]
            chk.count("parquet_row_groups_agree_with_model", m_groups == impl[3])


# ----------------------------------------------------------------------------------------------------------
# extension: one-shot write(data)
# ----------------------------------------------------------------------------------------------------------
def gen_write1_case(rng, nmax=10):
    suffix = rng.choice([".csv", ".parquet", ".proteins", ".weird"])
    ncols = rng.choice([1, 2, 3, 4])
    names = rng.sample(NAME_POOL, ncols)
    types = [rng.choice(["int", "float", "str", "bool"]) for _ in names]
    n = min(nmax, rng.choice([0, 1, 2, 3, 5, 8, 10]))
    rows = [[gen_value(rng, t, True) for t in types] for _ in range(n)]
    bufsize = rng.choice([0, 0, 1, 2, 3, max(2, n), n + 1, 1000])
    case = {"kind": "write1", "suffix": suffix, "names": names, "types": types, "rows": rows, "bufsize": bufsize,
            "bkind": rng.choice(KINDS) if bufsize > 1 else "dataframe",
            "stale": rng.choice(["none", "garbage", "same-header"]), "sep": rng.choice(SEPS),
            "index": rng.choice(INDEX_MODES), "read_c": rng.choice([1, 2, 3, max(1, n)]),
            "with_types": rng.random() < 0.5}
    if rng.random() < 0.15 and ncols >= 2:
        perm = list(range(ncols))
        while perm == list(range(ncols)):
            rng.shuffle(perm)
        case["perm"] = perm
    return case


def write1_frame(case):
    order = case.get("perm") or list(range(len(case["names"])))
    nm = [case["names"][j] for j in order]
    ty = [case["types"][j] for j in order]
    rows = [[r[j] for j in order] for r in case["rows"]]
    df = make_df(nm, ty, rows, index=frame_index(case.get("index", "default"), len(rows)))
    wire = [nm, [[[n_, Atom(cell_atom(v))] for n_, v in zip(nm, r)] for r in rows]]
    return df, wire, nm


def run_impl_write1(case, work):
    from mokapot.tabular_data import TableType, TabularDataWriter

    tt = {"dataframe": TableType.DataFrame, "dicts": TableType.Dicts, "records": TableType.Records}[case["bkind"]]
    p = work.path(case["suffix"])
    is_pq = case["suffix"] == ".parquet"
    make_stale(p, case["stale"], case["names"], case["types"], is_pq)
    df, _, _ = write1_frame(case)
    kwargs = dict(sep_kwargs(case, is_pq))
    if is_pq and case.get("with_types"):
        kwargs["column_types"] = [PA_TYPES[t] for t in case["types"]]
    with warnings.catch_warnings():
        warnings.simplefilter("ignore")
        try:
            w = TabularDataWriter.from_suffix(p, list(case["names"]), buffer_size=case["bufsize"], buffer_type=tt,
                                              **kwargs)
            w.write(df)
        except Exception as e:
            return ("raise", "write", f"{type(e).__name__}: {e}"[:300])
        try:
            whole, chunks, groups, via_path = read_back(w, p, case["read_c"], is_pq, sep_kwargs(case, is_pq))
        except Exception as e:
            return ("raise", "read-back", f"{type(e).__name__}: {e}"[:300])
    return ("ok", whole, chunks, groups, via_path)


def write1_expected(case):
    names = case["names"]
    return (list(names), [(i, [(n, cell_atom(v)) for n, v in zip(names, r)]) for i, r in enumerate(case["rows"])])


def write1_spec_verdict(case, impl):
    v = writer_spec_verdict(dict(case, appends=[{"a": "frame", "rows": case["rows"]}]), impl)
    if v is None:
        return None
    return (v[0].replace("writer-", "write-once-", 1), "write(data): " + v[1], v[2])


def eval_write1_cases(chk, cases, work, tally=True):
    lines = []
    for cs in cases:
        _, wire, _ = write1_frame(cs)
        is_pq = cs["suffix"] == ".parquet"
        lines.append(req("tab-write1", Atom("pq" if is_pq else "csv"), cs["names"], cs["bufsize"],
                         Atom("none") if is_pq else stale_wire(cs["stale"], cs["names"]), wire))
    resp = common.driver_batch(lines)
    for k, cs in enumerate(cases):
        if "bad-" in resp[k]:
            raise RuntimeError(f"driver rejected the request of case {cs}: {resp[k]}")
        r_model = dec(resp[k])
        impl = run_impl_write1(cs, work)
        is_pq = cs["suffix"] == ".parquet"
        if tally:
            chk.case(None, ("write1", cs["suffix"], cs["bufsize"], len(cs["rows"]), tuple(cs["types"]), cs["stale"])
                     if cs["rows"] else None,
                     sample=dict(writer=cs["suffix"], entry="write(data)", buffer_size=cs["bufsize"],
                                 rows=len(cs["rows"]), stale=cs["stale"]))
            chk.count("write_once", ("parquet" if is_pq else "text") + (":buffered" if cs["bufsize"] > 1 else ":plain"))
            chk.count("write_once_rows", len(cs["rows"]))
            chk.count("write_once_frame_index", cs["index"])
            chk.count("write_once_stale_file", cs["stale"])
        model_reject = r_model in ("reject", "reject-read")
        if cs.get("perm"):
            # a frame whose columns are in another order: outside the property's quantifier
            if not is_pq:
                if impl[0] == "raise":
                    chk.reject("text-write-column-order:" + impl[2].split(":")[0])
                    if not model_reject:
                        chk.corr_break("tab-write1", dict(case=jsonable_case(cs), impl="raises", model="accepts"))
                else:
                    chk.corr_break("tab-write1", dict(case=jsonable_case(cs), impl="accepts permuted columns",
                                                      model=str(r_model)[:200]))
            else:
                chk.count("write_once_parquet_permuted_columns", "accepted" if impl[0] == "ok" else "raised")
                m_df = None if model_reject else parse_model_df(r_model[0])
                if (impl[1] if impl[0] == "ok" else None) != m_df:
                    chk.corr_break("tab-write1", dict(case=jsonable_case(cs), impl=str(impl[1])[:400],
                                                      model=str(m_df)[:400]))
            continue
        verdict = write1_spec_verdict(cs, impl)
        if verdict is not None:
            sig, clause, exp = verdict
            chk.spec_violation(sig, dict(case=jsonable_case(cs), clause=clause,
                                         impl=_short(impl[:3]) if impl[0] == "ok" else _short(impl),
                                         expected=_short(("ok", exp, None))))
            continue
        if model_reject:
            chk.corr_break("tab-write1", dict(case=jsonable_case(cs), impl="succeeds", model=str(r_model)))
            continue
        m_df = parse_model_df(r_model[0] if is_pq else r_model)
        if m_df != impl[1]:
            chk.corr_break("tab-write1", dict(case=jsonable_case(cs), impl=_short(impl[:3]), model=str(m_df)[:600]))
        if is_pq:
            chk.count("write_once_parquet_row_groups_agree_with_model", [int(x) for x in r_model[1]] == impl[3])


# ----------------------------------------------------------------------------------------------------------
# extension: several writer objects under auto_finalize / context managers, appends interleaved
# ----------------------------------------------------------------------------------------------------------
def gen_auto_case(rng, nmax=8):
    ncols = rng.choice([1, 2, 3])
    names = rng.sample(NAME_POOL, ncols)
    types = [rng.choice(["int", "float", "str", "bool"]) for _ in names]
    bkind = rng.choice(KINDS)
    nw = rng.choice([1, 2, 2, 2, 3])
    writers = []
    for _ in range(nw):
        bufsize = rng.choice([2, 2, 3, 4, 1000]) if bkind != "dataframe" else rng.choice([0, 0, 1, 2, 3, 4, 1000])
        writers.append({"suffix": rng.choice([".csv", ".parquet", ".tab", ".weird"]), "bufsize": bufsize,
                        "sep": rng.choice(SEPS), "stale": rng.choice(["none", "garbage", "same-header"])})
    steps = []
    for _ in range(min(nmax, rng.choice([0, 1, 2, 3, 4, 5, 6, 8]))):
        if bkind == "records":
            k, form = 1, "record"
        elif bkind == "dicts":
            k = rng.choice([0, 1, 1, 1, 2, 3])
            form = "dict" if k == 1 and rng.random() < 0.6 else "dicts"
        else:
            k, form = rng.choice([0, 1, 1, 2, 3, 5]), "frame"
        rows = [[gen_value(rng, t, True) for t in types] for _ in range(k)]
        to = sorted(rng.sample(range(nw), 1 if rng.random() < 0.6 else rng.randint(1, nw)))
        mut = None
        if k > 0 and rng.random() < 0.12:
            # the caller re-uses the object: overwrites its cells after append_data returned
            mut = [[gen_value(rng, t, True) for t in types] for _ in range(k)]
        steps.append({"a": form, "rows": rows, "to": to, "mutate": mut})
    return {"kind": "auto", "names": names, "types": types, "bkind": bkind, "writers": writers, "steps": steps,
            "mode": rng.choice(["auto_finalize", "auto_finalize", "exit-stack", "explicit"]),
            "index": rng.choice(INDEX_MODES), "read_c": rng.choice([1, 2, 3]),
            "holder": rng.choice(["list", "list", "tuple", "dict-values"])}


def auto_object(case, step):
    names, types, rows = case["names"], case["types"], step["rows"]
    if step["a"] == "frame":
        return make_df(names, types, rows, index=frame_index(case.get("index", "default"), len(rows)))
    if step["a"] == "dict":
        return dict(zip(names, rows[0]))
    if step["a"] == "dicts":
        return [dict(zip(names, r)) for r in rows]
    return make_df(names, types, rows, str_object=True).to_records(index=False)[0]


def auto_mutate(case, step, obj):
    """the caller overwrites the object it appended (in place) and empties containers it owns"""
    names, new = case["names"], step["mutate"]
    if step["a"] == "frame":
        for i, r in enumerate(new):
            for k in range(len(names)):
                obj.iat[i, k] = r[k]
    elif step["a"] == "dict":
        for n_, v in zip(names, new[0]):
            obj[n_] = v
    elif step["a"] == "dicts":
        for d, r in zip(obj, new):
            for n_, v in zip(names, r):
                d[n_] = v
        obj.clear()
    else:
        for n_, v in zip(names, new[0]):
            obj[n_] = v


def auto_wire(case):
    names = case["names"]
    specs = []
    for wd in case["writers"]:
        kind = Atom(case["bkind"])
        if wd["suffix"] == ".parquet":
            specs.append([Atom("pq"), names, wd["bufsize"], kind])
        else:
            specs.append([Atom("csv"), names, wd["bufsize"], kind, wd["sep"],
                          stale_wire(wd["stale"], names, with_sep=True)])
    prog = []
    for st in case["steps"]:
        wrows = [[[n_, Atom(cell_atom(v))] for n_, v in zip(names, r)] for r in st["rows"]]
        if st["a"] == "frame":
            arg = [Atom("frame"), names, wrows]
        elif st["a"] == "dict":
            arg = [Atom("dict"), wrows[0]]
        elif st["a"] == "dicts":
            arg = [Atom("dicts"), wrows]
        else:
            arg = [Atom("record"), wrows[0]]
        for i in st["to"]:
            prog.append([i, arg])
    return specs, prog


def run_impl_auto(case, work, mutate=True):
    """-> ('ok', [per writer (read canon, chunk canons, groups, from_path canon)]) | ('raise', where, repr)"""
    import contextlib

    from mokapot.tabular_data import TableType, TabularDataWriter, auto_finalize

    tt = {"dataframe": TableType.DataFrame, "dicts": TableType.Dicts, "records": TableType.Records}[case["bkind"]]
    names, types = case["names"], case["types"]
    paths, ws = [], []
    with warnings.catch_warnings():
        warnings.simplefilter("ignore")
        stage = "from_suffix"
        try:
            for wd in case["writers"]:
                p = work.path(wd["suffix"])
                is_pq = wd["suffix"] == ".parquet"
                make_stale(p, wd["stale"], names, types, is_pq)
                kwargs = dict(sep_kwargs(wd["sep"], is_pq))
                if is_pq:
                    kwargs["column_types"] = [PA_TYPES[t] for t in types]
                ws.append(TabularDataWriter.from_suffix(p, list(names), buffer_size=wd["bufsize"], buffer_type=tt,
                                                        **kwargs))
                paths.append(p)

            def body():
                for st in case["steps"]:
                    obj = auto_object(case, st)
                    for i in st["to"]:
                        ws[i].append_data(obj)
                    if mutate and st.get("mutate"):
                        auto_mutate(case, st, obj)

            stage = "block"
            if case["mode"] == "auto_finalize":
                # (the pipeline hands `dict.values()` to auto_finalize, brew_rollup.py:399)
                holder = {"list": ws, "tuple": tuple(ws), "dict-values": {i: w for i, w in enumerate(ws)}.values()}[
                    case.get("holder", "list")]
                with auto_finalize(holder):
                    body()
            elif case["mode"] == "exit-stack":
                with contextlib.ExitStack() as stack:
                    for w in ws:
                        stack.enter_context(w)
                    body()
            else:
                for w in ws:
                    w.initialize()
                try:
                    body()
                finally:
                    for w in ws:
                        w.finalize()
        except Exception as e:
            return ("raise", stage, f"{type(e).__name__}: {e}"[:300])
        out = []
        try:
            for w, p, wd in zip(ws, paths, case["writers"]):
                is_pq = wd["suffix"] == ".parquet"
                out.append(read_back(w, p, case["read_c"], is_pq, sep_kwargs(wd["sep"], is_pq)))
        except Exception as e:
            return ("raise", "read-back", f"{type(e).__name__}: {e}"[:300])
    return ("ok", out)


def auto_expected(case, i):
    names = case["names"]
    rows = [r for st in case["steps"] if i in st["to"] for r in st["rows"]]
    return (list(names), [(j, [(n, cell_atom(v)) for n, v in zip(names, r)]) for j, r in enumerate(rows)])


def auto_spec_verdict(case, impl):
    """None if every file reads back the rows appended to its writer, else (signature, clause, writer number, expected)"""
    if impl[0] == "raise":
        return (f"auto-finalize-exception:{impl[1]}:{case['bkind']}",
                "writers under auto_finalize / context managers raised on well-formed appends: " + impl[2], None, None)
    for i, (wd, got) in enumerate(zip(case["writers"], impl[1])):
        exp = auto_expected(case, i)
        fake = {"suffix": wd["suffix"], "bkind": case["bkind"], "bufsize": wd["bufsize"], "names": case["names"],
                "appends": [{"a": "x", "rows": [r for st in case["steps"] if i in st["to"] for r in st["rows"]]}]}
        v = writer_spec_verdict(fake, ("ok", got[0], got[1], got[2], got[3]))
        if v is not None:
            return (v[0].replace("writer-", "auto-finalize-", 1),
                    f"writer {i} of {len(case['writers'])} used in one block with interleaved appends: " + v[1], i, exp)
    return None


def auto_classify(case, impl, work):
    """spec verdict with the aliasing cases told apart: a failure that disappears when the caller does not touch the
    appended objects afterwards is the writer keeping a reference to the caller's object"""
    v = auto_spec_verdict(case, impl)
    if v is None or not any(st.get("mutate") for st in case["steps"]):
        return v
    if auto_spec_verdict(case, run_impl_auto(case, work, mutate=False)) is None:
        return (f"writer-aliasing:{case['bkind']}",
                "a buffered writer keeps a reference to the object handed to append_data: overwriting that object "
                "afterwards changes the rows that reach the file (appended rows are not returned unchanged)", v[2], v[3])
    return v


def eval_auto_cases(chk, cases, work, tally=True):
    lines = []
    for cs in cases:
        specs, prog = auto_wire(cs)
        lines.append(req("tab-auto", specs, prog))
    resp = common.driver_batch(lines)
    for k, cs in enumerate(cases):
        if "bad-" in resp[k]:
            raise RuntimeError(f"driver rejected the request of case {cs}: {resp[k]}")
        r_model = dec(resp[k])
        impl = run_impl_auto(cs, work)
        nw = len(cs["writers"])
        fed = [i for i in range(nw) if any(i in st["to"] and st["rows"] for st in cs["steps"])]
        if tally:
            key = (tuple((w["suffix"], w["bufsize"]) for w in cs["writers"]), cs["bkind"],
                   tuple((tuple(st["to"]), len(st["rows"])) for st in cs["steps"]))
            chk.case(None, key if len(fed) >= 2 else None,
                     sample=dict(writers=[(w["suffix"], w["bufsize"], w["sep"]) for w in cs["writers"]],
                                 buffer_kind=cs["bkind"], lifetime=cs["mode"],
                                 appends=[(st["to"], len(st["rows"])) for st in cs["steps"]]))
            chk.count("auto_writers", nw)
            chk.count("auto_lifetime", cs["mode"])
            if cs["mode"] == "auto_finalize":
                chk.count("auto_finalize_argument", cs.get("holder", "list"))
            chk.count("auto_buffer_kind", cs["bkind"])
            chk.count("auto_steps", len(cs["steps"]))
            chk.count("auto_object_shared_between_writers", any(len(st["to"]) > 1 for st in cs["steps"]))
            chk.count("auto_object_overwritten_after_append", any(st.get("mutate") for st in cs["steps"]))
            for w in cs["writers"]:
                if w["suffix"] != ".parquet":
                    chk.count("text_writer_sep", repr(w["sep"]))
        verdict = auto_classify(cs, impl, work)
        if verdict is not None:
            sig, clause, i, exp = verdict
            info = dict(case=jsonable_case(cs), clause=clause)
            if impl[0] == "ok" and i is not None:
                info["writer"] = i
                info["impl"] = _short(("ok", impl[1][i][0], impl[1][i][1]))
                info["expected"] = _short(("ok", exp, None))
            else:
                info["impl"] = _short(impl)
            chk.spec_violation(sig, info)
            continue
        if r_model == "reject":
            chk.corr_break("tab-auto", dict(case=jsonable_case(cs), impl="succeeds", model="reject"))
            continue
        for i, (wd, got) in enumerate(zip(cs["writers"], impl[1])):
            is_pq = wd["suffix"] == ".parquet"
            rm = r_model[i]
            if rm == "reject-read":
                chk.corr_break("tab-auto", dict(case=jsonable_case(cs), writer=i, impl="readable", model="reject-read"))
                break
            m_df = parse_model_df(rm[0] if is_pq else rm)
            if m_df != got[0]:
                chk.corr_break("tab-auto", dict(case=jsonable_case(cs), writer=i,
                                                impl=_short(("ok", got[0], None)), model=str(m_df)[:600]))
                break
            if is_pq:
                chk.count("parquet_row_groups_agree_with_model", [int(x) for x in rm[1]] == got[2])


def exhaustive_auto(nmax, npairs=4):
    """two writers, every program of <= nmax one-row appends to either or both, a few writer pairs and lifetimes"""
    cases = []
    pairs = [
        ("dataframe", [(".csv", 2, ","), (".parquet", 0, "\t")]),
        ("dicts", [(".csv", 2, "\t"), (".parquet", 3, "\t")]),
        ("records", [(".parquet", 2, "\t"), (".csv", 3, "|")]),
        ("dataframe", [(".parquet", 3, "\t"), (".tab", 0, ";")]),
    ][:npairs]
    for bkind, pair in pairs:
        writers = [{"suffix": sf, "bufsize": b, "sep": sp, "stale": "same-header" if j else "none"}
                   for j, (sf, b, sp) in enumerate(pair)]
        form = {"dataframe": "frame", "dicts": "dict", "records": "record"}[bkind]
        for n in range(0, nmax + 1):
            for tos in itertools.product(([0], [1], [0, 1]), repeat=n):
                steps = [{"a": form, "rows": [[10 + j, f"s{j}"]], "to": list(to), "mutate": None}
                         for j, to in enumerate(tos)]
                cases.append({"kind": "auto", "names": ["a", "b"], "types": ["int", "str"], "bkind": bkind,
                              "writers": writers, "steps": steps,
                              "mode": ["auto_finalize", "exit-stack", "explicit"][n % 3], "index": "default",
                              "read_c": 2})
                if 1 <= n <= 2:
                    # the same program with every appended object overwritten by the caller afterwards
                    cases.append(dict(cases[-1], steps=[dict(st, mutate=[[-1, "gone"]]) for st in steps]))
    return cases


def exhaustive_write1(nmax):
    cases = []
    for n in range(0, nmax + 1):
        rows = [[10 + i, f"s{i}", i % 2 == 0] for i in range(n)]
        for suffix in (".csv", ".parquet"):
            for bufsize in (0, 2, n + 1):
                for stale in ("none", "garbage", "same-header"):
                    cases.append({"kind": "write1", "suffix": suffix, "names": ["a", "b", "c"],
                                  "types": ["int", "str", "bool"], "rows": rows, "bufsize": bufsize,
                                  "bkind": "dicts" if bufsize > 1 else "dataframe", "stale": stale,
                                  "sep": "," if n % 2 else "\t", "index": INDEX_MODES[(n + bufsize) % len(INDEX_MODES)],
                                  "read_c": 2, "with_types": n % 2 == 0})
    return cases


# ----------------------------------------------------------------------------------------------------------
# second pass: several writer objects for one file, writer objects used again (programs of calls)
# ----------------------------------------------------------------------------------------------------------
def _calls_form(obj):
    if obj["bufsize"] <= 1:
        return "frame"
    return {"dataframe": "frame", "dicts": "dict", "records": "record"}[obj["bkind"]]


def _gen_appends(rng, obj, types, total):
    """appends for one segment on `obj`: [{'a': form, 'rows': [...]}]"""
    form = _calls_form(obj)
    out = []
    left = total
    while left > 0 or (rng.random() < 0.15 and len(out) < 5):
        if form == "record":
            k = 1
        elif form == "dict":
            k = rng.choice([1, 1, 1, 2, 3])
        else:
            k = rng.choice([0, 1, 1, 2, 3, left])
        k = max(0, min(k, left)) if left > 0 else 0
        if form == "record" and k == 0:
            break
        rows = [[gen_value(rng, t, True) for t in types] for _ in range(k)]
        left -= k
        a = form
        if form == "dict" and (k != 1 or rng.random() < 0.4):
            a = "dicts"
        out.append({"a": a, "rows": rows})
    return out


def gen_calls_case(rng, nmax=8):
    is_pq = rng.random() < 0.3
    suffix = ".parquet" if is_pq else rng.choice([".csv", ".tab", ".psms", ".weird"])
    ncols = rng.choice([1, 2, 3])
    names = rng.sample(NAME_POOL, ncols)
    types = [rng.choice(["int", "float", "str", "bool"]) for _ in names]
    nobj = 1 if is_pq else rng.choice([1, 2, 2, 3])
    objs = []
    for _ in range(nobj):
        bufsize = rng.choice([0, 0, 1, 2, 3, 4, 1000])
        objs.append({"bufsize": bufsize, "bkind": rng.choice(KINDS) if bufsize > 1 else "dataframe"})
    case = {"kind": "calls", "suffix": suffix, "names": names, "types": types, "objs": objs,
            "sep": rng.choice(SEPS), "stale": rng.choice(["none", "garbage", "same-header"]),
            "index": rng.choice(INDEX_MODES), "read_c": rng.choice([1, 2, 3])}
    if not is_pq and rng.random() < 0.15:
        # a free program (text): any calls after a first initialize(); judged against the model only
        prog = [[rng.randrange(nobj), "init"]]
        for _ in range(rng.randint(3, 9)):
            j = rng.randrange(nobj)
            what = rng.choice(["app", "app", "app", "app", "fin", "fin", "init", "write"])
            if what == "app":
                for a in _gen_appends(rng, objs[j], types, rng.choice([1, 1, 2, 3]))[:2]:
                    prog.append([j, "app", a])
            elif what == "write":
                k = rng.choice([0, 1, 2])
                prog.append([j, "write", [[gen_value(rng, t, True) for t in types] for _ in range(k)]])
            else:
                prog.append([j, what])
        case["free"] = prog
        return case
    eps = []
    for _ in range(rng.choice([1, 2, 2, 3])):
        if rng.random() < 0.25:
            k = min(nmax, rng.choice([0, 1, 2, 4]))
            eps.append({"e": "write", "j": rng.randrange(nobj),
                        "rows": [[gen_value(rng, t, True) for t in types] for _ in range(k)]})
        else:
            j0 = rng.randrange(nobj)
            nseg = 1 if is_pq else rng.choice([0, 1, 1, 2, 3])
            segs = []
            for _ in range(nseg):
                j = 0 if is_pq else rng.randrange(nobj)
                segs.append({"j": j, "appends": _gen_appends(rng, objs[j], types, min(nmax, rng.choice([0, 1, 2, 3, 5])))})
            eps.append({"e": "run", "j0": 0 if is_pq else j0, "segs": segs})
    case["eps"] = eps
    return case


def calls_program(case):
    """flat list of calls [j, what, payload?] with the index of the last call of every episode"""
    if case.get("free"):
        return [list(c) for c in case["free"]], []
    prog, ends = [], []
    for ep in case["eps"]:
        if ep["e"] == "write":
            prog.append([ep["j"], "write", ep["rows"]])
        else:
            prog.append([ep["j0"], "init"])
            for seg in ep["segs"]:
                for a in seg["appends"]:
                    prog.append([seg["j"], "app", a])
                prog.append([seg["j"], "fin"])
        ends.append(len(prog))
    return prog, ends


def calls_episode_rows(ep):
    if ep["e"] == "write":
        return ep["rows"]
    return [r for seg in ep["segs"] for a in seg["appends"] for r in a["rows"]]


def calls_wire(case, prog):
    names = case["names"]
    out = []
    for c in prog:
        j, what = c[0], c[1]
        if what in ("init", "fin"):
            out.append([j, Atom(what)])
        elif what == "write":
            wrows = [[[n_, Atom(cell_atom(v))] for n_, v in zip(names, r)] for r in c[2]]
            out.append([j, [Atom("write"), [names, wrows]]])
        else:
            a = c[2]
            wrows = [[[n_, Atom(cell_atom(v))] for n_, v in zip(names, r)] for r in a["rows"]]
            if a["a"] == "frame":
                arg = [Atom("frame"), names, wrows]
            elif a["a"] == "dict":
                arg = [Atom("dict"), wrows[0]]
            elif a["a"] == "dicts":
                arg = [Atom("dicts"), wrows]
            else:
                arg = [Atom("record"), wrows[0]]
            out.append([j, [Atom("app"), arg]])
    return out


def run_impl_calls(case, work):
    """-> list, per check point (end of every episode; end of a free program), of
    ('ok', read canon, chunk canons, groups, from_path canon) | ('raise', where, repr)"""
    from mokapot.tabular_data import TableType, TabularDataWriter

    TT = {"dataframe": TableType.DataFrame, "dicts": TableType.Dicts, "records": TableType.Records}
    names, types = case["names"], case["types"]
    is_pq = case["suffix"] == ".parquet"
    p = work.path(case["suffix"])
    make_stale(p, case["stale"], names, types, is_pq)
    prog, ends = calls_program(case)
    points = ends if ends else [len(prog)]
    out = []
    with warnings.catch_warnings():
        warnings.simplefilter("ignore")
        ws = []
        for o in case["objs"]:
            kwargs = dict(sep_kwargs(case, is_pq))
            if is_pq:
                kwargs["column_types"] = [PA_TYPES[t] for t in types]
            if o["bufsize"] != 0 or o.get("explicit"):
                kwargs["buffer_size"] = o["bufsize"]
            if o["bkind"] != "dataframe":
                kwargs["buffer_type"] = TT[o["bkind"]]
            ws.append(TabularDataWriter.from_suffix(p, list(names), **kwargs))
        dead = None
        for i, c in enumerate(prog):
            if dead is None:
                try:
                    w = ws[c[0]]
                    if c[1] == "init":
                        w.initialize()
                    elif c[1] == "fin":
                        w.finalize()
                    elif c[1] == "write":
                        w.write(make_df(names, types, c[2], index=frame_index(case.get("index", "default"), len(c[2]))))
                    else:
                        a = c[2]
                        if a["a"] == "frame":
                            obj = make_df(names, types, a["rows"], index=frame_index(case.get("index", "default"),
                                                                                     len(a["rows"])))
                        elif a["a"] == "dict":
                            obj = dict(zip(names, a["rows"][0]))
                        elif a["a"] == "dicts":
                            obj = [dict(zip(names, r)) for r in a["rows"]]
                        else:
                            obj = make_df(names, types, a["rows"], str_object=True).to_records(index=False)[0]
                        w.append_data(obj)
                except Exception as e:
                    dead = ("raise", f"call {i}: objs[{c[0]}].{c[1]}", f"{type(e).__name__}: {e}"[:300])
            if i + 1 in points:
                if dead is not None:
                    out.append(dead)
                    continue
                try:
                    out.append(("ok",) + read_back(ws[0], p, case["read_c"], is_pq, sep_kwargs(case, is_pq)))
                except Exception as e:
                    out.append(("raise", "read-back", f"{type(e).__name__}: {e}"[:300]))
        if not prog:
            out.append(("raise", "empty-program", ""))
    return out


def calls_spec_verdict(case, k, impl):
    """episode number k: the file reads back exactly the rows of that episode"""
    ep = case["eps"][k]
    rows = calls_episode_rows(ep)
    fake = {"suffix": case["suffix"], "bkind": "mixed", "bufsize": 2, "names": case["names"],
            "appends": [{"a": "x", "rows": rows}]}
    v = writer_spec_verdict(fake, impl)
    if v is None:
        return None
    tag = "parquet" if case["suffix"] == ".parquet" else "text"
    what = v[0].split(":")[1] if v[0].startswith("writer-roundtrip:") else v[0].split(":")[0]
    shape = "several-objects" if len(case["objs"]) > 1 else ("object-used-again" if k > 0 else "one-use")
    return (f"writer-objects:{what}:{shape}:{tag}",
            f"episode {k + 1} of {len(case['eps'])} on {len(case['objs'])} writer object(s) of one file "
            f"({ep['e']}): " + v[1], v[2])


def eval_calls_cases(chk, cases, work, tally=True):
    lines, slots = [], []
    for ci, cs in enumerate(cases):
        prog, ends = calls_program(cs)
        is_pq = cs["suffix"] == ".parquet"
        objs = [[Atom(o["bkind"]), o["bufsize"]] for o in cs["objs"]]
        for pt in (ends if ends else [len(prog)]):
            lines.append(req("tab-calls", Atom("pq" if is_pq else "csv"), cs["names"], objs,
                             Atom("none") if is_pq else stale_wire(cs["stale"], cs["names"]),
                             calls_wire(cs, prog[:pt])))
            slots.append(ci)
    resp = common.driver_batch(lines)
    pos = 0
    for ci, cs in enumerate(cases):
        prog, ends = calls_program(cs)
        npts = len(ends) if ends else 1
        rs = resp[pos:pos + npts]
        pos += npts
        if any("bad-" in r for r in rs):
            raise RuntimeError(f"driver rejected the request of case {cs}: {rs}")
        impls = run_impl_calls(cs, work)
        is_pq = cs["suffix"] == ".parquet"
        free = bool(cs.get("free"))
        if tally:
            nonempty = [k for k, ep in enumerate(cs.get("eps", [])) if calls_episode_rows(ep)]
            key = (cs["suffix"], tuple((o["bkind"], o["bufsize"]) for o in cs["objs"]),
                   tuple((c[0], c[1], len(c[2]["rows"]) if c[1] == "app" else (len(c[2]) if c[1] == "write" else 0))
                         for c in prog))
            chk.case(None, key if (free or len(nonempty) >= 2 or len(cs["objs"]) >= 2) else None,
                     sample=dict(writer=cs["suffix"], objects=[(o["bkind"], o["bufsize"]) for o in cs["objs"]],
                                 calls=[f"{c[0]}.{c[1]}" for c in prog]))
            chk.count("calls_file", "parquet" if is_pq else "text")
            chk.count("calls_objects", len(cs["objs"]))
            chk.count("calls_program", "free" if free else f"{len(cs['eps'])}-episodes")
            if not free:
                for ep in cs["eps"]:
                    chk.count("calls_episode", ep["e"] if ep["e"] == "write" else f"run:{min(len(ep['segs']), 3)}-segments")
                    if ep["e"] == "run":
                        chk.count("calls_initialised_by_other_object", any(sg["j"] != ep["j0"] for sg in ep["segs"]))
            for o in cs["objs"]:
                chk.count("calls_object_kind", o["bkind"] if o["bufsize"] > 1 else "unbuffered")
        for k, (r, impl) in enumerate(zip(rs, impls)):
            r_model = dec(r)
            model_reject = r_model in ("reject", "reject-read")
            if free:
                # no promise; the model says what the file holds after any program of calls
                if impl[0] == "raise":
                    chk.reject("free-call-program:" + impl[2].split(":")[0])
                    if not model_reject:
                        chk.corr_break("tab-calls", dict(case=jsonable_case(cs), impl=impl[1] + " raises " + impl[2],
                                                         model="answers"))
                elif model_reject:
                    chk.corr_break("tab-calls", dict(case=jsonable_case(cs), impl="succeeds", model=str(r_model)))
                elif parse_model_df(r_model) != impl[1]:
                    chk.corr_break("tab-calls", dict(case=jsonable_case(cs), impl=_short(impl[:3]),
                                                     model=str(parse_model_df(r_model))[:600]))
                continue
            verdict = calls_spec_verdict(cs, k, impl)
            if verdict is not None:
                sig, clause, exp = verdict
                chk.spec_violation(sig, dict(case=jsonable_case(cs), episode=k, clause=clause,
                                             impl=_short(impl[:3]) if impl[0] == "ok" else _short(impl),
                                             expected=_short(("ok", exp, None))))
                break
            if model_reject:
                chk.corr_break("tab-calls", dict(case=jsonable_case(cs), episode=k, impl="succeeds", model=str(r_model)))
                break
            m_df = parse_model_df(r_model[0] if is_pq else r_model)
            if m_df != impl[1]:
                chk.corr_break("tab-calls", dict(case=jsonable_case(cs), episode=k, impl=_short(impl[:3]),
                                                 model=str(m_df)[:600]))
                break


def exhaustive_calls(nmax):
    """two text objects (one unbuffered, one buffered) / one Parquet object; every program of <= nmax episodes over a
    small alphabet of episodes"""
    cases = []
    r = [[10 + i, f"s{i}"] for i in range(6)]
    for objs, suffix in (([{"bufsize": 0, "bkind": "dataframe"}, {"bufsize": 2, "bkind": "dicts"}], ".csv"),
                         ([{"bufsize": 3, "bkind": "dataframe"}, {"bufsize": 0, "bkind": "dataframe"}], ".tab"),
                         ([{"bufsize": 2, "bkind": "records"}], ".parquet"),
                         ([{"bufsize": 0, "bkind": "dataframe"}], ".parquet")):
        def app(j, rows):
            f = _calls_form(objs[j])
            if f == "frame":
                return [{"a": "frame", "rows": rows}]
            return [{"a": f, "rows": [x]} for x in rows]

        last = len(objs) - 1
        alphabet = [
            {"e": "write", "j": last, "rows": r[4:6]},
            {"e": "run", "j0": 0, "segs": [{"j": last, "appends": app(last, r[0:3])}]},
            {"e": "run", "j0": last, "segs": [{"j": 0, "appends": app(0, r[3:4])}]},
        ]
        if suffix != ".parquet":
            alphabet.append({"e": "run", "j0": 0, "segs": []})
            alphabet.append({"e": "run", "j0": last, "segs": [{"j": 0, "appends": app(0, r[0:1])},
                                                              {"j": last, "appends": app(last, r[1:4])},
                                                              {"j": 0, "appends": app(0, r[4:5])}]})
        for n in range(1, nmax + 1):
            for eps in itertools.product(alphabet, repeat=n):
                cases.append({"kind": "calls", "suffix": suffix, "names": ["a", "b"], "types": ["int", "str"],
                              "objs": objs, "sep": "," if n % 2 else "\t", "stale": "same-header" if n % 2 else "none",
                              "index": "default", "read_c": 2, "eps": list(eps)})
    return cases


# ----------------------------------------------------------------------------------------------------------
# third pass: histories of uses of reader objects over frames the caller keeps (op tab-uses)
# ----------------------------------------------------------------------------------------------------------
def _src_leaves(node, out=None):
    out = [] if out is None else out
    t = node["t"]
    if t in BASES:
        if "src" in node:
            out.append(node["src"])
    elif t == "joined":
        for s_ in node["subs"]:
            _src_leaves(s_, out)
    else:
        _src_leaves(node["sub"], out)
    return out


def _file_leaves(node, out=None):
    out = [] if out is None else out
    t = node["t"]
    if t in BASES:
        if t in ("csv", "pq"):
            out.append(node)
    elif t == "joined":
        for s_ in node["subs"]:
            _file_leaves(s_, out)
    else:
        _file_leaves(node["sub"], out)
    return out


def gen_shared_case(rng, nmax=7):
    """1-2 frames the caller keeps; 1-3 reader objects over them (plain, renamed — half of the maps permute old names
    —, computed column, joined with another frame / a file, nested); a program of 3-7 calls on these objects
    (get_column_names / read / chunk iterator; `columns=None` in 45% of the requests); afterwards the caller's frames
    are compared with pristine copies"""
    n = min(nmax, rng.choice([0, 1, 2, 2, 3, 3, 4, 5, 7]))
    custom = rng.random() < 0.3
    index = rng.sample(range(0, 40), n) if custom else list(range(n))
    nsrc = rng.choice([1, 1, 2])
    pool = list(NAME_POOL)
    rng.shuffle(pool)
    srcs = []
    for k in range(nsrc):
        names = [pool.pop() for _ in range(rng.choice([1, 2, 2, 3]))]
        node = gen_base(rng, "frame", names, n, index)
        if node["t"] != "frame":  # (gen_base may turn a one-column frame into a series / array reader)
            node = {"t": "frame", "names": names, "types": node["types"], "rows": node["rows"], "index": list(index),
                    "obj": False}
        node["src"] = k
        srcs.append(node)
    extra_names = ["Z1", "Z2", "Z3", "Z4", "Z5", "Z6"]

    def rename_map(nm):
        nm = list(nm)
        if len(nm) >= 2 and rng.random() < 0.5:
            sub = rng.sample(nm, rng.randint(2, len(nm)))
            return dict(zip(sub, sub[1:] + sub[:1]))
        m = {x: extra_names[j] for j, x in enumerate(nm) if rng.random() < 0.6}
        return m or {nm[0]: "Z6"}

    def leaf(k):
        return dict(srcs[k])

    def file_leaf():
        names = [pool.pop()]
        b = gen_base(rng, rng.choice(["csv", "pq"]), names, n)
        return b

    def tree():
        k = rng.randrange(nsrc)
        form = rng.choice(["src", "mapped", "mapped", "mapped", "computed", "computed-mapped", "joined", "joined",
                           "mapped-joined", "mapped-mapped", "joined-mapped"])
        if form == "src":
            return leaf(k)
        if form in ("mapped", "mapped-mapped", "computed-mapped"):
            t_ = {"t": "mapped", "sub": leaf(k), "map": rename_map(srcs[k]["names"])}
            if form == "mapped-mapped":
                t_ = {"t": "mapped", "sub": t_, "map": rename_map(table_of(t_)[0])}
            if form == "computed-mapped":
                t_ = {"t": "computed", "sub": t_, "col": "k", "fn": ["affine", rng.choice([1, 10, -3]), 5]}
            return t_
        if form == "computed":
            return {"t": "computed", "sub": leaf(k), "col": "k",
                    "fn": rng.choice([["const", 7], ["affine", 10, 1]])}
        # joins: the caller's frame with the other frame or with a file (files carry labels 0..n-1)
        first = leaf(k)
        if form == "joined-mapped":
            first = {"t": "mapped", "sub": first, "map": rename_map(srcs[k]["names"])}
        if nsrc == 2 and rng.random() < 0.6:
            other = leaf(1 - k)
        elif not custom and pool:
            other = file_leaf()
        elif nsrc == 2:
            other = leaf(1 - k)
        else:
            other = None
        subs = [first] + ([other] if other is not None else [])
        if rng.random() < 0.5:
            subs.reverse()
        t_ = {"t": "joined", "subs": subs}
        if form == "mapped-joined":
            t_ = {"t": "mapped", "sub": t_, "map": rename_map(table_of(t_)[0])}
        return t_

    readers = [tree() for _ in range(rng.choice([1, 2, 2, 3]))]
    prog = []
    for _ in range(rng.randint(3, 7)):
        i = rng.randrange(len(readers))
        names = table_of(readers[i])[0]
        r = rng.random()
        if r < 0.12:
            prog.append([i, "names"])
            continue
        if rng.random() < 0.45 and (accepts_none(readers[i]) or computed_none_ok() or rng.random() < 0.1):
            cols = None
        else:
            cols = rng.sample(names, rng.randint(0, len(names)))
            if rng.random() < 0.3:
                cols = list(names)
        if r < 0.6:
            prog.append([i, "read", cols])
        else:
            prog.append([i, "chunked", rng.choice([1, 2, 3, max(1, n), n + 1]), cols])
    if not any(u[1] == "read" and u[2] is None for u in prog) and rng.random() < 0.7:
        cand = [i for i in range(len(readers)) if accepts_none(readers[i]) or computed_none_ok()]
        if cand:
            prog.insert(rng.randrange(len(prog)), [rng.choice(cand), "read", None])
    return {"kind": "shared", "srcs": srcs, "readers": readers, "prog": prog}


def run_impl_shared(case, work):
    """-> (observations, caller's frames afterwards (canonical), pristine copies (canonical), files changed?)
    observation = ('names', [..]) | ('frame', canon, k|None) | ('frames', [canon..]) | ('raise', text)"""
    with warnings.catch_warnings():
        warnings.simplefilter("ignore")
        frames = [make_df(s_["names"], s_["types"], s_["rows"], s_["index"], s_["obj"]) for s_ in case["srcs"]]
        pristine = [canon_df(make_df(s_["names"], s_["types"], s_["rows"], s_["index"], s_["obj"]))
                    for s_ in case["srcs"]]
        try:
            readers = [build_reader(t_, work, frames) for t_ in case["readers"]]
        except Exception as e:
            raise RuntimeError(f"fixture construction failed: {e!r}")
        files = []
        for rd in readers:
            stack = [rd]
            while stack:
                x = stack.pop()
                if hasattr(x, "file_name"):
                    files.append(Path(x.file_name))
                for attr in ("reader",):
                    if hasattr(x, attr):
                        stack.append(getattr(x, attr))
                if hasattr(x, "readers"):
                    stack.extend(x.readers)
        before = [f.read_bytes() for f in files]
        obs = []
        for u in case["prog"]:
            rd = readers[u[0]]
            try:
                if u[1] == "names":
                    obs.append(("names", [str(x) for x in rd.get_column_names()]))
                elif u[1] == "read":
                    df = rd.read(u[2])
                    who = [k for k, f in enumerate(frames) if f is df]
                    obs.append(("frame", canon_df(df), who[0] if who else None))
                else:
                    obs.append(("frames", [canon_df(ch) for ch in rd.get_chunked_data_iterator(u[2], u[3])]))
            except Exception as e:
                obs.append(("raise", f"{type(e).__name__}: {e}"[:200]))
        after = []
        for f in frames:
            try:
                after.append(canon_df(f))
            except Exception as e:
                after.append(("?", f"{type(e).__name__}: {e}"[:200]))
        files_changed = [str(f.suffix) for f, b in zip(files, before) if f.read_bytes() != b]
    return obs, after, pristine, files_changed


def shared_spec_verdict(case, impl):
    """None | (signature, clause, step).  Every call must observe what the property promises about the table the
    reader denotes over the frames AS THEY WERE HANDED IN; the caller's frames and the files must be what they were."""
    obs, after, pristine, files_changed = impl
    for k, (u, o) in enumerate(zip(case["prog"], obs)):
        tree = case["readers"][u[0]]
        shape = shape_of(tree)
        names = table_of(tree)[0]
        cols = None if u[1] == "names" else u[-1]
        if o[0] == "raise":
            if cols is None and u[1] != "names" and not accepts_none(tree):
                return (NONE_SIG, NONE_CLAUSE + ": " + o[1][:160], k)
            return (f"shared-source:exception:{u[1]}",
                    f"call {k} ({u[1]} on {shape}) raised on a well-formed request: {o[1]}", k)
        if u[1] == "names":
            if o[1] != names:
                return ("shared-source:names", f"call {k} on {shape}: get_column_names() is {o[1]}, the table's "
                        f"columns are {names}", k)
            continue
        exp = expected_select(tree, cols)
        if u[1] == "read":
            if o[1] != exp:
                return ("shared-source:read",
                        f"call {k} on {shape}: read({cols}) is not the table restricted to the requested columns (after "
                        f"{k} earlier calls on reader objects over the same frames)", k)
        else:
            cat_rows = [r for ch in o[1] for r in ch[1]]
            if cat_rows != exp[1] or any(ch[0] != exp[0] for ch in o[1]):
                return ("shared-source:chunks",
                        f"call {k} on {shape}: the chunks of get_chunked_data_iterator({u[2]}, {cols}) do not concatenate to the "
                        f"table restricted to the requested columns (after {k} earlier calls)", k)
    for j, (a, b) in enumerate(zip(after, pristine)):
        if a != b:
            shapes = sorted({shape_of(t_) for t_ in case["readers"] if j in _src_leaves(t_)})
            return ("shared-source:caller-frame-changed",
                    f"the caller's frame number {j} (read through {shapes}) is no longer what was handed to "
                    f"DataFrameReader: columns {a[0]} (handed in: {b[0]})", None)
    if files_changed:
        return ("shared-source:file-changed", f"reading changed the bytes of a source file ({files_changed})", None)
    return None


def shared_wire(case):
    frames = [[s_["names"], list(s_["index"]), [[Atom(cell_atom(v)) for v in r] for r in s_["rows"]]]
              for s_ in case["srcs"]]
    rds = [wire_tree(t_, shared=True) for t_ in case["readers"]]
    prog = []
    for u in case["prog"]:
        if u[1] == "names":
            prog.append([u[0], [Atom("names")]])
        elif u[1] == "read":
            prog.append([u[0], [Atom("read"), Atom("none") if u[2] is None else list(u[2])]])
        else:
            prog.append([u[0], [Atom("chunked"), u[2], Atom("none") if u[3] is None else list(u[3])]])
    return req("tab-uses", frames, rds, prog)


def parse_model_obs(v):
    if v == "raised":
        return ("raise",)
    tag = v[0]
    if tag == "names":
        return ("names", [a_str(x) for x in v[1]])
    if tag == "frame":
        return ("frame", parse_model_df(v[1]), None if v[2] == "none" else int(v[2]))
    return ("frames", [parse_model_df(x) for x in v[1]])


def eval_shared_cases(chk, cases, work, tally=True):
    resp = common.driver_batch([shared_wire(cs) for cs in cases])
    for cs, r in zip(cases, resp):
        if "bad-" in r:
            raise RuntimeError(f"driver rejected the request of case {cs}: {r}")
        model = dec(r)
        impl = run_impl_shared(cs, work)
        whole = [u for u in cs["prog"] if u[1] == "read" and u[2] is None]
        first_whole = next((k for k, u in enumerate(cs["prog"]) if u[1] == "read" and u[2] is None), None)
        if tally:
            shapes = tuple(sorted(shape_of(t_) for t_ in cs["readers"]))
            nontrivial = first_whole is not None and first_whole < len(cs["prog"]) - 1
            chk.case(None, ("shared", shapes, len(cs["srcs"][0]["rows"]), len(cs["prog"]), len(whole))
                     if nontrivial else None,
                     sample=dict(readers=list(shapes), frames_kept_by_caller=len(cs["srcs"]),
                                 rows=len(cs["srcs"][0]["rows"]), calls=[u[1] for u in cs["prog"]],
                                 whole_reads=len(whole)))
            chk.count("shared_readers_per_case", len(cs["readers"]))
            chk.count("shared_calls_after_first_whole_read",
                      "no-whole-read" if first_whole is None else min(len(cs["prog"]) - 1 - first_whole, 4))
            chk.count("shared_rename_map_reuses_old_names", any(_swap_of(t_) for t_ in cs["readers"]))
            chk.count("shared_source_read_by_several_objects",
                      any(sum(1 for t_ in cs["readers"] if j in _src_leaves(t_)) > 1 for j in range(len(cs["srcs"]))))
            chk.count("shared_file_leaves", len([f for t_ in cs["readers"] for f in _file_leaves(t_)]))
            for t_ in cs["readers"]:
                chk.count("shared_reader", shape_of(t_))
            for o in impl[0]:
                if o[0] == "frame":
                    chk.count("read_returns_the_callers_object", o[2] is not None)
        verdict = shared_spec_verdict(cs, impl)
        if verdict is not None and verdict[0] != NONE_SIG:
            sig, clause, step = verdict
            chk.spec_violation(sig, dict(case=jsonable_case(cs), clause=clause, step=step,
                                         impl=[(o[0], _short_obs(o)) for o in impl[0]],
                                         callers_frames_after=[a[0] for a in impl[1]]))
            continue
        if verdict is not None:
            chk.spec_violation(NONE_SIG, dict(case=jsonable_case(cs), clause=verdict[1], step=verdict[2]))
            if tally:
                chk.count("computed_reader_columns_None", "raises")
        # the model: observation by observation, then the caller's frames
        m_obs = [parse_model_obs(x) for x in model[0]]
        m_after = [parse_model_df(x) for x in model[1]]
        for k, (o, m) in enumerate(zip(impl[0], m_obs)):
            same = (o[0] == m[0]) and (o[0] == "raise" or o[1:] == m[1:])
            if not same:
                chk.corr_break("tab-uses", dict(case=jsonable_case(cs), step=k, impl=str(o)[:500], model=str(m)[:500]))
                break
        else:
            if m_after != impl[1]:
                chk.corr_break("tab-uses", dict(case=jsonable_case(cs), step="callers-frames",
                                                impl=str(impl[1])[:500], model=str(m_after)[:500]))


def _short_obs(o):
    if o[0] == "frame":
        return {"columns": o[1][0], "index": [r[0] for r in o[1][1]], "rows": [[c[1] for c in r[1]] for r in o[1][1]],
                "is_callers_object": o[2]}
    if o[0] == "frames":
        return [{"columns": ch[0], "index": [r[0] for r in ch[1]]} for ch in o[1]]
    return o[1]


def exhaustive_shared(plen):
    """one frame kept by the caller (2 rows, columns a, b), a second one (column d); small sets of reader objects;
    every program of `plen` calls over a fixed alphabet of calls"""
    rows = [[1, "x"], [2, "y"]]
    s0 = {"t": "frame", "names": ["a", "b"], "types": ["int", "str"], "rows": rows, "index": [0, 1], "obj": False,
          "src": 0}
    s1 = {"t": "frame", "names": ["d"], "types": ["float"], "rows": [[0.5], [1.5]], "index": [0, 1], "obj": False,
          "src": 1}
    swap = {"t": "mapped", "sub": s0, "map": {"a": "b", "b": "a"}}
    plain = {"t": "mapped", "sub": s0, "map": {"a": "x"}}
    comp = {"t": "computed", "sub": s0, "col": "k", "fn": ["affine", 10, 1]}
    join = {"t": "joined", "subs": [s0, s1]}
    sets = [[swap], [plain, s0], [comp, swap], [join, plain], [{"t": "mapped", "sub": join, "map": {"a": "d", "d": "a"}}]]
    cases = []
    for rs in sets:
        alphabet = []
        for i, t_ in enumerate(rs):
            names = table_of(t_)[0]
            alphabet += [[i, "read", None], [i, "read", [names[-1], names[0]]], [i, "chunked", 1, None],
                         [i, "chunked", 2, list(names)], [i, "names"]]
        alphabet = [u for u in alphabet if not (u[-1] is None and u[1] != "names"
                                                and not (accepts_none(rs[u[0]]) or computed_none_ok()))]
        for prog in itertools.product(alphabet, repeat=plen):
            if not any(u[1] == "read" and u[2] is None for u in prog[:-1]):
                continue
            cases.append({"kind": "shared", "srcs": [s0, s1], "readers": rs, "prog": [list(u) for u in prog]})
    return cases


# ----------------------------------------------------------------------------------------------------------
# out-of-domain requests: tallied, never a verdict
# ----------------------------------------------------------------------------------------------------------
def rejected_requests(chk, rng, work, n):
    """requests outside the property's quantifier (chunk size 0, a column that does not exist): the property promises
    nothing, but the model says which of them the code refuses (`none`) — second pass: that is compared (a reader
    that starts to answer such a request, or to refuse one it answered, no longer is the modelled code)"""
    reqs = []
    for _ in range(n):
        if rng.random() < 0.5:
            tree = gen_base(rng, rng.choice(["csv", "pq", "frame"]), rng.sample(NAME_POOL, rng.choice([1, 2, 3])),
                            rng.choice([0, 1, 3]))
        else:
            tree = gen_tree(rng, 4, allow_pidx=False)
        names = table_of(tree)[0]
        what = rng.choice(["chunk_size=0", "unknown-column:read", "unknown-column:read", "unknown-column:chunked",
                           "unknown-column-only:chunked"])
        c = rng.choice([1, 2, 5])
        if what == "chunk_size=0":
            cols = None if accepts_none(tree) and rng.random() < 0.5 else rng.sample(names, rng.randint(1, len(names)))
            if tree["t"] == "computed" and tree["fn"][0] == "addcol" and tree["fn"][1] not in cols:
                cols.append(tree["fn"][1])
            c = 0
        elif what == "unknown-column-only:chunked":
            cols = ["zz"]
        else:
            cols = rng.sample(names, rng.randint(0, len(names)))
            cols.insert(rng.randrange(len(cols) + 1), "zz")
        reqs.append((tree, what, c, cols))
    lines = []
    for tree, what, c, cols in reqs:
        w = wire_tree(tree)
        wc = Atom("none") if cols is None else list(cols)
        lines.append(req("tab-read", w, wc) if what.endswith(":read") else req("tab-chunked", w, c, wc))
    resp = common.driver_batch(lines)
    for (tree, what, c, cols), r in zip(reqs, resp):
        if "bad-" in r:
            raise RuntimeError(f"driver rejected the request {what} on {tree}: {r}")
        model_rejects = dec(r) == "reject"
        with warnings.catch_warnings():
            warnings.simplefilter("ignore")
            rd = build_reader(tree, work)
            try:
                if what.endswith(":read"):
                    rd.read(cols)
                else:
                    list(rd.get_chunked_data_iterator(c, cols))
                raised = None
            except Exception as e:
                raised = type(e).__name__
        kind = f"{what}:{shape_of(tree).split('(')[0]}:rows{'=0' if n_rows(tree) == 0 else '>0'}"
        if raised is not None:
            chk.reject(f"{what}:{raised}")
        else:
            chk.count("out_of_domain_accepted", kind)
        if (raised is not None) != model_rejects:
            chk.corr_break("tab-reject", dict(case=dict(kind="reject", tree=jsonable_case(tree), what=what, c=c,
                                                        cols=cols),
                                              impl=f"raises {raised}" if raised else "answers",
                                              model="reject" if model_rejects else "answers"))


# ----------------------------------------------------------------------------------------------------------
# third pass: the trusted value domain, probed on every run (informational: tallied, never a verdict)
# ----------------------------------------------------------------------------------------------------------
def trusted_domain_probes(chk, work):
    """Three behaviours of the unchanged code that lie outside the generated value domain (DESIGN: trusted / not
    modelled) are observed on fixed inputs on every run and written to the evidence, so that they stay visible:
    per-chunk type inference of text files without `text_columns`, the 1-ULP float parse of `pd.read_csv`, and the
    Records buffer kind refusing several records in one append."""
    from mokapot.tabular_data import TableType, TabularDataReader, TabularDataWriter

    out = {}
    with warnings.catch_warnings():
        warnings.simplefilter("ignore")
        p = work.path(".csv")
        p.write_text("a\n1\n2\nz\n3\n")
        for label, kw in (("without-text_columns", {}), ("with-text_columns", {"text_columns": ["a"]})):
            r = TabularDataReader.from_path(p, **kw)
            whole = [cell_atom(v) for v in r.read()["a"].tolist()]
            cat = [cell_atom(v) for ch in r.get_chunked_data_iterator(2) for v in ch["a"].tolist()]
            verdict = "chunks-equal-read" if whole == cat else "chunks-differ-from-read"
            chk.count("trusted_domain_probe", f"mixed-text-column:{label}:{verdict}")
            out[f"text column [1,2,z,3], chunk size 2, {label}"] = dict(read=whole, chunks=cat)
        vals = np.random.default_rng(0).standard_normal(4000) * 10.0 ** np.random.default_rng(1).integers(-30, 30, 4000)
        p2 = work.path(".csv")
        w = TabularDataWriter.from_suffix(p2, ["x"])
        w.write(pd.DataFrame({"x": vals}))
        back = w.get_associated_reader().read()["x"].to_numpy()
        off = int((back != vals).sum())
        worst = float(np.max(np.abs(back - vals) / np.spacing(np.abs(vals)))) if off else 0.0
        chk.count("trusted_domain_probe", "text-float-roundtrip:" + ("exact" if off == 0 else "off-by-at-most-%g-ulp" % worst))
        out["4000 float64 values spread over 1e-30..1e30 written as text and read back"] = dict(changed=off, worst_ulp=worst)
        p3 = work.path(".csv")
        w3 = TabularDataWriter.from_suffix(p3, ["a", "b"], buffer_size=4, buffer_type=TableType.Records)
        recs = pd.DataFrame({"a": [1, 2], "b": [0.5, 1.5]}).to_records(index=False)
        try:
            with w3:
                w3.append_data(recs)
            got = w3.get_associated_reader().read()
            res = "accepted:" + ("rows-kept" if got["a"].tolist() == [1, 2] else "rows-changed")
        except Exception as e:
            res = "refused:" + type(e).__name__
        chk.count("trusted_domain_probe", "records-buffer-several-records-in-one-append:" + res)
        out["Records buffer, one append of a recarray with 2 records"] = res
    chk.extra["trusted_domain_probes"] = out


# ----------------------------------------------------------------------------------------------------------
# exhaustive small scope
# ----------------------------------------------------------------------------------------------------------
def exhaustive_readers(nmax):
    cases = []
    sels = [None, [], ["a"], ["b"], ["a", "b"], ["b", "a"]]
    for n in range(0, nmax + 1):
        rows = [[10 + i, f"s{i}"] for i in range(n)]
        bases = [{"t": "csv", "names": ["a", "b"], "types": ["int", "str"], "rows": rows, "suffix": ".csv"},
                 {"t": "frame", "names": ["a", "b"], "types": ["int", "str"], "rows": rows,
                  "index": list(range(n)), "obj": False},
                 {"t": "frame", "names": ["a", "b"], "types": ["int", "str"], "rows": rows,
                  "index": [3 * i + 1 for i in reversed(range(n))], "obj": True}]
        for rg in range(1, max(1, n) + 1):
            bases.append({"t": "pq", "names": ["a", "b"], "types": ["int", "str"], "rows": rows, "rg": rg})
        trees = list(bases)
        trees += [{"t": "mapped", "sub": b, "map": {"a": "A", "q": "r"}, "via_from_path": True} for b in bases[:2]]
        # joined: column a from one reader, column b from another, all kind pairs
        singles = []
        for kind in ("csv", "pq", "frame"):
            for j, (nm, ty) in enumerate((("a", "int"), ("b", "str"))):
                d = {"t": kind, "names": [nm], "types": [ty], "rows": [[r[j]] for r in rows]}
                if kind == "pq":
                    d["rg"] = 2
                if kind == "frame":
                    d["index"] = list(range(n))
                    d["obj"] = False
                if kind == "csv":
                    d["suffix"] = ".tab"
                singles.append(d)
        for x in singles[0::2]:
            for y in singles[1::2]:
                trees.append({"t": "joined", "subs": [x, y]})
        trees.append({"t": "joined", "subs": [bases[0]]})
        for t in trees:
            for c in range(1, n + 2):
                for sel in sels:
                    s2 = sel
                    if s2 is not None and t["t"] == "mapped":
                        s2 = [{"a": "A"}.get(x, x) for x in s2]
                    cases.append({"kind": "reader", "tree": t, "c": c, "cols": s2})
        for b in (bases[0], bases[1], bases[-1], trees[-1]):
            for c in range(1, n + 2):
                for sel in (["k"], ["k", "a"], ["b", "k", "a"], []):
                    for fn in (["affine", 10, 1], ["addcol", "a", 100]):
                        if fn[0] == "addcol" and "a" not in sel:
                            continue
                        cases.append({"kind": "reader", "tree": {"t": "computed", "sub": b, "col": "k", "fn": fn},
                                      "c": c, "cols": sel})
    return cases


def compositions(n):
    if n == 0:
        yield []
        return
    for first in range(1, n + 1):
        for rest in compositions(n - first):
            yield [first] + rest


def exhaustive_writers(nmax):
    cases = []
    for n in range(0, nmax + 1):
        rows = [[10 + i, f"s{i}", i % 2 == 0] for i in range(n)]
        for suffix in (".csv", ".parquet"):
            for bufsize in range(0, n + 2):
                kinds = KINDS if bufsize > 1 else ["dataframe"]
                for kind in kinds:
                    comps = [[1] * n] if kind == "records" else list(compositions(n))
                    for comp in comps:
                        variants = [comp]
                        if kind != "records" and n <= 3:
                            variants.append([0] + comp + [0])  # empty appends at both ends
                        for cv in variants:
                            appends, pos = [], 0
                            for k in cv:
                                part = rows[pos:pos + k]
                                pos += k
                                a = {"dataframe": "frame", "dicts": "dict" if k == 1 else "dicts",
                                     "records": "record"}[kind]
                                appends.append({"a": a, "rows": part})
                            cases.append({"kind": "writer", "suffix": suffix, "names": ["a", "b", "c"],
                                          "types": ["int", "str", "bool"], "bufsize": bufsize, "bkind": kind,
                                          "appends": appends, "stale": "same-header" if n % 2 else "none",
                                          "read_c": 2})
    return cases


# ----------------------------------------------------------------------------------------------------------
# shrinking
# ----------------------------------------------------------------------------------------------------------
def minimise(chk, work):
    # (the first violation other than the refusal of columns=None is moved to the front and shrunk)
    for k_, (sig_, _) in enumerate(chk.spec_violations):
        if sig_ != NONE_SIG:
            chk.spec_violations.insert(0, chk.spec_violations.pop(k_))
            break
    else:
        return
    sig, info = chk.spec_violations[0]
    case = info.get("case")
    if not case:
        return
    try:
        if case["kind"] == "reader":
            n = n_rows(case["tree"])

            def fails(keep):
                c2 = dict(case, tree=keep_rows(case["tree"], keep))
                v = reader_spec_verdict(c2, run_impl_reader(c2, work))
                return v is not None and v[0] == sig

            keep = common.shrink_list(list(range(n)), fails, min_len=0)
            small = dict(case, tree=keep_rows(case["tree"], keep))
            for c in range(1, case["c"]):
                c3 = dict(small, c=c)
                v = reader_spec_verdict(c3, run_impl_reader(c3, work))
                if v is not None and v[0] == sig:
                    small = c3
                    break
            impl = run_impl_reader(small, work)
            v = reader_spec_verdict(small, impl)
            if v is not None and v[0] == sig:
                chk.spec_violations[0] = (sig, dict(case=jsonable_case(small), clause=v[1], impl=_short(impl),
                                                    expected=_short(("ok", v[2], None)), shrunk_from_rows=n))
        elif case["kind"] == "write1":
            def fails(rows):
                c2 = dict(case, rows=rows)
                v = write1_spec_verdict(c2, run_impl_write1(c2, work))
                return v is not None and v[0] == sig

            if case.get("perm"):
                return
            small = dict(case, rows=common.shrink_list(case["rows"], fails, min_len=0))
            impl = run_impl_write1(small, work)
            v = write1_spec_verdict(small, impl)
            if v is not None and v[0] == sig:
                chk.spec_violations[0] = (sig, dict(case=jsonable_case(small), clause=v[1],
                                                    impl=_short(impl[:3]) if impl[0] == "ok" else _short(impl),
                                                    expected=_short(("ok", v[2], None)),
                                                    shrunk_from_rows=len(case["rows"])))
        elif case["kind"] in ("calls", "shared"):
            return
        elif case["kind"] == "auto":
            def fails(steps):
                c2 = dict(case, steps=steps)
                v = auto_classify(c2, run_impl_auto(c2, work), work)
                return v is not None and v[0] == sig

            small = dict(case, steps=common.shrink_list(case["steps"], fails, min_len=0))
            impl = run_impl_auto(small, work)
            v = auto_classify(small, impl, work)
            if v is not None and v[0] == sig:
                info_ = dict(case=jsonable_case(small), clause=v[1], shrunk_from_steps=len(case["steps"]))
                if impl[0] == "ok" and v[2] is not None:
                    info_["writer"] = v[2]
                    info_["impl"] = _short(("ok", impl[1][v[2]][0], impl[1][v[2]][1]))
                    info_["expected"] = _short(("ok", v[3], None))
                else:
                    info_["impl"] = _short(impl)
                chk.spec_violations[0] = (sig, info_)
        else:
            def fails(apps):
                c2 = dict(case, appends=apps, perm=None)
                v = writer_spec_verdict(c2, run_impl_writer(c2, work))
                return v is not None and v[0] == sig

            if case.get("perm") or case.get("bperm"):
                return
            apps = common.shrink_list(case["appends"], fails, min_len=0)
            small = dict(case, appends=apps)
            impl = run_impl_writer(small, work)
            v = writer_spec_verdict(small, impl)
            if v is not None and v[0] == sig:
                chk.spec_violations[0] = (sig, dict(case=jsonable_case(small), clause=v[1],
                                                    impl=_short(impl[:3]) if impl[0] == "ok" else _short(impl),
                                                    expected=_short(("ok", v[2], None)),
                                                    shrunk_from_appends=len(case["appends"])))
    except Exception:
        import traceback

        traceback.print_exc()


# ----------------------------------------------------------------------------------------------------------
# entry points
# ----------------------------------------------------------------------------------------------------------
def corpus_cases():
    p = common.VERIF / "harness" / "corpus" / "C13.json"
    if p.exists():
        return json.loads(p.read_text())
    return []


def run_cases(chk, cases, work, tally=True, batch=1500):
    if os.environ.get("VERIF_C13_TIMING"):
        import time as _t
        for kind in ("reader", "writer", "write1", "auto", "calls", "shared"):
            sub = [c for c in cases if c["kind"] == kind]
            t0 = _t.time()
            _run_cases(chk, sub, work, tally, batch)
            print(f"[timing] {kind}: {len(sub)} cases {_t.time() - t0:.1f}s")
        return
    _run_cases(chk, cases, work, tally, batch)


def _run_cases(chk, cases, work, tally=True, batch=1500):
    rd = [c for c in cases if c["kind"] == "reader"]
    wr = [c for c in cases if c["kind"] == "writer"]
    for i in range(0, len(rd), batch):
        eval_reader_cases(chk, rd[i:i + batch], work, tally)
    for i in range(0, len(wr), batch):
        eval_writer_cases(chk, wr[i:i + batch], work, tally)
    w1 = [c for c in cases if c["kind"] == "write1"]
    au = [c for c in cases if c["kind"] == "auto"]
    for i in range(0, len(w1), batch):
        eval_write1_cases(chk, w1[i:i + batch], work, tally)
    for i in range(0, len(au), batch):
        eval_auto_cases(chk, au[i:i + batch], work, tally)
    cl = [c for c in cases if c["kind"] == "calls"]
    for i in range(0, len(cl), batch):
        eval_calls_cases(chk, cl[i:i + batch], work, tally)
    sh = [c for c in cases if c["kind"] == "shared"]
    for i in range(0, len(sh), batch):
        eval_shared_cases(chk, sh[i:i + batch], work, tally)


def search(chk):
    """failing-input search used when a proof or the correspondence is broken"""
    work = Work()
    try:
        rng = chk.rng
        cases = [gen_reader_case(rng, 8) for _ in range(1500 * chk.budget_mult // 5)]
        cases += [gen_writer_case(rng, 8) for _ in range(1000 * chk.budget_mult // 5)]
        cases += [gen_write1_case(rng, 8) for _ in range(400 * chk.budget_mult // 5)]
        cases += [gen_auto_case(rng, 8) for _ in range(800 * chk.budget_mult // 5)]
        cases += [gen_calls_case(rng, 8) for _ in range(800 * chk.budget_mult // 5)]
        cases += [gen_shared_case(rng) for _ in range(800 * chk.budget_mult // 5)]
        run_cases(chk, cases, work)
        if not [v for v in chk.spec_violations if v[0] != NONE_SIG]:
            run_cases(chk, exhaustive_readers(4) + exhaustive_writers(4) + exhaustive_write1(3) + exhaustive_auto(4)
                      + exhaustive_calls(3) + exhaustive_shared(3), work)
        minimise(chk, work)
    finally:
        work.close()


def main(chk, args):
    build = common.build_and_audit("C13")
    if not build.driver_ok:
        chk.finish(build, RULE)
    rng = chk.rng
    work = Work()
    try:
        run_cases(chk, corpus_cases(), work)
        quick = chk.tier == "quick"
        cases = [gen_reader_case(rng) for _ in range(830 if quick else 9000)]
        cases += [gen_writer_case(rng) for _ in range(470 if quick else 5000)]
        cases += [gen_write1_case(rng) for _ in range(80 if quick else 1200)]
        cases += [gen_auto_case(rng) for _ in range(90 if quick else 2200)]
        cases += [gen_calls_case(rng) for _ in range(100 if quick else 2500)]
        cases += [gen_shared_case(rng) for _ in range(140 if quick else 2000)]
        for _ in range(3 if quick else 40):
            cases.append(gen_reader_case(rng, force_n=rng.choice([150, 257, 400] if quick else
                                                                 [150, 257, 400, 1000, 2500, 5000])))
        bigs = [(1203, 1000, "dicts"), (300, 64, "dataframe")] if quick else \
            [(1203, 1000, "dicts"), (2500, 1000, "dicts"), (300, 64, "dataframe"), (1000, 7, "records"),
             (2000, 1000, "dataframe"), (999, 1000, "dicts"), (1000, 1000, "records"), (3001, 1000, "dataframe")]
        cases += [gen_writer_case(rng, big=b) for b in bigs]
        run_cases(chk, cases, work)
        rejected_requests(chk, rng, work, 70 if quick else 600)
        trusted_domain_probes(chk, work)
        ex = exhaustive_readers(2 if quick else 5) + exhaustive_writers(3 if quick else 5)
        ex += exhaustive_write1(2 if quick else 4) + (exhaustive_auto(2, 3) if quick else exhaustive_auto(5))
        ex += exhaustive_calls(2 if quick else 4)
        ex += exhaustive_shared(2 if quick else 3)
        run_cases(chk, ex, work)
        chk.extra["exhaustive_sweep"] = (
            f"{len(ex)} cases: rows 0..{2 if quick else 5} x chunk sizes 1..n+1 x (text, Parquet with every "
            "row-group size 1..n, in-memory frame with default and with permuted index, renamed, joined pairs of all "
            "base kinds, computed column) x selections None/[]/[a]/[b]/[a,b]/[b,a]; writers: rows "
            f"0..{3 if quick else 5} x both suffixes x buffer sizes 0..n+1 x 3 buffer kinds x all compositions of "
            "the rows into appends (with empty appends added for n<=3); one-shot write(data): rows "
            f"0..{2 if quick else 4} x both suffixes x buffer sizes 0/2/n+1 x stale file kinds; auto_finalize: {3 if quick else 4} writer "
            f"pairs x every program of <= {2 if quick else 5} one-row appends to either or both writers; programs of "
            f"calls: 4 object sets (two text objects unbuffered+buffered, one Parquet object) x every sequence of <= "
            f"{2 if quick else 4} episodes over an alphabet of 3-5 episodes (write, runs initialised by one object and "
            "continued by others)")
        minimise(chk, work)
    finally:
        work.close()
    chk.extra["csv_value_domain"] = {
        "string_cells_used_in_text_files": CSV_SAFE_STR,
        "excluded_because_pandas_csv_inference_changes_them": CSV_EXCLUDED,
        "numbers": "int64 values; finite float64 values (repr round-trips through to_csv/read_csv exactly); no NaN",
    }
    lc = common.leanchecker("C13") if chk.tier == "thorough" else None
    chk.assumptions += [
        "pandas read_csv/to_csv round-trip the generated cell values exactly and infer the same dtype for a chunk "
        "and for the whole column (string cells are restricted to the listed safe values; excluded values are listed)",
        "pyarrow ParquetFile.iter_batches(batch_size=c) fills every batch but the last across row-group boundaries "
        "(hypothesis IsChunking of theorem C13_parquet_reader_full_batches, needed only for chunk alignment in the joined reader; the index is right for any batching by C13_parquet_reader_any_batching; checked here for every row-group size)",
        "pd.concat(axis=1) is modelled only for frames with identical row index (the joined reader over one table); "
        "other outer joins are outside the model",
        "computed-column functions are the three families const / a*index+b / column+a*index",
        "a text file is parsed with the separator it was written with (reading with another separator is outside the "
        "model: csvReaderSep gives none); cells containing the separator rely on pandas' CSV quoting",
        "when the block under auto_finalize raises, the state of the files is not modelled (runAuto = none)",
        "buffered appends whose columns / dict keys come in another order than the writer's are matched by name by "
        "pandas (pd.concat, pd.DataFrame(list_of_dicts)); the Lean buffer is positional and exact on rows in writer "
        "order only (ArgWF), so these cases are judged by the Python restatement of the specification alone",
        "several writer objects for one file are modelled with a shared storage; for Parquet the open ParquetWriter "
        "belongs to one object, so programs over Parquet files use one object (a second object's append_data raises "
        "AttributeError in the code, not in the model)",
        "a Parquet file with a stored pandas index has no counterpart in the Lean PqFile (rows labelled 0..n-1): such "
        "fixtures are judged by the specification (two consistent views accepted) and compared with the model only "
        "when the implementation labels the rows 0..n-1 over the data columns",
    ]
    chk.assumptions += [
        "objects (third pass, Model/TabularShared.lean): a chunk (df.iloc[a:b], parser / Arrow output), df[columns], "
        "df.rename(inplace=False), pd.concat and df.assign build new frame objects and, pandas >= 3 being "
        "copy-on-write, writing into one of them never reaches the frame it was taken from; only "
        "DataFrameReader.read(None) hands out the caller's object (compared on every read: `result is frame`)",
        "the computed-column reader is wired as " + ("computedReaderP, the class since c6f4cd0 (the code under test "
                                                    "accepts columns=None)" if computed_none_ok() else
                                                    "computedReader, the class before c6f4cd0 (columns=None raises: "
                                                    "spec violation computed-reader-columns-none)"),
        "text files: a column not declared in text_columns= is type-inferred by pandas per chunk, and float cells are "
        "parsed by pandas' default (not round-trip) parser — both outside the generated value domain; their "
        "behaviour on fixed inputs is recorded under trusted_domain_probes on every run",
    ]
    chk.finish(build, RULE, search=search, lc=lc,
               trusted_extra=["pandas read_csv/to_csv/concat/iloc/rename, pyarrow Parquet read/write/iter_batches, "
                              "numpy recarray append, typeguard"])


def replay(chk, path):
    info = json.loads(open(path).read())
    if "case" not in info:
        print(json.dumps(info, indent=1)[:3000])
        return 0
    common.build_and_audit("C13")
    work = Work()
    try:
        run_cases(chk, [info["case"]], work)
    finally:
        work.close()
    for sig, i in chk.spec_violations:
        print("REPRODUCED", sig, json.dumps(i, default=str)[:2000])
    for op, i in chk.corr_breaks:
        print("CORRESPONDENCE-BREAK", op, json.dumps(i, default=str)[:2000])
    return 1 if chk.spec_violations else 0
