"""C14, third pass: `merge_sort(paths, score_column, text_columns)` — identifier cells of text files.

Every case is a list of score-sorted files (text with any suffix, Parquet, text-first mixed) whose rows
carry an identifier cell with a *spelling* (`007`, `1.50`, `q7`, …), a `text_columns` argument
(None, [], lists with / without the identifier column) and a value of `MERGE_SORT_CHUNK_SIZE`.
The real `mokapot.utils.merge_sort` is run in-process and compared with

* the property restated directly (every written row exactly once, non-increasing, and — where the
  identifier column is in `text_columns` or the file is Parquet — the cell exactly as written), and
* the Lean model `kmergePathsText` (driver op `mergetext`), which also says what comes out of the
  per-chunk type inference when the column is *not* listed.
"""
from __future__ import annotations

import json
from fractions import Fraction

import common
from common import req

INT_LIKE = ["007", "7", "12", "0", "00", "10", "101", "0042", "5"]
DEC_LIKE = ["1.50", "2.0", "0.125", "3.25", "10.5", "0.50"]
TEXT = ["q7", "qab", "q01", "x-1", "q1.5"]
TC_CHOICES = [None, [], ["id"], ["id", "p"], ["p", "id"], ["p"], ["id"], ["id"]]
SUFFIXES = [".csv", ".pin", ".tab", ".tsv", ".txt", ""]


def gen_case(rng, nmax=8):
    k = rng.choice([1, 1, 2, 2, 3, 4])
    how = rng.choice(["text", "text", "text", "parquet", "mixed"])
    files, n = [], 0
    for i in range(k):
        m = rng.randint(1, nmax)
        pool = rng.choice([INT_LIKE, INT_LIKE, INT_LIKE + DEC_LIKE, INT_LIKE + TEXT, INT_LIKE * 3 + TEXT,
                           INT_LIKE + DEC_LIKE + TEXT])
        hi = rng.randint(0, 12)
        scores = sorted((Fraction(rng.randint(-8, hi), rng.choice([1, 1, 2, 4])) for _ in range(m)), reverse=True)
        rows = []
        for s in scores:
            rows.append([s, n, rng.choice(pool)])
            n += 1
        if how == "parquet" or (how == "mixed" and i > 0 and rng.random() < 0.5):
            sfx = ".parquet"
        else:
            sfx = rng.choice(SUFFIXES)
        files.append({"sfx": sfx, "rows": rows})
    if how == "mixed" and k > 1 and rng.random() < 0.15:   # Parquet first, a text file behind it: refused
        files[0]["sfx"], files[1]["sfx"] = ".parquet", ".tsv"
    total = sum(len(f["rows"]) for f in files)
    return {"files": files, "tc": rng.choice(TC_CHOICES), "chunk": rng.randint(1, max(len(f["rows"]) for f in files) + 1),
            "floaty": rng.random() < 0.7, "total": total}


def write_files(case, where):
    import pyarrow as pa
    import pyarrow.parquet as pq

    paths = []
    floaty = case["floaty"]
    for i, f in enumerate(case["files"]):
        p = where / f"tc{i}{f['sfx']}"
        rows = f["rows"]
        sc = [float(s) if floaty else int(s * 4) for s, _, _ in rows]
        if f["sfx"] == ".parquet":
            pq.write_table(pa.table({
                "score": pa.array(sc, type=pa.float64() if floaty else pa.int64()),
                "n": pa.array([n for _, n, _ in rows], type=pa.int64()),
                "id": pa.array([t for _, _, t in rows], type=pa.string()),
                "p": pa.array([f"r{n}" for _, n, _ in rows], type=pa.string()),
            }), p)
        else:
            with open(p, "w") as fh:
                fh.write("score\tn\tid\tp\n")
                for v, (_, n, t) in zip(sc, rows):
                    fh.write(f"{v!r}\t{n}\t{t}\tr{n}\n")
        paths.append(p)
    return paths


def canon_cell(v):
    if isinstance(v, str):
        return ["s", v]
    if hasattr(v, "item"):
        v = v.item()
    if isinstance(v, bool):
        return ["?", repr(v)]
    if isinstance(v, int):
        return ["i", v]
    if isinstance(v, float):
        return ["f", Fraction(v)] if v == v and abs(v) != float("inf") else ["?", repr(v)]
    return ["?", repr(v)]


def run_impl(case):
    import mokapot.utils as U
    from c14 import tmpdir

    paths = write_files(case, tmpdir())
    old = U.MERGE_SORT_CHUNK_SIZE
    try:
        U.MERGE_SORT_CHUNK_SIZE = case["chunk"]
        try:
            if case["tc"] is None and case.get("omit"):
                it = U.merge_sort(paths, "score")
            else:
                it = U.merge_sort(paths, "score", case["tc"])
            rows = list(it)
        except Exception as e:  # noqa: BLE001
            return {"exc": type(e).__name__, "msg": str(e)[:200]}
    finally:
        U.MERGE_SORT_CHUNK_SIZE = old
    out = []
    for r in rows:
        s = r["score"]
        s = s.item() if hasattr(s, "item") else s
        out.append([Fraction(s) if case["floaty"] else Fraction(int(s), 4), int(r["n"]), canon_cell(r["id"]),
                    canon_cell(r["p"]), list(r.keys())])
    return {"rows": out}


def jsonable(case):
    d = dict(case)
    d["files"] = [{"sfx": f["sfx"], "rows": [[str(s), n, t] for s, n, t in f["rows"]]} for f in case["files"]]
    return d


def from_json(d):
    c = dict(d)
    c["files"] = [{"sfx": f["sfx"], "rows": [[Fraction(s), n, t] for s, n, t in f["rows"]]} for f in d["files"]]
    return c


def model_line(case):
    tc = common.Atom("none") if case["tc"] is None else list(case["tc"])
    return req("mergetext", tc, "id", case["chunk"], [f["sfx"] for f in case["files"]],
               [[[s, n, t] for s, n, t in f["rows"]] for f in case["files"]])


def parse_model(line):
    v = common.dec(line)
    if isinstance(v, str):
        return v
    out = []
    for s, n, cell in v:
        kind = cell[0]
        val = {"s": common.a_str, "i": common.a_int, "f": common.a_rat}[kind](cell[1])
        out.append([common.a_rat(s), int(n), [kind, val]])
    return out


def classify(chk, case, r, line, tally=True):
    model = parse_model(line)
    tc = case["tc"]
    active = bool(tc) and "id" in tc
    info = {"case": {"text_columns_case": jsonable(case)}, "clause": "every input row exactly once, unmodified"}
    if tally:
        chk.count("text_columns", "none" if tc is None else ("empty" if not tc else ("with-id" if active else "other-columns")))
        chk.count("text_columns_files", "parquet" if all(f["sfx"] == ".parquet" for f in case["files"]) else
                  ("text" if all(f["sfx"] != ".parquet" for f in case["files"]) else "mixed"))
    written = {n: (s, t) for f in case["files"] for s, n, t in f["rows"]}
    parquet_rows = {n for f in case["files"] if f["sfx"] == ".parquet" for _, n, _ in f["rows"]}
    if "exc" in r:
        if model == "reject-empty":
            chk.reject("text_columns:" + r["exc"])
            return
        chk.spec_violation("exception:merge_sort-text_columns:" + r["exc"], dict(info, impl=r, expected="rows"))
        return
    rows = r["rows"]
    key = None
    # -- the property, restated ------------------------------------------------------------------
    got = sorted((s, n) for s, n, _, _, _ in rows)
    want = sorted((s, n) for n, (s, _) in written.items())
    if got != want:
        chk.spec_violation("text_columns:fail-perm", dict(info, impl=str(rows)[:800], expected=str(want)[:800]))
        return
    if any(rows[i][0] < rows[i + 1][0] for i in range(len(rows) - 1)):
        chk.spec_violation("text_columns:fail-sorted", dict(info, impl=str(rows)[:800], expected="non-increasing"))
        return
    for s, n, cell, pcell, names in rows:
        if names != ["score", "n", "id", "p"] or pcell != ["s", f"r{n}"]:
            chk.spec_violation("text_columns:row-modified", dict(info, impl=str((s, n, cell, pcell, names)),
                                                                 expected=f"p = 'r{n}', columns score n id p"))
            return
        if (active or n in parquet_rows) and cell != ["s", written[n][1]]:
            chk.spec_violation("text_columns:respelled", dict(
                info, impl=f"row n={n}: id cell {cell!r}", expected=f"the text {written[n][1]!r} as written",
                clause="unmodified: an identifier cell listed in text_columns (or stored as a string in Parquet) "
                       "stays the text it is"))
            return
    # -- the model -------------------------------------------------------------------------------
    impl_rows = [[s, n, cell] for s, n, cell, _, _ in rows]
    if model != impl_rows:
        chk.corr_break("mergetext", dict(info, impl=str(impl_rows)[:800], model=str(model)[:800]))
        return
    respelled = sum(1 for s, n, cell in impl_rows if cell[0] != "s")
    if tally:
        chk.count("text_columns_cells", "some re-read as numbers" if respelled else "all text")
    if len(rows) > 1:
        key = ("tc", tuple(tc) if tc is not None else None, case["chunk"], tuple(f["sfx"] for f in case["files"]),
               tuple(t for f in case["files"] for _, _, t in f["rows"]))
    chk.case(None, key, sample={"text_columns": tc, "chunk": case["chunk"],
                                "files": [[f["sfx"], [t for _, _, t in f["rows"]]] for f in case["files"]]})


def eval_cases(chk, cases, tally=True):
    results = [run_impl(c) for c in cases]
    resp = common.driver_batch([model_line(c) for c in cases])
    for c, r, line in zip(cases, results, resp):
        classify(chk, c, r, line, tally)


def fixed_cases():
    """hand-picked: the examples of fix 3ddf4e0 (`007`, `1.50`, a chunk border between them), default argument"""
    F = Fraction
    base = [{"sfx": ".tsv", "rows": [[F(3), 0, "007"], [F(2), 1, "q7"], [F(1), 2, "1.50"]]},
            {"sfx": ".txt", "rows": [[F(5, 2), 3, "12"], [F(1, 2), 4, "0042"]]}]
    out = []
    for tc in (None, [], ["id"], ["p"], ["id", "p"]):
        for chunk in (1, 2, 3, 4):
            out.append({"files": base, "tc": tc, "chunk": chunk, "floaty": True, "total": 5})
    out.append({"files": base, "tc": None, "omit": True, "chunk": 1, "floaty": True, "total": 5})
    pq_ = [dict(f, sfx=".parquet") for f in base]
    out.append({"files": pq_, "tc": ["id"], "chunk": 2, "floaty": True, "total": 5})
    out.append({"files": pq_, "tc": None, "chunk": 1, "floaty": False, "total": 5})
    out.append({"files": [base[0], pq_[1]], "tc": ["id"], "chunk": 1, "floaty": True, "total": 5})
    return out


def run(chk, quick=True):
    rng = chk.rng
    cases = fixed_cases() + [gen_case(rng) for _ in range(350 if quick else 12000)]
    eval_cases(chk, cases)
    chk.extra["text_columns"] = (
        f"{len(cases)} merge_sort calls with the text_columns argument (None / [] / with / without the identifier "
        "column) over text, Parquet and text-first mixed path lists, identifier spellings 007 / 1.50 / q7, "
        "MERGE_SORT_CHUNK_SIZE 1..len+1: compared with the restated property and with kmergePathsText (op mergetext)")


def replay_case(chk, d):
    eval_cases(chk, [from_json(d)], tally=False)
