"""C16 — protein grouping is a maximal-subset grouping with a consistent peptide map
(correspondence harness).

Implementation side: the real `mokapot.read_fasta` on real FASTA text (and the real
`mokapot.digest` to learn each entry's peptide set); observed at
`.peptide_map / .shared_peptides / .protein_map` (and `.has_decoys`).
Model side: driver op `group` (Lean model of read_fasta/_group_proteins), `gspec`
(the declarative characterisation evaluated directly), `gwf` (well-formedness).

Extension (GAPS-C16.md):
* `groupseq` — the model from the parsed (name, sequence) entries on: Lean digest model of C17 +
  grouping + the code's decoy test by prefix.  The peptide sets it derives are an oracle that is
  independent of mokapot (they must equal the ones `mokapot.digest` gives), and the result of the
  real `read_fasta` is compared with it.
* `gdirect` / `gdspec` / `gdwf` — the anchored `_group_proteins(proteins, peptides)` called
  directly on dicts in arbitrary insertion order: both return values (`grouped`, the mutated
  `peptides`) against the spec and the model.
* input forms of `read_fasta`: compiled-regex enzyme, str / list / tuple / Path file argument,
  keyword arguments omitted where the documented default is meant.

Second extension (GAPS-C16.md, "Second pass"):
* `grender` / `gdrender` — the *strings* the code hands out (`", "`-joined group names, `"; "`-joined
  **sorted** values of shared peptides) are compared verbatim with the model's rendering, and across
  PYTHONHASHSEEDs the raw strings (not only their split, set-wise form) must be identical
  (`C16_rendered_hash_independent`); `has_decoys` is compared across entry orders and hash seeds.
* repeated entries (the same name with the same sequence, e.g. overlapping FASTA files) are inside the
  property (`C16_repeated_entries_meet_spec`): the full spec check runs on the distinct proteins.
* generator: empty decoy prefix (`C16_empty_prefix_rejected`), names that differ from the prefix in case
  only / equal the prefix, several digest options at once, `min_length = 0`; `Proteins.decoy_prefix`;
  the caller's `proteins` dict is not modified by `_group_proteins`.

Third extension (GAPS-C16.md, "Third pass"):
* `grouptext` — the model of read_fasta run from the raw CONTENTS of the files (reader, Lean digest, grouping, strings):
  compared verbatim, `protein_map` as an item list (key order, also `gpmorder`); files with LF / CRLF / CR line ends,
  blank lines, descriptions with `>`; `eval_text_corners`: files outside the FASTA description (correspondence only).
* `eval_callseq` — sequences of calls in ONE process that differ in a single digest option, in both orders, with
  `mokapot.digest` calls in between; every result judged against the Lean digest + model, failures confirmed in a fresh
  interpreter (`call-sequence:result-depends-on-earlier-calls`).
* entry point `PsmDataset.add_proteins(fasta, **kwargs)`; a repeated identifier with different sequences is tallied as
  outside the quantifier.
"""
from __future__ import annotations

import itertools
import json
import logging
import os
import shutil
import subprocess
import sys
import tempfile
from pathlib import Path

import common
from common import a_bool, a_str, dec, deep, req

RULE = (
    "cases = (protein/peptide incidence structure realised as FASTA sequences, entry order, names with target/"
    "decoy prefixes, digest parameters, FASTA formatting, number of files, form of the enzyme / file / keyword "
    "arguments) plus direct calls of _group_proteins on (proteins dict, peptides dict) in random insertion "
    "orders; each FASTA case is also run under "
    "permuted entry orders and other PYTHONHASHSEEDs; distinct = distinct (incidence structure in processing "
    "order, decoy pattern); non-trivial = at least two proteins with peptides and (a group with >= 2 members "
    "or a shared peptide); thorough adds the exhaustive sweep over all incidence structures with <= 4 "
    "proteins x <= 4 peptides and 5 proteins x <= 3 peptides (every protein non-empty), each under 4 entry orders"
)

AA = "ACDEFGHILMNPQSTVWY"  # no K / R: peptides are cut only where we put a K
PREFIXES = ["decoy_", "decoy_", "rev_", "DECOY-", "d", "##"]
# documented defaults of read_fasta (docstring / signature as published), written down here
# independently of the code: a keyword equal to its default may be omitted from the call
DEFAULTS = dict(enzyme="[KR]", missed_cleavages=2, clip_nterm_methionine=False, min_length=6, max_length=50,
                semi=False)
DEFAULT_PREFIX = "decoy_"
# the enzymes of the generator as (cleavage residues, blocking next residues) for the Lean digest model
ENZ = {"[KR]": ("KR", ""), "K": ("K", ""), "[KR](?!P)": ("KR", "P")}
_TMP = None


def tmpdir():
    global _TMP
    if _TMP is None:
        base = "/dev/shm" if os.path.isdir("/dev/shm") else None
        _TMP = tempfile.mkdtemp(prefix="c16-", dir=base)
    return _TMP


def cleanup():
    global _TMP
    if _TMP:
        shutil.rmtree(_TMP, ignore_errors=True)
        _TMP = None


# ----------------------------------------------------------------------------
# case generation
# ----------------------------------------------------------------------------
def pep_string(i, rng=None, body=5, lead_m=False, term="K", lead_p=False):
    """distinct peptide number i (base-18 digits over AA) ending in the cleavage residue `term`;
    `lead_p`: its first residue is P (blocks the cut before it under `[KR](?!P)`; the leading
    base-18 digit is 0 for every i used, so the strings stay distinct)"""
    s = ""
    x = i
    for _ in range(body):
        s = AA[x % len(AA)] + s
        x //= len(AA)
    if lead_p:
        s = "P" + s[1:]
    if lead_m:
        s = "M" + s
    return s + term


def gen_incidence(rng, big=False):
    n = rng.choice([1, 2, 2, 3, 3, 4, 4, 5, 6, 8] + ([10, 14, 20, 30] if big else []))
    m = rng.choice([1, 2, 3, 3, 4, 4, 5, 6, 8] + ([10, 12, 16] if big else []))
    pat = rng.choice(["random", "random", "dense", "sparse", "chain", "dups", "star", "disjoint", "empty-some"])
    rows = []
    if pat in ("random", "dense", "sparse", "empty-some"):
        p = {"random": 0.5, "dense": 0.8, "sparse": 0.25, "empty-some": 0.4}[pat]
        for _ in range(n):
            r = [j for j in range(m) if rng.random() < p]
            if not r and pat != "empty-some" and rng.random() < 0.8:
                r = [rng.randrange(m)]
            rows.append(r)
    elif pat == "chain":  # nested sets, random order
        order = list(range(m))
        rng.shuffle(order)
        for _ in range(n):
            rows.append(sorted(order[: rng.randint(1, m)]))
    elif pat == "dups":  # few distinct sets, many copies and subsets
        base = [sorted(rng.sample(range(m), rng.randint(1, m))) for _ in range(rng.randint(1, 3))]
        for _ in range(n):
            b = rng.choice(base)
            rows.append(b if rng.random() < 0.6 else sorted(rng.sample(b, rng.randint(1, len(b)))))
    elif pat == "star":  # overlapping maximal sets sharing a core peptide, plus subsets
        core = rng.randrange(m)
        for _ in range(n):
            r = {core} if rng.random() < 0.7 else set()
            r |= set(rng.sample(range(m), rng.randint(0, min(2, m))))
            rows.append(sorted(r) if r else [core])
    else:  # disjoint
        for i in range(n):
            rows.append([i % m] if rng.random() < 0.7 else sorted({i % m, (i + 1) % m}))
    return rows, m, pat


def gen_names(rng, n, prefix, allow_dups=False):
    style = rng.choice(["plain", "plain", "uniprot", "odd"])
    base = []
    for i in range(n):
        if style == "plain":
            base.append(f"P{i}")
        elif style == "uniprot":
            base.append(f"sp|Q{i:04d}|PR{i}_HUMAN")
        else:
            base.append(rng.choice(["a,b", "x;", "P", "p", "dec", "A,", ",B", "é", "Z|z", "1", "P1"]) + str(i))
    names = []
    kinds = []
    dmode = rng.choice(["none", "none", "paired", "paired", "paired", "mixed", "mixed", "mixed", "mixed", "all-decoy"])
    for i in range(n):
        if dmode == "none":
            k = "t"
        elif dmode == "all-decoy":
            k = "d" if rng.random() < 0.9 else "t"
        elif dmode == "paired":
            k = "t" if i < (n + 1) // 2 else "pd"
        else:
            k = rng.choice(["t", "t", "pd", "od", "mid", "case", "bare"])
        kinds.append(k)
    targets = []
    for i, k in enumerate(kinds):
        if k == "t":
            names.append(base[i])
            targets.append(base[i])
        elif k == "pd" and targets:
            t = targets[rng.randrange(len(targets))] if dmode != "paired" else targets[(i - (n + 1) // 2) % len(targets)]
            cand = prefix + t
            names.append(cand if cand not in names else prefix + base[i])
        elif k == "mid":  # prefix inside the name, or a proper prefix of the prefix: still a target
            names.append(rng.choice([base[i] + prefix, prefix[:-1] + base[i] if len(prefix) > 1 else "q" + base[i]]))
        elif k == "case":  # the prefix in the other letter case: `startswith` is case sensitive, still a target
            names.append(prefix.swapcase() + base[i])
        elif k == "bare":  # the name is the prefix itself (a decoy whose target would be the empty name)
            names.append(prefix if prefix and prefix not in names else prefix + base[i])
        else:
            names.append(prefix + base[i])
    if allow_dups and n >= 2:
        i, j = rng.sample(range(n), 2)
        names[j] = names[i]
    else:
        seen = set()
        for i, nm in enumerate(names):
            while nm in seen:
                nm = nm + "x"
            names[i] = nm
            seen.add(nm)
    return names, dmode, style


def gen_case(rng, big=False, allow_dups=False, repeat=False):
    rows, m, pat = gen_incidence(rng, big)
    n = len(rows)
    # the empty prefix makes every name a decoy name (read_fasta refuses the file): rarely
    prefix = "" if rng.random() < 0.02 else rng.choice(PREFIXES)
    names, dmode, nstyle = gen_names(rng, n, prefix, allow_dups)
    dg = rng.choice(["exact", "exact", "exact", "mc", "semi", "clip", "len", "default", "combo", "min0"])
    body = rng.choice([3, 5, 5, 7])
    digest = dict(enzyme="[KR]", mc=0, clip=False, minl=rng.choice([1, 2, body + 1]), maxl=50, semi=False)
    lead_m = False
    if dg == "default":  # every digest option at its documented default
        body = rng.choice([5, 5, 7])
        digest = dict(enzyme="[KR]", mc=2, clip=False, minl=6, maxl=50, semi=False)
    elif dg == "mc":
        digest["mc"] = rng.choice([1, 2])
    elif dg == "semi":
        digest["semi"] = True
        digest["minl"] = body  # keep the peptide universe small
    elif dg == "clip":
        digest["clip"] = True
        lead_m = True
        digest["minl"] = rng.choice([1, body + 1])
    elif dg == "len":
        digest["maxl"] = rng.choice([body + 1, 2 * body + 2])
        digest["mc"] = 1
    elif dg == "combo":  # several options at once (each of the modes above sets one)
        digest["mc"] = rng.choice([0, 1, 2])
        digest["clip"] = rng.random() < 0.5
        lead_m = digest["clip"]
        digest["semi"] = rng.random() < 0.4
        digest["minl"] = body if digest["semi"] else rng.choice([1, 2, body + 1])
        digest["maxl"] = rng.choice([50, 50, 2 * body + 2, body])  # `body` < every peptide: nothing is left
    elif dg == "min0":  # min_length = 0: the empty peptide of a sequence that ends in a cleavage residue
        digest["minl"] = 0
        digest["mc"] = rng.choice([0, 1])
    if dg != "default" and rng.random() < 0.15:
        digest["enzyme"] = rng.choice(["K", "[KR](?!P)"])
    # residues that tell the enzymes apart: R-terminated peptides (not cut by `K`), peptides starting
    # with P (not cut off under `[KR](?!P)`); always present when the enzyme is not the default one
    pepstyle = rng.choice(["K", "K", "KR", "P", "KRP"] if digest["enzyme"] == "[KR]" else ["KR", "P", "KRP"])
    peps = [pep_string(j, body=body, lead_m=lead_m and rng.random() < 0.5,
                       term=rng.choice("KR") if "R" in pepstyle else "K",
                       lead_p="P" in pepstyle and rng.random() < 0.4) for j in range(m)]
    entries = []
    for nm, r in zip(names, rows):
        r = list(r)
        rng.shuffle(r)
        seq = "".join(peps[j] for j in r)
        if not r and rng.random() < 0.5:
            seq = rng.choice(["", "AC", "K"])
        entries.append([nm, seq])
    if repeat and entries:  # the same protein listed again with the same sequence (overlapping FASTA files)
        for _ in range(rng.choice([1, 1, 2])):
            e = rng.choice(entries)
            entries.insert(rng.randrange(len(entries) + 1), list(e))
    fmt = dict(wrap=rng.choice([0, 0, 60, 7, 1]), desc=rng.random() < 0.4, nfiles=rng.choice([1, 1, 1, 2, 3]),
               trail=rng.random() < 0.7,
               # third pass: newline convention of the stored files, blank lines inside / between records,
               # descriptions that contain `>` and blanks
               eol=rng.choice(["lf", "lf", "lf", "crlf", "cr"]), blank=rng.random() < 0.2,
               blank_seed=rng.randrange(1 << 30))
    # forms of the call: how the enzyme, the file(s) and the keywords are handed over; `via`: the public
    # function itself or the documented second entry point `PsmDataset.add_proteins(fasta, **kwargs)`
    call = dict(enz=rng.choice(["str", "str", "compiled"]),
                files=rng.choice(["str", "str", "path", "list", "tuple"]) if fmt["nfiles"] == 1
                else rng.choice(["list", "tuple"]),
                omit=rng.random() < 0.5,
                via="add_proteins" if rng.random() < 0.12 else "read_fasta")
    return dict(entries=entries, prefix=prefix, digest=digest, fmt=fmt, pat=pat, dmode=dmode, dg=dg, nstyle=nstyle,
                call=call, pepstyle=pepstyle)


def fasta_texts(case, entries):
    """FASTA text(s) of `entries` in the formatting of the case (contiguous split into files)"""
    if case.get("texts") is not None:  # file contents given verbatim (reader corner cases)
        return list(case["texts"])
    fmt = case["fmt"]
    nf = max(1, min(fmt["nfiles"], len(entries)))
    k, r = divmod(len(entries), nf)
    chunks, pos = [], 0
    for i in range(nf):
        size = k + (1 if i < r else 0)
        chunks.append(entries[pos:pos + size])
        pos += size
    texts = []
    import random as _random

    brng = _random.Random(fmt.get("blank_seed", 0))
    for ch in chunks:
        lines = []
        for idx, (nm, seq) in enumerate(ch):
            desc = ""
            if fmt["desc"]:
                desc = f" some description {idx} OS=Homo" if not fmt.get("blank") else f" a > b  {idx}\tOS=Homo "
            lines.append(">" + nm + desc)
            w = fmt["wrap"]
            body = []
            if seq and w:
                body = [seq[i:i + w] for i in range(0, len(seq), w)]
            elif seq:
                body = [seq]
            if fmt.get("blank"):  # empty lines after the header, inside the sequence, before the next record
                for _ in range(brng.choice([0, 1, 1, 2])):
                    body.insert(brng.randrange(len(body) + 1), "")
            lines += body
        txt = "\n".join(lines)
        if fmt["trail"]:
            txt += "\n" * (brng.choice([1, 2, 3]) if fmt.get("blank") else 1)
        texts.append(txt.replace("\n", {"lf": "\n", "crlf": "\r\n", "cr": "\r"}[fmt.get("eol", "lf")]))
    return texts


def digest_kwargs(case):
    d = case["digest"]
    return dict(enzyme=d["enzyme"], missed_cleavages=d["mc"], clip_nterm_methionine=d["clip"],
                min_length=d["minl"], max_length=d["maxl"], semi=d["semi"])


# ----------------------------------------------------------------------------
# implementation side
# ----------------------------------------------------------------------------
def impl_read(case, entries, tag="a"):
    """call the real read_fasta on real files; returns the raw observables or ('exc', type, msg)"""
    import mokapot

    d = tmpdir()
    paths = []
    for i, t in enumerate(fasta_texts(case, entries)):
        p = os.path.join(d, f"{tag}{i}.fasta")
        with open(p, "w", newline="") as fh:  # the line ends of the case, untranslated
            fh.write(t)
        paths.append(p)
    call = case.get("call") or dict(enz="str", files="str" if len(paths) == 1 else "list", omit=False)
    form = call["files"]
    if len(paths) > 1 and form in ("str", "path"):
        form = "list"
    arg = {"str": paths[0], "path": Path(paths[0]), "list": list(paths), "tuple": tuple(paths)}[form]
    kw = dict(digest_kwargs(case), decoy_prefix=case["prefix"])
    if call["omit"]:  # leave out what equals the documented default
        kw = {k: v for k, v in kw.items() if v != dict(DEFAULTS, decoy_prefix=DEFAULT_PREFIX)[k]}
    if call["enz"] == "compiled" and "enzyme" in kw:
        import re

        kw["enzyme"] = re.compile(kw["enzyme"])
    try:
        if call.get("via") == "add_proteins":
            # mokapot/dataset.py:176-197: a FASTA file name and keyword arguments are handed to read_fasta and
            # the result stored; the method touches nothing else of the dataset, so a bare holder object does
            import types

            from mokapot.dataset import PsmDataset

            holder = types.SimpleNamespace()
            PsmDataset.add_proteins(holder, arg, **kw)
            pr = holder._proteins
        else:
            pr = mokapot.read_fasta(arg, **kw)
    except Exception as e:  # noqa: BLE001
        return ("exc", type(e).__name__, str(e)[:200])
    return ("ok", dict(pr.peptide_map), dict(pr.shared_peptides), dict(pr.protein_map), bool(pr.has_decoys),
            pr.decoy_prefix)


def entry_pepsets(case, entries):
    """peptide set of every entry, by the real digest (verified separately: C17)"""
    import re

    import mokapot

    d = case["digest"]
    rx = re.compile(d["enzyme"])
    out = []
    for nm, seq in entries:
        peps = mokapot.digest(seq, enzyme_regex=rx, missed_cleavages=d["mc"], clip_nterm_methionine=d["clip"],
                              min_length=d["minl"], max_length=d["maxl"], semi=d["semi"])
        out.append([nm, sorted(peps)])
    return out


def canon_impl(raw):
    """exact form: group names split into member tuples; sets where the code iterates a set"""
    _, pm, sh, dm, hd = raw[:5]
    return dict(
        unique={p: tuple(g.split(", ")) for p, g in pm.items()},
        shared={p: frozenset(tuple(g.split(", ")) for g in (s.split("; ") if s else [])) for p, s in sh.items()},
        shared_dupfree={p: len(s.split("; ")) == len(set(s.split("; "))) if s else True for p, s in sh.items()},
        pmap=dict(dm), has_decoys=hd,
    )


def setform(c):
    """order-free form: members of a group as a set"""
    return dict(
        unique={p: frozenset(g) for p, g in c["unique"].items()},
        shared={p: frozenset(frozenset(g) for g in gs) for p, gs in c["shared"].items()},
        pmap=c["pmap"],
    )


def groups_of(c):
    """groups reconstructed from the observables: member tuple -> peptide set"""
    gs = {}
    for p, g in c["unique"].items():
        gs.setdefault(g, set()).add(p)
    for p, s in c["shared"].items():
        for g in s:
            gs.setdefault(g, set()).add(p)
    return gs


def clause_check(case, pepsets, c):
    """direct re-statement of the property's clauses on the implementation's output.
    Returns the name of the first violated clause or None."""
    prot = {nm: set(ps) for nm, ps in pepsets if ps}
    allpeps = set().union(*prot.values()) if prot else set()
    gs = groups_of(c)
    for g in gs:
        if len(set(g)) != len(g) or any(mb not in prot for mb in g):
            return "group-members-are-distinct-known-proteins"
    for nm in prot:
        if not any(nm in g for g in gs):
            return "every-protein-grouped"
    for g, S in gs.items():
        if not any(prot[mb] == S for mb in g):
            return "group-set-is-a-member-set"
        if not all(prot[mb] <= S for mb in g):
            return "members-are-subsets"
        for nm, ps in prot.items():
            if ps <= S and nm not in g:
                return "group-contains-every-protein-inside-it"
    for g1, g2 in itertools.permutations(gs, 2):
        if gs[g1] <= gs[g2]:
            return "no-group-contained-in-another"
    if set(c["unique"]) & set(c["shared"]):
        return "unique-and-shared-disjoint"
    if set(c["unique"]) | set(c["shared"]) != allpeps:
        return "every-peptide-recorded"
    for p, s in c["shared"].items():
        if len(s) < 2 or not c["shared_dupfree"][p]:
            return "shared-iff-two-or-more-groups"
    exp = {nm: case["prefix"] + nm for nm in prot if not nm.startswith(case["prefix"])}
    if c["pmap"] != exp:
        return "decoy-pairing"
    if c["has_decoys"] != any(d in prot for d in exp.values()):
        return "has-decoys-flag"
    return None


# ----------------------------------------------------------------------------
# model side
# ----------------------------------------------------------------------------
def model_requests(case, pepsets):
    return [req("group", case["prefix"], 0, pepsets), req("group", case["prefix"], 1, pepsets),
            req("gspec", pepsets), req("gwf", pepsets)]


def seq_request(case, en=0):
    """`groupseq`: the model from the (name, sequence) entries on, Lean digest included"""
    d = case["digest"]
    cls, nn = ENZ[d["enzyme"]]
    return req("groupseq", case["prefix"], en, cls, nn, d["mc"], d["minl"], d["maxl"], d["clip"], d["semi"],
               [[nm, seq] for nm, seq in case["entries"]])


def parse_model(resp):
    if resp.strip() == "reject-only-decoys":
        return None
    if resp.strip() == "reject-keyerror":
        return "keyerror"
    v = dec(resp)
    if not (isinstance(v, list) and len(v) in (5, 6)):
        raise RuntimeError("driver: " + resp[:200])
    um, sh, dm, hd, gs = v[:5]
    extra = {}
    if len(v) == 6:  # groupseq: the peptide set the Lean digest model gives every entry, in entry order
        extra = dict(pepsets=[(a_str(nm), frozenset(a_str(x) for x in ps)) for nm, ps in v[5]])
    return dict(
        extra,
        unique={a_str(p): tuple(a_str(x) for x in g) for p, g in um},
        shared={a_str(p): frozenset(tuple(a_str(x) for x in g) for g in s) for p, s in sh},
        pmap={a_str(t): a_str(d) for t, d in dm},
        has_decoys=a_bool(hd),
        groups={tuple(a_str(x) for x in g): frozenset(a_str(x) for x in S) for g, S in gs},
    )


def text_request(case, entries, en=0):
    """`grouptext`: the model of read_fasta from the *contents of the files* on (reader of C18, Lean digest of
    C17, grouping, strings): its answer is compared verbatim with the attributes of the real result"""
    d = case["digest"]
    cls, nn = ENZ[d["enzyme"]]
    return req("grouptext", case["prefix"], en, cls, nn, d["mc"], d["minl"], d["maxl"], d["clip"], d["semi"],
               fasta_texts(case, entries))


def parse_text(resp):
    if resp.strip().startswith("reject-"):
        return resp.strip()
    v = dec(resp)
    if not (isinstance(v, list) and len(v) == 6):
        raise RuntimeError("driver: " + resp[:200])
    um, sh, dm, hd, gs, es = v
    return dict(unique={a_str(p): a_str(g) for p, g in um}, shared={a_str(p): a_str(g) for p, g in sh},
                pmap_items=[(a_str(t), a_str(d)) for t, d in dm], has_decoys=a_bool(hd),
                groups={a_str(g): frozenset(a_str(x) for x in S) for g, S in gs},
                entries=[[a_str(nm), a_str(seq)] for nm, seq in es])


def parse_pmorder(resp):
    return [(a_str(t), a_str(d)) for t, d in dec(resp)]


def render_request(case, pepsets, en=0):
    """`grender`: the model's result as the strings of the code (group names, sorted '; '-joined values)"""
    return req("grender", case["prefix"], en, pepsets)


def parse_render(resp):
    if resp.strip() in ("reject-only-decoys", "reject-keyerror"):
        return resp.strip()
    v = dec(resp)
    if not (isinstance(v, list) and len(v) == 5):
        raise RuntimeError("driver: " + resp[:200])
    um, sh, gs, dm, hd = v
    return dict(unique={a_str(p): a_str(g) for p, g in um}, shared={a_str(p): a_str(g) for p, g in sh},
                groups={a_str(g): frozenset(a_str(x) for x in S) for g, S in gs},
                pmap={a_str(t): a_str(d) for t, d in dm}, has_decoys=a_bool(hd))


def repeats_consistent(pepsets):
    """every name that occurs several times (with peptides) carries one peptide set"""
    seen = {}
    for nm, ps in pepsets:
        if ps and seen.setdefault(nm, frozenset(ps)) != frozenset(ps):
            return False
    return True


def distinct_entries(pepsets):
    """first occurrence of every name that has peptides, other entries as they are (restated independently of
    the model: what the FASTA 'means' when a protein is listed again with the same peptide set)"""
    out, seen = [], set()
    for nm, ps in pepsets:
        if ps and nm in seen:
            continue
        if ps:
            seen.add(nm)
        out.append([nm, ps])
    return out


def parse_spec(resp):
    v = dec(resp)
    if v == []:
        v = [[], [], []]
    um, sh, gs = v
    return dict(
        unique={a_str(p): frozenset(a_str(x) for x in g) for p, g in um},
        shared={a_str(p): frozenset(frozenset(a_str(x) for x in g) for g in s) for p, s in sh},
        groups={frozenset(a_str(x) for x in g): frozenset(a_str(x) for x in S) for g, S in gs},
    )


# ----------------------------------------------------------------------------
# other hash seeds (subprocess worker)
# ----------------------------------------------------------------------------
def jsonable_canon(c):
    s = setform(c)
    return dict(
        unique=sorted((p, sorted(g)) for p, g in s["unique"].items()),
        shared=sorted((p, sorted(sorted(g) for g in gs)) for p, gs in s["shared"].items()),
        pmap=sorted(s["pmap"].items()),
        has_decoys=c["has_decoys"],
    )


def worker():
    """stdin: JSON list of cases; stdout: JSON list of order-free outputs under this PYTHONHASHSEED"""
    logging.disable(logging.CRITICAL)
    cases = json.loads(sys.stdin.read())
    out = []
    for c in cases:
        raw = impl_read(c, c["entries"], tag=f"w{os.getpid()}-")
        if raw[0] == "exc":
            out.append(dict(exc=raw[1]))
        else:
            j = jsonable_canon(canon_impl(raw))
            j["raw_shared"] = sorted(raw[2].items())
            j["raw_unique"] = sorted(raw[1].items())
            j["key_order"] = list(raw[1]) + list(raw[2])
            out.append(j)
    cleanup()
    json.dump(out, sys.stdout)


def run_hashseed(cases, seed):
    env = dict(os.environ, PYTHONHASHSEED=str(seed))
    r = subprocess.run([sys.executable, "-W", "ignore", str(Path(__file__).resolve()), "--worker"],
                       input=json.dumps(cases), capture_output=True, text=True, env=env, timeout=900)
    if r.returncode != 0:
        raise RuntimeError("hash-seed worker failed: " + r.stderr[-800:])
    return json.loads(r.stdout)


# ----------------------------------------------------------------------------
# evaluation
# ----------------------------------------------------------------------------
def struct_key(case, pepsets):
    """incidence structure up to renaming of peptides, with the decoy pattern, in entry order"""
    idx = {}
    rows = []
    for nm, ps in pepsets:
        rows.append((tuple(sorted(idx.setdefault(p, len(idx)) for p in ps)), nm.startswith(case["prefix"])))
    return tuple(rows)


def eval_cases(chk, cases, perms=2, light=False):
    """impl vs model vs spec on every case, plus `perms` permuted entry orders per case"""
    logging.disable(logging.CRITICAL)
    rng = chk.rng
    lines, metas, offs = [], [], []
    for k, c in enumerate(cases):
        ps = entry_pepsets(c, c["entries"])
        # a protein listed again with the same peptide set is inside the property: the spec side (gspec, gwf,
        # the restated clauses) sees the distinct proteins, the model (`group`, `groupseq`, `grender`) the entries
        # as they are (it contains the dict overwrite)
        names = [nm for nm, p in ps if p]
        rep_kind = "none" if len(set(names)) == len(names) else ("identical" if repeats_consistent(ps) else "conflicting")
        ps_spec = distinct_entries(ps) if rep_kind == "identical" else ps
        metas.append((ps, ps_spec, rep_kind))
        offs.append(len(lines))
        lines += [req("group", c["prefix"], 0, ps), req("group", c["prefix"], 1, ps),
                  req("gspec", ps_spec), req("gwf", ps_spec)]
        # the sequence-level model (independent digest oracle): two of three random cases, every 4th of a sweep
        if c["digest"]["enzyme"] in ENZ and (k % 4 == 0 if light else k % 3 != 2):
            lines.append(seq_request(c, en=k % 2))
        else:
            lines.append(None)
        # the strings of the code: two of three random cases (another third than above), every 4th of a sweep
        lines.append(render_request(c, ps, en=(k // 2) % 2) if (k % 4 == 1 if light else k % 3 != 0) else None)
        lines.append(req("gcons", ps) if rep_kind != "none" else None)
        # third pass: the model from the file contents on (half of the random cases, every 4th of a sweep) and
        # the key order of protein_map (always)
        lines.append(text_request(c, c["entries"], en=k % 2)
                     if c["digest"]["enzyme"] in ENZ and (k % 4 == 2 if light else k % 2 == 0) else None)
        lines.append(req("gpmorder", c["prefix"], ps))
    resp_it = iter(common.driver_batch([ln for ln in lines if ln is not None]))
    resp = [next(resp_it) if ln is not None else None for ln in lines]
    for k, c in enumerate(cases):
        raw_pepsets, pepsets, rep_kind = metas[k]
        r0, r1, rs, rw, rq, rr, rc, rt, ro = resp[offs[k]: offs[k] + 9]
        wf = a_bool(rw.strip())
        try:
            model = parse_model(r0)
            model_rev = parse_model(r1)
            mseq = parse_model(rq) if rq is not None else "skipped"
            mrend = parse_render(rr) if rr is not None else "skipped"
            mtext = parse_text(rt) if rt is not None else "skipped"
            mord = parse_pmorder(ro)
        except Exception as e:  # driver glue problem: framework error, surface it
            raise RuntimeError(f"cannot parse driver answer: {e}")
        if rc is not None and a_bool(rc.strip()) != (rep_kind == "identical"):
            raise RuntimeError(f"harness and driver disagree on the consistency of repeated entries: {raw_pepsets}")
        if (rep_kind == "identical") != (wf and rep_kind != "none"):
            raise RuntimeError(f"repeated entries: gwf of the distinct proteins is {wf} for {rep_kind}: {raw_pepsets}")
        spec = parse_spec(rs)
        raw = impl_read(c, c["entries"])
        compare_text(chk, c, raw, mtext, mord, note=None if wf else "duplicate names")
        nprot = sum(1 for _, p in pepsets if p)
        if not light:
            chk.count("proteins", nprot if nprot < 10 else "10+")
            chk.count("pattern", c["pat"])
            chk.count("decoys", c["dmode"])
            chk.count("digest", c["dg"])
            chk.count("files", c["fmt"]["nfiles"])
            call = c.get("call") or {}
            chk.count("enzyme", c["digest"]["enzyme"])
            chk.count("peptide_residues", c.get("pepstyle", "K"))
            chk.count("enzyme_form", call.get("enz", "str"))
            chk.count("files_form", call.get("files", "str/list"))
            chk.count("defaults_omitted", bool(call.get("omit")))
            chk.count("decoy_prefix", "empty" if c["prefix"] == "" else "non-empty")
            chk.count("repeated_entries", rep_kind)
            chk.count("min_length", "0" if c["digest"]["minl"] == 0 else ">=1")
            chk.count("line_ends", c["fmt"].get("eol", "lf"))
            chk.count("blank_lines", bool(c["fmt"].get("blank")))
            chk.count("entry_point", call.get("via", "read_fasta"))
        if mseq != "skipped":
            chk.count("seq_oracle", "wf" if wf else "dup-names")
        if not wf:
            # duplicate protein names: outside the property (dict overwrite); correspondence only
            chk.count("excluded", "duplicate-names")
            # third pass: a repeated identifier with DIFFERENT sequences does not denote a protein/peptide
            # incidence structure (which peptide set has the name?) — outside the quantifier; tallied as such
            chk.reject("outside:repeated-identifier-different-sequences")
            chk.case(None, None)
            if raw[0] == "exc":
                if model is None and raw[1] == "ValueError":
                    chk.reject("only-decoys(dup-names)")
                elif model == "keyerror" and raw[1] == "KeyError":
                    chk.reject("keyerror(dup-names)")
                else:
                    chk.corr_break("group", dict(case=c, impl=list(raw), model=str(model)[:200], note="duplicate names"))
                continue
            if model is None or model == "keyerror":
                chk.corr_break("group", dict(case=c, impl="ok", model=f"reject:{model}", note="duplicate names"))
                continue
            ci = canon_impl(raw)
            if (ci["unique"], ci["shared"], ci["pmap"], ci["has_decoys"]) != (
                    model["unique"], model["shared"], model["pmap"], model["has_decoys"]):
                chk.corr_break("group", dict(case=c, impl=show(ci), model=show(model), note="duplicate names"))
            elif isinstance(mseq, dict) and (ci["unique"], ci["shared"], ci["pmap"], ci["has_decoys"]) != (
                    mseq["unique"], mseq["shared"], mseq["pmap"], mseq["has_decoys"]):
                chk.corr_break("groupseq", dict(case=c, impl=show(ci), model=show(mseq), note="duplicate names"))
            elif isinstance(mrend, dict) and (raw[1], raw[2]) != (mrend["unique"], mrend["shared"]):
                chk.corr_break("grender", dict(case=c, impl=dict(peptide_map=raw[1], shared_peptides=raw[2]),
                                               model=dict(peptide_map=mrend["unique"], shared_peptides=mrend["shared"]),
                                               note="duplicate names"))
            continue
        # ---- inside the quantifier ----
        if raw[0] == "exc":
            only_decoys = all(nm.startswith(c["prefix"]) for nm, p in pepsets if p)
            if raw[1] == "ValueError" and only_decoys:
                chk.reject("only-decoy-proteins" if nprot else "no-protein-with-peptides")
                chk.case(None, None)
                if model is not None:
                    chk.corr_break("group", dict(case=c, impl=list(raw), model="ok"))
                elif mseq not in ("skipped", None):
                    chk.corr_break("groupseq", dict(case=c, impl=list(raw), model="ok"))
                elif mrend not in ("skipped", "reject-only-decoys"):
                    chk.corr_break("grender", dict(case=c, impl=list(raw), model="ok"))
                continue
            chk.case(None, None)
            chk.spec_violation("exception:" + raw[1], dict(case=c, error=raw[2], pepsets=pepsets,
                                                           clause="read_fasta raised on a well-formed FASTA"))
            continue
        ci = canon_impl(raw)
        gs = groups_of(ci)
        nontriv = nprot >= 2 and (any(len(g) >= 2 for g in gs) or bool(ci["shared"]))
        chk.case(None, struct_key(c, pepsets) if nontriv else None,
                 sample=dict(entries=pepsets, prefix=c["prefix"], digest=c["digest"],
                             impl=show(ci), model=show(model) if isinstance(model, dict) else model))
        if not light:
            chk.count("groups", len(gs) if len(gs) < 8 else "8+")
            chk.count("has_shared", bool(ci["shared"]))
            chk.count("multi_member_group", any(len(g) >= 2 for g in gs))
            chk.count("protein_in_two_groups", any(sum(nm in g for g in gs) >= 2 for nm, _ in pepsets))
        # 1. spec on the implementation's output
        clause = clause_check(c, pepsets, ci)
        si = setform(ci)
        spec_ok = clause is None and si["unique"] == spec["unique"] and si["shared"] == spec["shared"]
        if not spec_ok:
            chk.spec_violation(
                "grouping:" + (clause or "differs-from-maximal-subset-characterisation"),
                dict(case=c, pepsets=pepsets, impl=show(ci),
                     expected=dict(unique={p: sorted(g) for p, g in spec["unique"].items()},
                                   shared={p: sorted(sorted(g) for g in s) for p, s in spec["shared"].items()}),
                     clause=clause or "output differs from the maximal-subset characterisation"))
            continue
        # 2. implementation vs model (exact member order of group names; sets for set-joined fields)
        if model is None or model == "keyerror":
            chk.corr_break("group", dict(case=c, impl=show(ci), model=f"reject:{model}"))
        elif (ci["unique"], ci["shared"], ci["pmap"], ci["has_decoys"]) != (
                model["unique"], model["shared"], model["pmap"], model["has_decoys"]):
            chk.corr_break("group", dict(case=c, pepsets=pepsets, impl=show(ci), model=show(model)))
        elif model_rev is None or model_rev == "keyerror" or setform(model_rev) != setform(model):
            chk.corr_break("group-enum", dict(case=c, note="model result depends on the enumeration order"))
        # 2b. the sequence-level model: (i) the peptide sets used as the reference above (taken from
        # mokapot.digest) equal the ones the Lean digest model derives from the sequences — an oracle
        # independent of mokapot; (ii) read_fasta equals the model run from the sequences
        if mseq != "skipped":
            if mseq is None or mseq == "keyerror":
                chk.corr_break("groupseq", dict(case=c, impl=show(ci), model=f"reject:{mseq}"))
            elif mseq["pepsets"] != [(nm, frozenset(ps)) for nm, ps in raw_pepsets]:
                chk.corr_break("digest-oracle", dict(
                    case=c, mokapot_digest=raw_pepsets,
                    lean_digest=[[nm, sorted(ps)] for nm, ps in mseq["pepsets"]],
                    note="mokapot.digest differs from the Lean digest model on an entry's sequence"))
            elif (ci["unique"], ci["shared"], ci["pmap"], ci["has_decoys"]) != (
                    mseq["unique"], mseq["shared"], mseq["pmap"], mseq["has_decoys"]):
                chk.corr_break("groupseq", dict(case=c, pepsets=pepsets, impl=show(ci), model=show(mseq)))
        # 2c. the strings themselves: `peptide_map` values (", "-joined names) and `shared_peptides` values
        # ("; "-joined *sorted* group names) verbatim against the model's rendering; the attributes of the
        # Proteins object that are not maps
        if mrend != "skipped":
            chk.count("rendered_compared")
            if not isinstance(mrend, dict):
                chk.corr_break("grender", dict(case=c, impl=show(ci), model=f"reject:{mrend}"))
            elif (raw[1], raw[2], raw[3], raw[4]) != (mrend["unique"], mrend["shared"], mrend["pmap"], mrend["has_decoys"]):
                chk.corr_break("grender", dict(case=c, pepsets=raw_pepsets,
                                               impl=dict(peptide_map=raw[1], shared_peptides=raw[2]),
                                               model=dict(peptide_map=mrend["unique"], shared_peptides=mrend["shared"])))
        if raw[5] != c["prefix"]:
            chk.corr_break("proteins-object", dict(case=c, impl=dict(decoy_prefix=raw[5]), model=dict(decoy_prefix=c["prefix"])))
        # 3. entry-order independence on the real code
        n = len(c["entries"])
        for t in range(perms):
            if n < 2:
                break
            order = list(range(n))
            if t == 0:
                order.reverse()
            else:
                rng.shuffle(order)
            ent2 = [c["entries"][i] for i in order]
            raw2 = impl_read(c, ent2, tag="p")
            if not light:
                chk.count("permuted_runs")
            if raw2[0] == "exc":
                chk.spec_violation("order-dependence:exception",
                                   dict(case=c, order=order, error=list(raw2), clause="entry order changes outcome"))
                break
            s2 = setform(canon_impl(raw2))
            if s2 != si or raw2[4] != raw[4]:
                chk.spec_violation("order-dependence", dict(
                    case=c, order=order, pepsets=pepsets, impl=show(ci), impl_permuted=show(canon_impl(raw2)),
                    clause="grouping (or has_decoys) depends on the order of the FASTA entries"))
                break


def compare_text(chk, c, raw, mtext, mord, note=None):
    """third pass: real result vs the model run from the file contents (verbatim Python values, `protein_map`
    in dict order) and vs the ordered-map model run from the digested entries.  Correspondence only."""
    if mtext != "skipped":
        chk.count("text_model_compared")
        if isinstance(mtext, dict) and mtext["entries"] != [list(e) for e in c["entries"]]:
            # the Lean reader recovered other (name, sequence) pairs than the generator wrote into the files
            chk.corr_break("grouptext-reader", dict(case=c, written=c["entries"], model_read=mtext["entries"], note=note))
        elif raw[0] == "exc":
            want = {"ValueError": "reject-only-decoys", "IndexError": "reject-indexerror", "KeyError": "reject-keyerror"}
            if mtext != want.get(raw[1]):
                chk.corr_break("grouptext", dict(case=c, impl=list(raw), model=str(mtext)[:300], note=note))
        elif not isinstance(mtext, dict):
            chk.corr_break("grouptext", dict(case=c, impl="ok", model=mtext, note=note))
        elif (raw[1], raw[2], list(raw[3].items()), raw[4]) != (
                mtext["unique"], mtext["shared"], mtext["pmap_items"], mtext["has_decoys"]):
            chk.corr_break("grouptext", dict(
                case=c, note=note,
                impl=dict(peptide_map=raw[1], shared_peptides=raw[2], protein_map=list(raw[3].items()), has_decoys=raw[4]),
                model=dict(peptide_map=mtext["unique"], shared_peptides=mtext["shared"],
                           protein_map=mtext["pmap_items"], has_decoys=mtext["has_decoys"])))
    if raw[0] == "ok" and list(raw[3].items()) != mord:
        chk.corr_break("gpmorder", dict(case=c, impl=list(raw[3].items()), model=mord, note=note,
                                        clause="key order of protein_map: ascending number of peptides, stable"))


FRAGMENTS = [">", ">", "\n", "\n", "\r\n", "\r", " ", "A", "B", "decoy_A", "decoy_", "AAK", "CCK", "AAKCCK", "DDR", "\t",
             "\x0c", "\x0b", "\x1c", "\u2028", "\x85", " desc", ">A\nAAK\n", ">decoy_A\nAAKCCK", "\n>B\nCCK", "k", "*"]
TEXT_CORNERS = [
    [""], [">"], [">\n"], ["\n>A\nAAK\n"], ["", ">A\nAAK\n"], [">A\nAAK\n", ""], [">A\nAAK", "", ">B\nCCK"],
    ["A\nAAK\n>B\nCCK\n"], [">A\nAAK\n", "B\nCCK\n"], [">A\n>B\nCCK\n"], [">A desc\n"], ["> A\nAAK\n>B\nCCK"],
    [">A\rAAK\r>B\rCCK\r"], [">A\r\nAAK\r\n\r\n>decoy_A\r\nAAK"], [">A\tx\nAAK\n>decoy_A\ty\nAAK\n"],
    [">A\x0cx\nAAK\n"], [">A\nAA\x0cK\nCCK\n"], [">A\nAAK\n\n\n>B\n\nCCK\n\n"], [">A\nAAK>B\nCCK\n"],
    [">A\nAAK\n >B\nCCK\n"], [">A\n>A\n"], [">>A\nAAK\n"], [">A  two blanks\nAAK\n>decoy_A\nAAK"],
    [">A\naak\nAAK\n"], [">A\nAAK*\n"], [">decoy_\nAAK\n>\nAAK\n"],
]


def gen_text_corner(rng):
    texts = ["".join(rng.choice(FRAGMENTS) for _ in range(rng.randint(0, 9))) for _ in range(rng.choice([1, 1, 2, 3]))]
    if rng.random() < 0.7 and texts[0][:1] != ">":
        texts[0] = ">" + texts[0]
    return texts


def eval_text_corners(chk, text_lists):
    """file contents outside the laid-out FASTA description (no leading `>`, empty files, bare `>`, form feeds,
    lone carriage returns, random fragments): the real read_fasta against the model run from the contents
    (`grouptext`), verbatim.  Correspondence only — the property promises nothing about such files."""
    logging.disable(logging.CRITICAL)
    cases = []
    for i, texts in enumerate(text_lists):
        cases.append(dict(kind="textcorner", texts=texts, entries=[], prefix="decoy_" if i % 7 else "",
                          digest=dict(enzyme="[KR]", mc=i % 2, clip=False, minl=1 if i % 3 else 3, maxl=50, semi=False),
                          fmt=dict(wrap=0, desc=False, nfiles=len(texts), trail=False),
                          call=dict(enz="str", files="list", omit=False)))
    resp = common.driver_batch([text_request(c, [], en=k % 2) for k, c in enumerate(cases)])
    for c, r in zip(cases, resp):
        try:
            mtext = parse_text(r)
        except Exception as e:
            raise RuntimeError(f"cannot parse driver answer: {e}")
        raw = impl_read(c, [], tag="t")
        chk.case(None, None)
        chk.count("text_corner", "ok" if raw[0] == "ok" else raw[1])
        if raw[0] == "exc":
            chk.reject("corner-file:" + raw[1])
        if isinstance(mtext, dict):
            mtext = dict(mtext, entries=[])
        compare_text(chk, c, raw, mtext, list(raw[3].items()) if raw[0] == "ok" else [], note="reader corner case")


def hash_seed_runs(chk, cases, seeds):
    """the same cases under other PYTHONHASHSEEDs (set iteration orders) in subprocesses"""
    logging.disable(logging.CRITICAL)
    base, keep, base_raw, base_keys = [], [], [], []
    for c in cases:
        raw = impl_read(c, c["entries"])
        if raw[0] == "ok":
            keep.append(c)
            base.append(json.loads(json.dumps(jsonable_canon(canon_impl(raw)))))
            base_raw.append(json.loads(json.dumps([sorted(raw[2].items()), sorted(raw[1].items())])))
            base_keys.append(list(raw[1]) + list(raw[2]))
    order_differs = 0
    for s in seeds:
        outs = run_hashseed(keep, s)
        for c, b, br, bk, o in zip(keep, base, base_raw, base_keys, outs):
            chk.count("hashseed_runs")
            raw_sh = o.pop("raw_shared", None)
            raw_un = o.pop("raw_unique", None)
            keys = o.pop("key_order", None)
            if "exc" in o:
                chk.spec_violation("hash-dependence:exception", dict(case=c, hashseed=s, error=o,
                                                                     clause="hash seed changes outcome"))
                continue
            if o != b:
                chk.spec_violation("hash-dependence", dict(case=c, hashseed=s, impl_seed0=b, impl_other=o,
                                                           clause="grouping depends on hash iteration order"))
            elif [raw_sh, raw_un] != br:
                # C16_rendered_hash_independent: the *strings* are the same under every set iteration order (the
                # group names are joined in processing order, the groups of a shared peptide are sorted)
                chk.spec_violation("hash-dependence:raw-strings", dict(
                    case=c, hashseed=s, impl_seed0=dict(shared_peptides=br[0], peptide_map=br[1]),
                    impl_other=dict(shared_peptides=raw_sh, peptide_map=raw_un),
                    clause="the strings in peptide_map / shared_peptides depend on hash iteration order"))
            if keys is not None and keys != bk:
                order_differs += 1
    chk.extra["hash_seeds"] = (
        f"{len(keep)} cases x PYTHONHASHSEED in {list(seeds)} (subprocess), compared as sets and as raw strings "
        f"with the in-process run (seed {os.environ.get('PYTHONHASHSEED', '?')}); in {order_differs} runs the key "
        f"order of the two peptide dicts differed from the in-process one, i.e. the set iteration order really "
        f"varied")


def show(c):
    if c is None:
        return None
    return dict(unique={p: list(g) for p, g in sorted(c["unique"].items())},
                shared={p: sorted(list(g) for g in s) for p, s in sorted(c["shared"].items())},
                pmap=dict(sorted(c["pmap"].items())), has_decoys=c.get("has_decoys"))



# ----------------------------------------------------------------------------
# `_group_proteins(proteins, peptides)` called directly (anchor fasta.py:515-563)
# ----------------------------------------------------------------------------
def gen_direct(rng, big=False):
    """(proteins dict, peptides dict) of a random incidence structure, both in random insertion order"""
    rows, m, pat = gen_incidence(rng, big)
    rows = [r for r in rows if r]
    if not rows:
        rows = [[0]]
    n = len(rows)
    style = rng.choice(["plain", "plain", "odd", "prefixed"])
    if style == "plain":
        names = [f"P{i}" for i in range(n)]
    elif style == "odd":
        names = [rng.choice(["a,b", "x;", "P", "p", "A,", ",B", "Z|z", "1"]) + str(i) for i in range(n)]
    else:
        names = [("decoy_" if rng.random() < 0.5 else "") + f"Q{i // 2}" + ("" if i % 2 else "b") for i in range(n)]
    pepn = [pep_string(j, body=rng.choice([2, 3])) for j in range(m)] if rng.random() < 0.7 else [f"p{j}" for j in range(m)]
    order = list(range(n))
    rng.shuffle(order)
    prots = []
    for i in order:
        r = list(rows[i])
        rng.shuffle(r)
        prots.append([names[i], [pepn[j] for j in r]])
    # the peptides dict is filled in another order than the proteins dict
    order2 = list(range(n))
    rng.shuffle(order2)
    index = {}
    for i in order2:
        r = list(rows[i])
        rng.shuffle(r)
        for j in r:
            index.setdefault(pepn[j], []).append(names[i])
    pm = [[p, qs] for p, qs in index.items()]
    extra = 0
    if rng.random() < 0.1:  # keys no protein has (empty sets): allowed by the precondition
        extra = rng.randint(1, 2)
        for x in range(extra):
            pm.insert(rng.randrange(len(pm) + 1), [f"zz{x}", []])
    return dict(kind="direct", prots=prots, pm=pm, pat=pat, nstyle=style, extra_keys=extra)


def impl_direct(case):
    """the real _group_proteins on fresh dict / set objects; returns the raw return values"""
    from collections import defaultdict

    from mokapot.parsers.fasta import _group_proteins

    proteins = {nm: set(ps) for nm, ps in case["prots"]}
    before = [(nm, set(ps)) for nm, ps in proteins.items()]
    peptides = defaultdict(set)
    for p, qs in case["pm"]:
        peptides[p]  # key order as given
        for q in qs:
            peptides[p].add(q)
    try:
        grouped, ret = _group_proteins(proteins, peptides)
    except Exception as e:  # noqa: BLE001
        return ("exc", type(e).__name__, str(e)[:200])
    return ("ok", {k: set(v) for k, v in grouped.items()}, [(p, set(v)) for p, v in ret.items()],
            ret is peptides, [(nm, set(ps)) for nm, ps in proteins.items()] == before)


def direct_clause_check(case, grouped, index):
    """the clauses of the property restated on both return values of _group_proteins.
    grouped: {member tuple: peptide set}; index: [(peptide, {member tuple…})…] in returned key order"""
    prot = {nm: set(ps) for nm, ps in case["prots"]}
    for g in grouped:
        if len(set(g)) != len(g) or any(mb not in prot for mb in g):
            return "group-members-are-distinct-known-proteins"
    for nm in prot:
        if not any(nm in g for g in grouped):
            return "every-protein-grouped"
    for g, S in grouped.items():
        if not any(prot[mb] == S for mb in g):
            return "group-set-is-a-member-set"
        if not all(prot[mb] <= S for mb in g):
            return "members-are-subsets"
        for nm, ps in prot.items():
            if ps <= S and nm not in g:
                return "group-contains-every-protein-inside-it"
    for g1, g2 in itertools.permutations(grouped, 2):
        if grouped[g1] <= grouped[g2]:
            return "no-group-contained-in-another"
    if [p for p, _ in index] != [p for p, _ in case["pm"]]:
        return "returned-peptides-keep-their-keys"
    for p, gs in index:
        if gs != {g for g, S in grouped.items() if p in S}:
            return "returned-peptides-list-exactly-the-groups-containing-the-peptide"
    return None


def parse_direct(resp):
    if resp.strip() == "reject-keyerror":
        return "keyerror"
    v = dec(resp)
    if not (isinstance(v, list) and len(v) == 2):
        raise RuntimeError("driver: " + resp[:200])
    gs, ix = v
    return dict(groups={tuple(a_str(x) for x in g): frozenset(a_str(x) for x in S) for g, S in gs},
                index=[(a_str(p), frozenset(tuple(a_str(x) for x in g) for g in ks)) for p, ks in ix])


def parse_direct_render(resp):
    if resp.strip() == "reject-keyerror":
        return "keyerror"
    v = dec(resp)
    if not (isinstance(v, list) and len(v) == 2):
        raise RuntimeError("driver: " + resp[:200])
    gs, ix = v
    return ({a_str(g): frozenset(a_str(x) for x in S) for g, S in gs},
            [(a_str(p), frozenset(a_str(g) for g in ks)) for p, ks in ix])


def direct_setform(d):
    return (frozenset((frozenset(g), S) for g, S in d["groups"].items()),
            {p: frozenset(frozenset(g) for g in ks) for p, ks in d["index"]})


def show_direct(d):
    return dict(grouped={", ".join(g): sorted(S) for g, S in d["groups"].items()},
                peptides={p: sorted(", ".join(g) for g in ks) for p, ks in d["index"]})


def direct_key(case):
    idx = {}
    return ("direct",) + tuple(tuple(sorted(idx.setdefault(p, len(idx)) for p in ps)) for _, ps in case["prots"])


def eval_direct(chk, cases, light=False):
    """_group_proteins: implementation vs spec (restated + driver `gdspec`) vs model (`gdirect`)"""
    logging.disable(logging.CRITICAL)
    lines = []
    for k, c in enumerate(cases):
        keys = [p for p, _ in c["pm"]]
        lines += [req("gdirect", 0, c["prots"], c["pm"]), req("gdirect", 1, c["prots"], c["pm"]),
                  req("gdspec", c["prots"], keys), req("gdwf", c["prots"], c["pm"]),
                  req("gdrender", k % 2, c["prots"], c["pm"])]
    resp = common.driver_batch(lines)
    for k, c in enumerate(cases):
        r0, r1, rs, rw, rr = resp[5 * k: 5 * k + 5]
        try:
            model, model_rev, spec = parse_direct(r0), parse_direct(r1), parse_direct(rs)
            mrend = parse_direct_render(rr)
        except Exception as e:
            raise RuntimeError(f"cannot parse driver answer: {e}")
        if not a_bool(rw.strip()):  # the generator only builds inputs inside the precondition
            raise RuntimeError(f"direct-call generator produced an input outside the precondition: {c}")
        raw = impl_direct(c)
        n = len(c["prots"])
        if not light:
            chk.count("direct_proteins", n if n < 10 else "10+")
            chk.count("direct_pattern", c["pat"])
            chk.count("direct_names", c["nstyle"])
            chk.count("direct_extra_keys", c["extra_keys"])
        if raw[0] == "exc":
            chk.case(None, None)
            chk.spec_violation("group_proteins:exception:" + raw[1],
                               dict(case=c, error=raw[2], clause="_group_proteins raised on a well-formed input"))
            continue
        impl = dict(groups={tuple(g.split(", ")): frozenset(S) for g, S in raw[1].items()},
                    index=[(p, frozenset(tuple(g.split(", ")) for g in ks)) for p, ks in raw[2]])
        nontriv = n >= 2 and (any(len(g) >= 2 for g in impl["groups"]) or any(len(ks) >= 2 for _, ks in impl["index"]))
        chk.case(None, direct_key(c) if nontriv else None,
                 sample=dict(proteins=c["prots"], peptides=c["pm"], impl=show_direct(impl),
                             model=show_direct(model) if isinstance(model, dict) else model))
        if not light:
            chk.count("direct_groups", len(impl["groups"]) if len(impl["groups"]) < 8 else "8+")
            chk.count("direct_protein_in_two_groups",
                      any(sum(nm in g for g in impl["groups"]) >= 2 for nm, _ in c["prots"]))
            chk.count("direct_peptides_mutated_in_place", bool(raw[3]))
        # 1. spec on both return values
        clause = None
        if len(raw[1]) != len(impl["groups"]):
            clause = "group-names-distinct"
        clause = clause or direct_clause_check(c, {g: set(S) for g, S in impl["groups"].items()},
                                               [(p, set(ks)) for p, ks in impl["index"]])
        if clause is None and direct_setform(impl) != direct_setform(spec):
            clause = "differs-from-maximal-subset-characterisation"
        if clause is not None:
            chk.spec_violation("group_proteins:" + clause,
                               dict(case=c, impl=show_direct(impl), expected=show_direct(spec), clause=clause))
            continue
        # 2. implementation vs model: exact member order of the group names, exact key order of the
        # returned peptides dict; dict order of `grouped` and set contents as sets
        if model == "keyerror":
            chk.corr_break("gdirect", dict(case=c, impl=show_direct(impl), model="reject:keyerror"))
        elif (impl["groups"], impl["index"]) != (model["groups"], model["index"]):
            chk.corr_break("gdirect", dict(case=c, impl=show_direct(impl), model=show_direct(model)))
        elif model_rev == "keyerror" or direct_setform(model_rev) != direct_setform(model):
            chk.corr_break("gdirect-enum", dict(case=c, note="model result depends on the enumeration order"))
        # 3. the dict keys / set elements as the strings they are (", "-joined names), either enumeration
        impl_str = ({g: frozenset(S) for g, S in raw[1].items()}, [(p, frozenset(ks)) for p, ks in raw[2]])
        if mrend == "keyerror" or impl_str != mrend:
            chk.corr_break("gdrender", dict(case=c, impl=show_direct(impl),
                                            model=mrend if mrend == "keyerror" else
                                            dict(grouped={g: sorted(S) for g, S in mrend[0].items()},
                                                 peptides={p: sorted(ks) for p, ks in mrend[1]})))
        # 3b. C16_peptide_dicts_independent_of_index_order: the same proteins with the `peptides` dict filled in
        # another key order and other set insertion orders give the same two return values as dicts
        if not light or k % 4 == 0:
            pm2 = [[p, list(qs)] for p, qs in c["pm"]]
            chk.rng.shuffle(pm2)
            for e in pm2:
                chk.rng.shuffle(e[1])
            raw2 = impl_direct(dict(c, pm=pm2))
            chk.count("direct_index_reordered")
            if raw2[0] != "ok" or raw2[1] != raw[1] or dict(raw2[2]) != dict(raw[2]):
                chk.spec_violation("group_proteins:index-order-dependence", dict(
                    case=c, peptides_reordered=pm2, impl=show_direct(impl),
                    impl_reordered=list(raw2[:2]) if raw2[0] != "ok" else dict(
                        grouped={g: sorted(S) for g, S in raw2[1].items()},
                        peptides={p: sorted(ks) for p, ks in raw2[2]}),
                    clause="_group_proteins depends on the key order / set order of its `peptides` argument"))
                continue
        # 4. the caller's `proteins` dict is left as it was (only `peptides` is documented to be modified)
        if not raw[4]:
            chk.corr_break("gdirect-args", dict(case=c, note="_group_proteins modified its `proteins` argument"))


def direct_exhaustive_cases(scopes, orders):
    """every incidence structure (all proteins non-empty) for the (n, m) of `scopes`, the proteins dict in
    every insertion order (at most `orders` of them), the peptides dict filled in reverse"""
    cases = []
    for n, m in scopes:
        subsets = [[j for j in range(m) if (mask >> j) & 1] for mask in range(1, 1 << m)]
        for rows in itertools.product(subsets, repeat=n):
            for o, perm in enumerate(itertools.permutations(range(n))):
                if o >= orders:
                    break
                prots = [[f"P{i}", [f"p{j}" for j in rows[i]]] for i in perm]
                index = {}
                for i in reversed(perm):
                    for j in reversed(rows[i]):
                        index.setdefault(f"p{j}", []).append(f"P{i}")
                cases.append(dict(kind="direct", prots=prots, pm=[[p, qs] for p, qs in index.items()],
                                  pat="exhaustive", nstyle="plain", extra_keys=0))
    return cases


def direct_exhaustive(chk, scopes, orders):
    cases = direct_exhaustive_cases(scopes, orders)
    for i in range(0, len(cases), 5000):
        eval_direct(chk, cases[i:i + 5000], light=True)
        if chk.spec_violations:
            break
    chk.extra["direct_exhaustive_sweep"] = (
        f"_group_proteins called directly on all incidence structures (every protein non-empty) for (proteins, "
        f"peptides) in {scopes}, proteins dict in up to {orders} insertion orders: {len(cases)} cases")


DSCOPE_QUICK = [(n, m) for n in range(1, 4) for m in range(1, 4)]
DSCOPE_THOROUGH = [(n, m) for n in range(1, 5) for m in range(1, 4)] + [(3, 4)]

# ----------------------------------------------------------------------------
# sequences of calls in ONE process (third pass): the result of a call must not depend on what was read /
# digested before it in the same interpreter (C16_call_sequence_history_free)
# ----------------------------------------------------------------------------
SINGLE_OPTS = ["clip", "clip", "clip", "mc", "minl", "maxl", "semi", "enzyme"]
CALL_PATTERNS = ["ABA", "BAB", "AB", "BA", "dB.A", "dA.B", "A.dB.A", "AAB"]


def gen_callseq(rng):
    """one FASTA and two digest settings A, B that differ in exactly ONE option, to be read several times in
    this process (`pattern`: R = read_fasta, d = mokapot.digest on every sequence; both orders of A and B).
    Sequences start with M in about half of the proteins whatever `clip` says, and the universe holds pairs
    "M" + x / x so that clipping changes the incidence structure itself."""
    rows, m, pat = gen_incidence(rng, big=False)
    n = len(rows)
    prefix = rng.choice(PREFIXES)
    names = []
    for i in range(n):
        t = f"sp|R{i}|x" if rng.random() < 0.3 else f"R{i}"
        names.append(prefix + names[rng.randrange(len(names))] if names and rng.random() < 0.3 else t)
    seen = set()
    for i, nm in enumerate(names):
        while nm in seen:
            nm += "x"
        names[i] = nm
        seen.add(nm)
    body = rng.choice([3, 5, 5])
    peps = []
    for j in range(m):
        if peps and not peps[-1].startswith("M") and rng.random() < 0.35:
            peps.append("M" + peps[-1])  # clipped form of this one = the previous peptide
        else:
            peps.append(pep_string(j, body=body, lead_m=rng.random() < 0.4, term=rng.choice("KKR"),
                                   lead_p=rng.random() < 0.15))
    entries = []
    for nm, r in zip(names, rows):
        r = list(r)
        rng.shuffle(r)
        mfirst = [j for j in r if peps[j].startswith("M")]
        if mfirst and rng.random() < 0.6:  # an M-initial peptide in front
            j = rng.choice(mfirst)
            r.remove(j)
            r.insert(0, j)
        entries.append([nm, "".join(peps[j] for j in r)])
    opt = rng.choice(SINGLE_OPTS)
    a = dict(enzyme=rng.choice(["[KR]", "[KR]", "K", "[KR](?!P)"]), mc=rng.choice([0, 0, 1, 2]),
             clip=rng.random() < 0.5, minl=rng.choice([1, 2, body + 1, body + 2, 6]),
             maxl=rng.choice([50, 50, 2 * body + 3]), semi=False)
    if opt == "semi" or rng.random() < 0.1:
        a["semi"] = rng.random() < 0.5
        a["minl"] = body + 1  # keeps the peptide universe small
        a["mc"] = min(a["mc"], 1)
    b = dict(a)
    if opt == "clip":
        b["clip"] = not a["clip"]
    elif opt == "mc":
        b["mc"] = rng.choice([x for x in (0, 1, 2) if x != a["mc"]])
    elif opt == "minl":
        b["minl"] = rng.choice([x for x in (0, 1, 2, body + 1, body + 2, 6) if x != a["minl"]])
    elif opt == "maxl":
        b["maxl"] = rng.choice([x for x in (50, 2 * body + 3, body + 2, body + 1) if x != a["maxl"]])
    elif opt == "semi":
        b["semi"] = not a["semi"]
    else:
        b["enzyme"] = rng.choice([x for x in ENZ if x != a["enzyme"]])
    fmt = dict(wrap=rng.choice([0, 0, 60, 7]), desc=rng.random() < 0.3, nfiles=rng.choice([1, 1, 2]),
               trail=rng.random() < 0.7)
    return dict(kind="callseq", entries=entries, prefix=prefix, digest=a, digest_b=b, option=opt,
                pattern=rng.choice(CALL_PATTERNS), fmt=fmt, pat=pat,
                forms=[dict(enz=rng.choice(["str", "compiled"]), files="list", omit=rng.random() < 0.5)
                       for _ in range(3)])


def callseq_calls(case):
    """[(form, setting name)] of the pattern: "ABA" = three reads, "dB.A" = digest every sequence with B, then
    read with A"""
    out = []
    for tok in case["pattern"].split(".") if "." in case["pattern"] else list(case["pattern"]):
        out.append(("digest", tok[1]) if tok.startswith("d") else ("read", tok))
    return out


def impl_digest_all(case, setting):
    """mokapot.digest on every sequence of the case (string enzyme: the documented second form)"""
    import mokapot

    return [[nm, sorted(mokapot.digest(seq, enzyme_regex=setting["enzyme"], missed_cleavages=setting["mc"],
                                       clip_nterm_methionine=setting["clip"], min_length=setting["minl"],
                                       max_length=setting["maxl"], semi=setting["semi"]))]
            for nm, seq in case["entries"]]


def fresh_process_result(case):
    """the same single call in a fresh interpreter (order-free form), or None"""
    try:
        return run_hashseed([case], os.environ.get("PYTHONHASHSEED", "0"))[0]
    except Exception:  # noqa: BLE001
        return None


def eval_callseq(chk, cases, confirm=True):
    """every read_fasta call of every sequence against the Lean model run from the sequences (`groupseq`: its
    digest does not live in the Python process, so no earlier call can have touched it) and against the
    clauses restated on the Lean peptide sets"""
    logging.disable(logging.CRITICAL)
    lines = []
    for c in cases:
        for key in ("digest", "digest_b"):
            lines.append(seq_request(dict(c, digest=c[key])))
    resp = common.driver_batch(lines)
    for k, c in enumerate(cases):
        try:
            models = dict(A=parse_model(resp[2 * k]), B=parse_model(resp[2 * k + 1]))
        except Exception as e:
            raise RuntimeError(f"cannot parse driver answer: {e}")
        settings = dict(A=c["digest"], B=c["digest_b"])
        chk.count("callseq_option", c["option"])
        chk.count("callseq_pattern", c["pattern"])
        if any(seq.startswith("M") for _, seq in c["entries"]):
            chk.count("callseq_M_initial_sequences")
        done = []
        first = {}
        for pos, (form, which) in enumerate(callseq_calls(c)):
            cs = dict(c, digest=settings[which], call=c["forms"][pos % len(c["forms"])])
            mseq = models[which]
            done.append(form + ":" + which)
            chk.count("callseq_calls", form)
            if form == "digest":
                got = impl_digest_all(c, settings[which])
                if isinstance(mseq, dict) and [(nm, frozenset(ps)) for nm, ps in got] != mseq["pepsets"]:
                    chk.corr_break("digest-oracle", dict(case=c, calls=done, mokapot_digest=got,
                                                         lean_digest=[[nm, sorted(ps)] for nm, ps in mseq["pepsets"]],
                                                         note="mokapot.digest after earlier calls in this process"))
                continue
            raw = impl_read(cs, c["entries"], tag="q")
            chk.case(None, ("callseq", c["option"], c["pattern"], struct_key(c, [[nm, sorted(ps)] for nm, ps in mseq["pepsets"]]))
                     if isinstance(mseq, dict) and len(mseq["groups"]) >= 1 and pos > 0 else None)
            if raw[0] == "exc":
                if mseq is None and raw[1] == "ValueError":
                    chk.reject("only-decoy-proteins")
                    continue
                chk.spec_violation("call-sequence:exception:" + raw[1], dict(
                    case=c, calls=done, error=raw[2], clause="read_fasta raised on a well-formed FASTA"))
                break
            if mseq is None or mseq == "keyerror":
                chk.corr_break("groupseq", dict(case=c, calls=done, impl="ok", model=f"reject:{mseq}"))
                continue
            ci = canon_impl(raw)
            pepsets = [[nm, sorted(ps)] for nm, ps in mseq["pepsets"]]
            clause = clause_check(cs, pepsets, ci)
            if clause is None and which in first and first[which] != raw[1:5]:
                clause = "same-call-different-result"
            first.setdefault(which, raw[1:5])
            if clause is not None:
                # is it the history?  the same single call in a fresh interpreter
                nviol = sum(1 for sg, _ in chk.spec_violations if sg.startswith("call-sequence:"))
                if nviol >= 8:
                    return  # enough evidence; every one costs time
                fresh = fresh_process_result(cs) if confirm and nviol < 2 else None
                here = json.loads(json.dumps(jsonable_canon(ci)))
                hist = fresh is not None and "exc" not in fresh and {k: fresh[k] for k in here} != here
                chk.spec_violation(
                    "call-sequence:result-depends-on-earlier-calls" if hist else "call-sequence:" + clause,
                    dict(case=c, calls=done, violated_clause=clause, setting=settings[which], pepsets=pepsets,
                         impl=show(ci), fresh_process=fresh, expected=show(mseq),
                         clause="the grouping returned by this read_fasta call is not the maximal-subset grouping "
                                "of the proteins digested with the options of THIS call"
                                + (" (a fresh interpreter returns the right one)" if hist else "")))
                break
            if (ci["unique"], ci["shared"], ci["pmap"], ci["has_decoys"]) != (
                    mseq["unique"], mseq["shared"], mseq["pmap"], mseq["has_decoys"]):
                chk.corr_break("groupseq", dict(case=c, calls=done, impl=show(ci), model=show(mseq)))


def builtin_callseqs():
    fmt = dict(wrap=0, desc=False, nfiles=1, trail=True)
    dg = dict(enzyme="[KR]", mc=0, clip=False, minl=6, maxl=50, semi=False)
    forms = [dict(enz="str", files="str", omit=False)]
    ent = [["sp|P1|one", "MAAAAAAKCCCCCCKDDDDDDK"], ["sp|P2|two", "AAAAAAK"], ["sp|P3|sub", "CCCCCCKDDDDDDK"],
           ["decoy_sp|P1|one", "MGGGGGGK"], ["decoy_sp|P2|two", "GGGGGGK"]]
    base = dict(kind="callseq", entries=ent, prefix="decoy_", digest=dg, digest_b=dict(dg, clip=True), option="clip",
                fmt=fmt, pat="corpus", forms=forms)
    return [dict(base, pattern=p) for p in ("AB", "BA", "dA.B", "dB.A")]


# ----------------------------------------------------------------------------
# exhaustive small scope
# ----------------------------------------------------------------------------
def exhaustive_cases(scopes, with_decoys=True):
    """every incidence structure with exactly n proteins (all non-empty) over a universe of exactly m
    peptides, for every (n, m) in `scopes`; names alternate target / paired decoy so that decoy pairing is
    exercised too"""
    cases = []
    for n, m in scopes:
        subsets = [[j for j in range(m) if (mask >> j) & 1] for mask in range(1, 1 << m)]
        peps = [pep_string(j, body=2) for j in range(m)]
        for rows in itertools.product(subsets, repeat=n):
            names = [f"P{i}" if (i % 2 == 0 or not with_decoys) else f"decoy_P{i - 1}" for i in range(n)]
            entries = [[nm, "".join(peps[j] for j in r)] for nm, r in zip(names, rows)]
            cases.append(dict(entries=entries, prefix="decoy_",
                              digest=dict(enzyme="[KR]", mc=0, clip=False, minl=1, maxl=50, semi=False),
                              fmt=dict(wrap=0, desc=False, nfiles=1, trail=True),
                              pat="exhaustive", dmode="paired", dg="exact", nstyle="plain"))
    return cases


def exhaustive(chk, scopes, perms):
    cases = exhaustive_cases(scopes)
    for i in range(0, len(cases), 5000):
        eval_cases(chk, cases[i:i + 5000], perms=perms, light=True)
        if chk.spec_violations:
            break
    chk.extra["exhaustive_sweep"] = (
        f"all incidence structures (every protein non-empty) for (proteins, peptides) in {scopes}: "
        f"{len(cases)} cases, each also under {perms} other entry orders")


SCOPE_QUICK = [(n, m) for n in range(1, 5) for m in range(1, 4)]
SCOPE_THOROUGH = [(n, m) for n in range(1, 5) for m in range(1, 5)] + [(5, m) for m in range(1, 4)]


# ----------------------------------------------------------------------------
# corpus / shrinking / entry points
# ----------------------------------------------------------------------------
def corpus_cases():
    p = common.VERIF / "harness" / "corpus" / "C16.json"
    if p.exists():
        return json.loads(p.read_text())
    return []


def builtin_cases():
    """hand-picked cases of the second extension (run first, like the corpus)"""
    dg = dict(enzyme="[KR]", mc=0, clip=False, minl=1, maxl=50, semi=False)
    fmt = dict(wrap=0, desc=False, nfiles=1, trail=True)
    tag = dict(pat="corpus", dmode="corpus", dg="corpus", nstyle="corpus")

    def case(entries, prefix="decoy_", digest=dg, fmt=fmt, note=""):
        return dict(tag, entries=entries, prefix=prefix, digest=dict(digest), fmt=dict(fmt), note=note)

    return [
        case([["P", "AAAKAACK"], ["Q", "AAAK"], ["P", "AAAKAACK"]], fmt=dict(fmt, nfiles=3),
             note="the same protein in two files (identical repeat)"),
        case([["P", "AAAKAACK"], ["decoy_P", "AAAK"], ["P", "AAAKAACK"], ["decoy_P", "AAAK"]],
             note="the whole FASTA given twice"),
        case([["P", "AAAKAACK"], ["Q", "AAAK"]], prefix="", note="empty decoy prefix: every name is a decoy name"),
        case([["P", "AAAKAACK"], ["DECOY_P", "AAAK"], ["decoy_P", "AACK"]], note="prefix in the other letter case is a target"),
        case([["decoy_", "AAAKAACK"], ["Q", "AAAK"]], note="a name equal to the prefix is a decoy"),
        case([["P", "AAAKAACK"], ["Q", "AADK"], ["R", "AAAC"]], digest=dict(dg, minl=0),
             note="min_length = 0: P and Q share the empty peptide, R does not end in K"),
        case([["z", "AAAKAACK"], ["Y", "AAAKAADK"], ["x", "AAAKAAEK"], ["W", "AAAK"]],
             note="a peptide shared by three groups whose sorted name order differs from the insertion order"),
        case([["P", "MAAAKAACK"], ["Q", "AAAKAACK"]], digest=dict(dg, mc=1, clip=True, semi=True, minl=4),
             note="clip + semi + missed cleavage together"),
        # third pass
        case([["A", "AAAAAAKCCCCCCK"], ["B", "CCCCCCK"], ["A", "DDDDDDK"]], digest=dict(dg, minl=6),
             note="a repeated identifier with different sequences: outside the quantifier (tallied), model = code"),
        case([["P", "MAAAKAACK"], ["Q", "AAAKAACK"]], digest=dict(dg, clip=False),
             note="an M-initial protein read without clipping"),
        case([["P", "AAAKAACK"], ["decoy_P", "AAAK"], ["Q", "AACK"]], fmt=dict(fmt, eol="crlf", blank=True, desc=True, blank_seed=5),
             note="CRLF file with blank lines and a description that contains '>'"),
        case([["P", "AAAKAACK"], ["decoy_P", "AAAK"], ["Q", "AACK"]], fmt=dict(fmt, eol="cr", nfiles=2, trail=False),
             note="two CR-only files without final line end"),
    ]


def minimise(chk):
    """shrink the first spec violation: drop entries while the same signature keeps failing"""
    if not chk.spec_violations:
        return
    sig, info = chk.spec_violations[0]
    if "case" not in info:
        return
    c0 = info["case"]
    if c0.get("kind") == "callseq":
        def fails_s(entries):
            sub = common.Check(chk.prop, chk.tier, chk.seed)
            try:
                eval_callseq(sub, [dict(c0, entries=entries)], confirm=False)
            except Exception:
                return False
            return any(s.startswith("call-sequence:") for s, _ in sub.spec_violations)

        if fails_s(c0["entries"]):
            small = common.shrink_list(c0["entries"], fails_s)
            sub = common.Check(chk.prop, chk.tier, chk.seed)
            eval_callseq(sub, [dict(c0, entries=small)])
            hit = [i for sg, i in sub.spec_violations if sg == sig]
            if hit:
                chk.spec_violations[0] = (sig, dict(hit[0], shrunk_from_entries=len(c0["entries"])))
        return
    if c0.get("kind") == "direct":
        def restrict(prots):
            names = {nm for nm, _ in prots}
            return dict(c0, prots=prots, pm=[[p, [q for q in qs if q in names]] for p, qs in c0["pm"]])

        def fails_d(prots):
            sub = common.Check(chk.prop, chk.tier, chk.seed)
            try:
                eval_direct(sub, [restrict(prots)])
            except Exception:
                return False
            return any(s == sig for s, _ in sub.spec_violations)

        if fails_d(c0["prots"]):
            small = common.shrink_list(c0["prots"], fails_d)
            sub = common.Check(chk.prop, chk.tier, chk.seed)
            eval_direct(sub, [restrict(small)])
            hit = [i for sg, i in sub.spec_violations if sg == sig]
            if hit:
                chk.spec_violations[0] = (sig, dict(hit[0], shrunk_from_proteins=len(c0["prots"])))
        return

    def fails(entries):
        sub = common.Check(chk.prop, chk.tier, chk.seed)
        try:
            eval_cases(sub, [dict(c0, entries=entries)], perms=3)
        except Exception:
            return False
        return any(s == sig for s, _ in sub.spec_violations)

    if not fails(c0["entries"]):
        return
    small = common.shrink_list(c0["entries"], fails)
    for cand in (dict(c0, entries=small, fmt=dict(wrap=0, desc=False, nfiles=1, trail=True)), dict(c0, entries=small)):
        sub = common.Check(chk.prop, chk.tier, chk.seed)
        eval_cases(sub, [cand], perms=3)
        hit = [i for sg, i in sub.spec_violations if sg == sig]
        if hit:
            chk.spec_violations[0] = (sig, dict(hit[0], shrunk_from_entries=len(c0["entries"])))
            return


def search(chk):
    """failing-input search used when a proof or the correspondence is broken"""
    rng = chk.rng
    cases = [gen_case(rng, big=True) for _ in range(3000)]
    eval_cases(chk, cases, perms=3)
    if not chk.spec_violations:
        eval_callseq(chk, builtin_callseqs() + [gen_callseq(rng) for _ in range(3000)])
    if not chk.spec_violations:
        eval_direct(chk, [gen_direct(rng, big=True) for _ in range(4000)])
    if not chk.spec_violations:
        direct_exhaustive(chk, DSCOPE_THOROUGH, orders=4)
    if not chk.spec_violations:
        exhaustive(chk, SCOPE_THOROUGH, perms=2)
    if not chk.spec_violations:
        hash_seed_runs(chk, cases[:400], [1, 2, 3, 4])
    minimise(chk)


def main(chk, args):
    build = common.build_and_audit("C16", extra_targets=["MokapotVerif.Mutants.Grouping",
                                                         "MokapotVerif.Mutants.GroupingExt",
                                                         "MokapotVerif.Mutants.GroupingStr",
                                                         "MokapotVerif.Mutants.GroupingText"])
    if not build.driver_ok:
        chk.finish(build, RULE)
    rng = chk.rng
    try:
        cases = corpus_cases() + builtin_cases()
        quick = chk.tier == "quick"
        n = 3000 if quick else 20000
        cases += [gen_case(rng, big=(i % 4 == 0), allow_dups=(i % 25 == 7), repeat=(i % 25 == 17)) for i in range(n)]
        for i in range(0, len(cases), 3000):
            eval_cases(chk, cases[i:i + 3000], perms=2 if quick else 3)
        # file contents outside the FASTA description: reader of the model vs the real reader (correspondence)
        eval_text_corners(chk, TEXT_CORNERS + [gen_text_corner(rng) for _ in range(400 if quick else 4000)])
        # sequences of calls in this one process that differ in a single digest option (both orders)
        eval_callseq(chk, builtin_callseqs() + [gen_callseq(rng) for _ in range(500 if quick else 5000)])
        wf_cases = [c for c in cases if len({e[0] for e in c["entries"]}) == len(c["entries"])]
        hash_seed_runs(chk, wf_cases[:400] if quick else wf_cases[:4000], [1, 2] if quick else [1, 2, 3, 4])
        exhaustive(chk, SCOPE_QUICK if quick else SCOPE_THOROUGH, perms=1 if quick else 3)
        # the anchored _group_proteins called directly (both return values)
        dcases = [gen_direct(rng, big=(i % 4 == 0)) for i in range(1200 if quick else 12000)]
        for i in range(0, len(dcases), 3000):
            eval_direct(chk, dcases[i:i + 3000])
        direct_exhaustive(chk, DSCOPE_QUICK if quick else DSCOPE_THOROUGH, orders=4)
        minimise(chk)
    finally:
        cleanup()
    lc = common.leanchecker("C16") if chk.tier == "thorough" else None
    chk.assumptions += [
        "each entry's peptide set is taken from the real mokapot.digest with the options of the case and is "
        "cross-checked against the Lean digest model of C17 run on the entry's sequence (op groupseq; enzymes "
        "[KR], K, [KR](?!P)); the model `group` starts from the list of (protein name, peptide set) in FASTA "
        "order, the model `groupseq` from the list of (protein name, sequence)",
        "_group_proteins is called directly with a `peptides` dict that is the inverted incidence of the "
        "`proteins` dict (its precondition, `IsRawIndex`; extra keys with empty sets allowed)",
        "FASTA text parsing (_parse_fasta_files/_parse_protein) is exercised by construction (known names and "
        "sequences, varied wrapping/descriptions/files) but not modelled",
        "CPython dict keeps insertion order, sorted() is stable, set operations behave as documented; the "
        "enumeration order of sets is a universally quantified parameter of the model",
        "protein names contain no blank (guaranteed by _parse_protein), so ', '-joined group names split back "
        "uniquely (C16_group_name_injective) and '; ' never occurs inside a group name; the raw strings are "
        "compared verbatim with the model's rendering (op grender) besides",
        "no module-level state between calls: proved for the model (C16_call_sequence_history_free), checked on the "
        "real code by sequences of calls in one process (both orders of two settings that differ in one digest option)",
        "file contents inside the laid-out FASTA description are covered by C16_from_fasta_text_meets_spec; corner-case "
        "files (no leading '>', empty files, form feeds …) are compared with the model only (correspondence)",
        "a protein listed several times with the same peptide set is inside the property "
        "(C16_repeated_entries_meet_spec); the same name with different peptide sets is outside (tallied)",
    ]
    chk.finish(build, RULE, search=search, lc=lc,
               trusted_extra=["mokapot.digest (C17), CPython dict/set/sorted, file I/O"])


def replay(chk, path):
    info = json.loads(open(path).read())
    if "case" not in info:
        print(json.dumps(info, indent=1)[:3000])
        return 0
    common.build_and_audit("C16")
    try:
        if info["case"].get("kind") == "direct":
            eval_direct(chk, [info["case"]])
        elif info["case"].get("kind") == "callseq":
            eval_callseq(chk, [info["case"]])
        elif info["case"].get("kind") == "textcorner":
            eval_text_corners(chk, [info["case"]["texts"]])
        else:
            eval_cases(chk, [info["case"]], perms=4)
        if info.get("signature", "").startswith("hash-dependence"):
            hash_seed_runs(chk, [info["case"]], [1, 2, 3, 4, 5, 6])
    finally:
        cleanup()
    for sig, i in chk.spec_violations:
        print("REPRODUCED", sig, json.dumps(i, default=str)[:1500])
    for op, i in chk.corr_breaks:
        print("CORRESPONDENCE-BREAK", op, json.dumps(i, default=str)[:1500])
    return 1 if chk.spec_violations else 0


if __name__ == "__main__" and "--worker" in sys.argv:
    worker()
