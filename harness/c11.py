"""C11 — per-fold score calibration (correspondence harness).

Two observation levels:

* function level: `mokapot.dataset.calibrate_scores` and
  `OnDiskPsmDataset.calibrate_scores` (Parquet and tab-separated files) against the Lean
  model op `calib` and the declarative spec op `calspec`;
* brew level: `mokapot.brew(...)` on an `OnDiskPsmDataset` over a Parquet file with
  recording estimators (pre-trained, one per fold, or one estimator trained per fold);
  fold membership is recovered from the rows each fold's estimator was asked to score and
  the returned scores, restricted to each fold, are compared with the model op `predict`
  and the per-fold spec op `predspec`;
* the gate of brew.py:461-470: every fold model gets its own estimator kind (decision function,
  decision function + predict_proba, predict_proba only in three output shapes), also mixed
  within one run; folds whose estimator exposes a decision function are held to the spec, the
  others (the property promises nothing) are compared with the model op `predictdf` only;
* several collections: the whole run (all collections, or the prefix up to the first one that
  cannot be scored) is compared with the model op `predictcolls`.

Second audit pass (GAPS-C11.md, "Second pass"):

* magnitude of the raw scores: every function case and every fold model with a decision function may
  carry a scale 2^e and a common offset (all values stay exactly representable), so the anchors are
  `close` relative to their magnitude or of tiny absolute size; on top of the formula / model
  comparisons the real code is called on the un-scaled scores as well and must return the very same
  floats (`C11_calib_rescale_invariant`); the transformation itself is cross-checked with the driver
  ops `rescale` / `predictresc`;
* further estimator forms under "exposes a decision function": the method reached through
  `__getattr__` (a delegating wrapper), stored on the instance only, or present on the class but
  withheld on the instance (sklearn's `available_if`: attribute access raises AttributeError);
* input forms: 0/1 integer / float target arrays and Series at the function entry, brew on a
  tab-separated file or a Parquet file with several row groups, pre-trained models listed in another
  order than their folds, estimators returning float32;
* trained mode + calibration error: the fold models (deep copies made inside brew) register
  themselves when fitted, so fold membership is recovered also when brew raises.

Third audit pass (GAPS-C11.md, "Third pass"): the step between `list(_predict(...))` and the return of
`brew` (brew.py:253-291).  `eval_keep` calls brew a second time on the same pre-trained models, now with
`override` / `feat_pass` / `best_feat` / `desc` set so that the largest `feat_pass` sits at, just below or
just above the number of targets the calibrated scores of the first run accept: while the learned model is
kept (every model forced, or max feat_pass <= that number; a tie keeps it) brew must return the calibrated
vectors bit for bit, shape (n,); a calibration error must be raised whatever the models' feat_pass; the
fallback side (C07's branch) is compared with the model op `brewkeep` only.
"""
from __future__ import annotations

import importlib
import itertools
import json
import math
import shutil
import tempfile
import types
import zlib
from fractions import Fraction
from pathlib import Path

import numpy as np
import pandas as pd

import logging

import common
from common import a_rat, dec, req

logging.disable(logging.CRITICAL)  # mokapot logs "Few PSMs..." warnings for every small training set

RULE = (
    "function cases = (score vector from a small pool so ties are frequent, target flags, direction, eval FDR, "
    "dtype, entry point calibrate_scores / OnDiskPsmDataset.calibrate_scores on Parquet or TSV); brew cases = "
    "(rows with spectrum groups, folds 2..6, per-fold integer decision tables or a per-fold trained affine "
    "decision function, eval FDR, prediction chunk size incl. 1-3, workers, 1-2 collections, one estimator kind per "
    "fold model: decision_function / both / predict_proba-only in 3 shapes, uniform or mixed, label encodings "
    "bool / +-1 / 0-1; second pass: scale 2^e and common offset of the scores per case / per fold model, 0/1 int "
    "and float target arrays, decision_function through __getattr__ / on the instance / withheld by a "
    "descriptor, TSV and multi-row-group Parquet files, permuted pre-trained model list, float32 estimator "
    "output; third pass: 70 % of the pre-trained brew cases are run a second time with override / feat_pass / "
    "best_feat / desc of the fold models set so that max feat_pass = accepted targets of the first run + delta, "
    "delta in {0, +-1, 2, -3, 10^6}, and first runs that raised the calibration error a second time with "
    "overrulable models); distinct = distinct (rank "
    "pattern of scores, labels, direction, threshold) resp. (fold pattern, per-fold rank patterns, labels, "
    "threshold); non-trivial = some target accepted, at least one decoy, at least two distinct scores, or an "
    "error case with at least one target; thorough adds the exhaustive sweep over all score vectors over 3 "
    "values x labellings x directions x 2 thresholds for n <= 6"
)

NOPOS_MSG = "No target PSMs were below the 'eval_fdr' threshold."
BREW_MSG = "Failed to calibrate scores between cross-validation folds"
EMPTY_MSG = "No PSMs were detected."
THRS = [Fraction(1), Fraction(1, 2), Fraction(1, 4), Fraction(1, 8), Fraction(3, 4), Fraction(3, 8),
        Fraction(0.1), Fraction(0.05), Fraction(0.01), Fraction(0.3)]
THR_W = [4, 4, 3, 1, 2, 2, 2, 1, 1, 2]


def pick_thr(rng, ntargets):
    """mostly thresholds that `ntargets` targets can reach (the smallest possible q-value is 1/ntargets)"""
    for _ in range(6):
        thr = rng.choices(THRS, THR_W)[0]
        if ntargets == 0 or thr * ntargets >= 1 or rng.random() < 0.1:
            return thr
    return thr


# ----------------------------------------------------------------------------
# helpers
# ----------------------------------------------------------------------------
def q_rounded(q: Fraction) -> float:
    """the float32 the code stores for a q-value (np.divide of int arrays into a float32 out-array)"""
    out = np.ones(1, dtype=np.float32)
    np.divide(np.array([q.numerator]), np.array([q.denominator]), out=out)
    return float(out[0])


def fl(x: Fraction, sdtype="float64") -> float:
    """correctly rounded value of the exact quotient in the array's dtype"""
    if sdtype == "float32":
        return float(common.f32(x))
    return x.numerator / x.denominator  # int/int true division is correctly rounded


def dec_xr(tok, sdtype="float64"):
    if tok == "pinf":
        return math.inf
    if tok == "ninf":
        return -math.inf
    if tok == "nan":
        return math.nan
    return fl(a_rat(tok), sdtype)


def same(a: float, b: float) -> bool:
    return (a != a and b != b) or a == b


def same_list(a, b):
    return len(a) == len(b) and all(same(x, y) for x, y in zip(a, b))


def dec_opt(v, f):
    """decode `none` / `[x]`"""
    if v == "none":
        return None
    return f(v[0])


def dec_spec(v):
    """[t? d? values?] -> (t, d, values) with None where undefined"""
    t = dec_opt(v[0], a_rat)
    d = dec_opt(v[1], a_rat)
    vals = dec_opt(v[2], lambda l: [a_rat(x) for x in l])
    return t, d, vals


def rank_pattern(scores):
    vals = sorted(set(scores))
    return tuple(vals.index(s) for s in scores)


def clause_checks(raw, out, t, d):
    """direct re-statement of the property's clauses on the implementation's output of one fold
    (raw: exact scores, out: floats, t: lowest accepted target, d: decoy median, t > d)"""
    n = len(raw)
    if len(out) != n:
        return "length"
    if any(not math.isfinite(o) for o in out):
        return "finite"
    order = sorted(range(n), key=lambda i: raw[i])
    for a, b in zip(order, order[1:]):
        if raw[a] == raw[b]:
            if out[a] != out[b]:
                return "ties-preserved"
        elif not out[a] < out[b]:
            return "strictly-increasing"
    for i in range(n):
        if raw[i] == t and out[i] != 0.0:
            return "anchor-0"
        if raw[i] == d and out[i] != -1.0:
            return "anchor-minus-1"
        if (raw[i] > t) != (out[i] > 0.0) or (raw[i] > d) != (out[i] > -1.0):
            return "anchor-sides"
    return None


# ----------------------------------------------------------------------------
# function level
# ----------------------------------------------------------------------------
SDTYPES = ["float64", "float64", "float64", "float32", "int64"]
ENTRIES = ["func", "func", "func", "func-series", "ondisk-parquet", "ondisk-parquet", "ondisk-tsv"]


def gen_case(rng, nmax=40):
    n = min(nmax, rng.choice([1, 2, 3, 3, 4, 4, 5, 5, 6, 7, 8, 10, 12, 15, 20, 30, 40]))
    pat = rng.choice(["good"] * 10 + ["separated"] * 4 + ["mixed"] * 3 + ["target_top"] * 2 +
                     ["all_target", "all_decoy", "decoy_top", "one_decoy"])
    sdt = rng.choice(SDTYPES)
    pool = rng.randint(1, max(1, n))
    if sdt == "int64":
        vals = [Fraction(v) for v in rng.sample(range(-50, 50), min(pool, 100))]
    elif sdt == "float32":
        vals = [Fraction(rng.randint(-2000, 2000), rng.choice([1, 2, 4, 8])) for _ in range(pool)]
    else:
        vals = [Fraction(rng.randint(-4000, 4000), rng.choice([1, 1, 2, 4, 8, 16])) for _ in range(pool)]
    desc = rng.random() < 0.85
    thr = None
    if pat == "good":
        # enough targets above every decoy to be accepted at the threshold, the rest interleaved
        thr = rng.choices(THRS, [5, 5, 4, 2, 3, 3, 1, 0.3, 0.1, 2])[0]
        need = -(-1 // thr)  # ceil(1/thr)
        n = max(n, min(max(nmax, 12), need + 1 + rng.randint(0, 3)))
        top = min(n - 1, need + rng.randint(0, 3))
        labels = [True] * top + [rng.random() < 0.4 for _ in range(n - top)]
        if n > top and all(labels):
            labels[-1] = False
        srt = sorted(vals)
        cut = rng.randint(0, max(0, len(srt) - 1))
        low, high = srt[:cut + 1], srt[cut:]
        width = (max(srt) - min(srt)) + 1
        w = width if rng.random() < 0.85 else 0
        scores = [rng.choice(high) + w for _ in range(top)] + \
                 [rng.choice(low) for _ in range(n - top)]
        if not desc:
            scores = [-x for x in scores]
        perm = list(range(n))
        rng.shuffle(perm)
        labels = [labels[i] for i in perm]
        scores = [scores[i] for i in perm]
    elif pat == "mixed":
        p = rng.choice([0.3, 0.5, 0.8])
        labels = [rng.random() < p for _ in range(n)]
        scores = [rng.choice(vals) for _ in range(n)]
    elif pat == "separated":
        p = rng.choice([0.4, 0.5, 0.7])
        labels = [rng.random() < p for _ in range(n)]
        lo, hi = min(vals), max(vals)
        shift = (hi - lo) * Fraction(rng.choice([1, 2, 3]), 4) + Fraction(rng.choice([0, 1, 2]))
        if not desc:
            shift = -shift
        scores = []
        for lab in labels:
            s = rng.choice(vals)
            if lab and rng.random() < 0.8:
                s = s + shift
            scores.append(s)
    elif pat == "all_target":
        labels = [True] * n
        scores = [rng.choice(vals) for _ in range(n)]
    elif pat == "all_decoy":
        labels = [False] * n
        scores = [rng.choice(vals) for _ in range(n)]
    elif pat == "one_decoy":
        labels = [True] * n
        labels[rng.randrange(n)] = False
        scores = [rng.choice(vals) for _ in range(n)]
    else:
        scores = [rng.choice(vals) for _ in range(n)]
        order = sorted(range(n), key=lambda i: scores[i], reverse=True)
        k = rng.randint(0, n)
        labels = [None] * n
        for r, i in enumerate(order):
            labels[i] = (r >= k) if pat == "decoy_top" else (r < k)
    if sdt == "int64":
        scores = [Fraction(int(s)) for s in scores]
    entry = rng.choice(ENTRIES)
    if entry != "func":
        sdt = "float64"
    c = dict(scores=scores, labels=labels, desc=desc, thr=thr or pick_thr(rng, sum(labels)), sdtype=sdt, entry=entry, pat=pat,
             lkind=rng.choice(["bool", "pm1", "pm1", "01"]))
    # second pass: encoding of the target array handed to the module-level function (0/1 only: tdc refuses
    # anything else in an array, and a Series is cast) and magnitude of the scores
    c["tkind"] = rng.choice(TKINDS) if entry in ("func", "func-series") else "bool"
    if rng.random() < 0.35:
        apply_scale(c, *pick_scale(rng, sdt))
    return c


TKINDS = ["bool", "bool", "bool", "int01", "int8-01", "float01"]


def pick_scale(rng, sdt):
    """(e, off): scores become 2^e * (s + off); chosen so that every value, every difference and the mean of
    two values stay exactly representable in the array's dtype"""
    if sdt == "int64":
        # qvalues.tdc casts integer scores to float32 (qvalues.py:106-107): an order embedding only below 2^24
        # (C01 states its property for "small-integer dtype"; GAPS-C01 G1-d) -- larger integers are merged there
        return 0, rng.choice([10 ** 6, -10 ** 6, 2 ** 23])
    if sdt == "float32":
        return rng.choice([-60, -30, -10, 0, 10, 40]), rng.choice([0, 0, 1024, -4096])
    return (rng.choice([-300, -70, -40, -27, -12, 0, 10, 20, 40, 200]),
            rng.choice([0, 0, 10 ** 4, 2 ** 20, 2 ** 30, -2 ** 27, 10 ** 9]))


def apply_scale(c, e, off):
    if e == 0 and off == 0:
        return
    c["base_scores"] = list(c["scores"])
    c["scale"] = [e, off]
    c["scores"] = [Fraction(2) ** e * (x + off) for x in c["scores"]]


def target_array(labels, tkind):
    if tkind == "int01":
        return np.array([1 if b else 0 for b in labels], dtype=np.int64)
    if tkind == "int8-01":
        return np.array([1 if b else 0 for b in labels], dtype=np.int8)
    if tkind == "float01":
        return np.array([1.0 if b else 0.0 for b in labels], dtype=np.float64)
    return np.array(labels, dtype=bool)


def jsonable(c):
    d = dict(c)
    d["scores"] = [str(x) for x in c["scores"]]
    if "base_scores" in c:
        d["base_scores"] = [str(x) for x in c["base_scores"]]
    d["thr"] = str(c["thr"])
    return d


def from_json(d):
    c = dict(d)
    c["scores"] = [Fraction(x) for x in d["scores"]]
    if "base_scores" in d:
        c["base_scores"] = [Fraction(x) for x in d["base_scores"]]
    c["thr"] = Fraction(d["thr"])
    return c


class Tmp:
    """one scratch directory per run"""

    def __init__(self):
        self.dir = Path(tempfile.mkdtemp(prefix="c11-"))
        self.n = 0

    def path(self, suffix):
        self.n += 1
        return self.dir / f"f{self.n}{suffix}"

    def close(self):
        shutil.rmtree(self.dir, ignore_errors=True)


def write_table(df, path, row_group_size=None):
    if path.suffix == ".parquet":
        if row_group_size:
            df.to_parquet(path, index=False, row_group_size=row_group_size)
        else:
            df.to_parquet(path, index=False)
    else:
        df.to_csv(path, sep="\t", index=False)


def ondisk(path, df, features, spectra):
    from mokapot.dataset import OnDiskPsmDataset

    return OnDiskPsmDataset(
        filename=path, columns=list(df.columns), target_column="Label", spectrum_columns=["ScanNr", "ExpMass"],
        peptide_column="Peptide", protein_column="Proteins", feature_columns=features,
        metadata_columns=["SpecId", "Label", "ScanNr", "ExpMass", "Peptide", "Proteins"],
        metadata_column_types=None, level_columns=["Peptide"], filename_column=None, scan_column="ScanNr",
        specId_column="SpecId", calcmass_column=None, expmass_column="ExpMass", rt_column=None,
        charge_column=None, spectra_dataframe=spectra,
    )


def label_column(labels, lkind):
    if lkind == "bool":
        return np.array(labels, dtype=bool)
    if lkind == "01":  # utils.convert_targets_column: target iff the value is 1; -1 and 0 are both decoys
        return np.array([1 if b else 0 for b in labels], dtype=np.int64)
    return np.array([1 if b else -1 for b in labels], dtype=np.int64)


def impl_calibrate(c, tmp):
    """call the real code; returns ('ok', floats) | ('nopos', msg) | ('exc', repr)"""
    import mokapot.dataset as D

    s = np.array([float(x) for x in c["scores"]], dtype=c["sdtype"])
    t = target_array(c["labels"], c.get("tkind", "bool"))
    thr = float(c["thr"])
    try:
        if c["entry"] == "func":
            out = D.calibrate_scores(s, t, thr, c["desc"])
        elif c["entry"] == "func-series":
            out = D.calibrate_scores(pd.Series(s), pd.Series(t), thr, desc=c["desc"])
        else:
            n = len(s)
            df = pd.DataFrame({
                "SpecId": np.arange(n), "Label": label_column(c["labels"], c["lkind"]), "ScanNr": np.arange(n),
                "ExpMass": np.arange(n) * 1.0, "Peptide": [f"P{i}" for i in range(n)], "Proteins": ["x"] * n,
                "score": s,
            })
            path = tmp.path(".parquet" if c["entry"] == "ondisk-parquet" else ".tsv")
            write_table(df, path)
            ds = ondisk(path, df, ["score"], df[["ScanNr", "ExpMass", "Label"]].copy())
            out = ds.calibrate_scores(s, thr, c["desc"])
        return "ok", [float(x) for x in np.asarray(out, dtype=float)]
    except RuntimeError as e:
        if str(e) == NOPOS_MSG:
            return "nopos", str(e)
        return "exc", f"RuntimeError: {e}"
    except Exception as e:
        return "exc", f"{type(e).__name__}: {str(e)[:300]}"


def wire_rows(c):
    return [[Fraction(x), bool(l)] for x, l in zip(c["scores"], c["labels"])]


def eval_cases(chk, cases, tmp):
    lines, start = [], []
    for c in cases:
        rows = wire_rows(c)
        start.append(len(lines))
        lines.append(req("qspec", c["desc"], rows) if rows else "median []")
        lines.append(req("calib", c["desc"], c["thr"], rows))
        lines.append(req("calspec", c["desc"], c["thr"], rows))
        if c.get("scale") and rows:
            # the Lean transformation `rescaleRows` of the un-scaled rows (must be the rows sent above)
            e, off = c["scale"]
            lines.append(req("rescale", Fraction(2) ** e, Fraction(2) ** e * off,
                             [[Fraction(x), bool(l)] for x, l in zip(c["base_scores"], c["labels"])]))
    resp = common.driver_batch(lines)
    for k, c in enumerate(cases):
        p0 = start[k]
        qs = [a_rat(x) for x in dec(resp[p0])] if c["scores"] else []
        model_raw = resp[p0 + 1].strip()
        t, d, vals = dec_spec(dec(resp[p0 + 2]))
        thr_f = float(c["thr"])
        # a q-value on the float32/float64 rounding boundary of the threshold: not decided by the model
        if any((q_rounded(q) > thr_f) != (q > c["thr"]) for q, lab in zip(qs, c["labels"]) if lab):
            chk.float_boundary += 1
            chk.count("float-boundary")
            continue
        kind, got = impl_calibrate(c, tmp)
        in_q = t is not None and d is not None and t > d
        nontriv = None
        if (in_q and len(set(c["scores"])) >= 2) or (t is None and any(c["labels"])):
            nontriv = ("f", rank_pattern(c["scores"]), tuple(c["labels"]), c["desc"], str(c["thr"]))
        chk.case(None, nontriv, sample=dict(level="function", **jsonable(c), impl=got if kind != "ok" else
                                           [repr(x) for x in got], model=model_raw[:200]))
        n = len(c["scores"])
        chk.count("f.n", n if n < 10 else (n // 10) * 10)
        chk.count("f.entry", c["entry"])
        chk.count("f.sdtype", c["sdtype"])
        chk.count("f.desc", c["desc"])
        chk.count("f.pattern", c["pat"])
        chk.count("f.thr", str(c["thr"]) if c["thr"].denominator < 100 else f"{float(c['thr']):g}")
        chk.count("f.ties", len(set(c["scores"])) < n)
        if c["entry"].startswith("ondisk"):
            chk.count("f.labels", c["lkind"])
        else:
            chk.count("f.targets-encoding", f"{c['entry']}:{c.get('tkind', 'bool')}")
        sc = c.get("scale") or [0, 0]
        chk.count("f.scale", f"2^{sc[0]}")
        chk.count("f.offset", sc[1] if abs(sc[1]) < 10 ** 5 else f"{'-' if sc[1] < 0 else ''}2^{abs(sc[1]).bit_length() - 1}..")
        cls = ("error:no-accepted-target" if t is None else "nan:no-decoy" if d is None else
               "in-quantifier:t>d" if t > d else "outside:t=d" if t == d else "outside:t<d")
        chk.count("f.class", cls)
        info = dict(case=jsonable(c), impl=[kind, got if kind != "ok" else [repr(x) for x in got]])
        # ---- spec, evaluated independently of the model ---------------------------------
        viol = None
        if kind == "exc":
            viol = ("unexpected-exception", "calibration raised something other than the explicit RuntimeError")
        elif t is None and kind != "nopos":
            viol = ("missing-error", "no target is accepted at eval_fdr but scores were returned")
        elif t is not None and kind == "nopos":
            viol = ("spurious-error", "a target is accepted at eval_fdr but the explicit error was raised")
        elif in_q:
            exp = [fl(v, c["sdtype"]) for v in vals]
            if not same_list(got, exp):
                viol = ("formula", "returned scores differ from (s - t)/(t - d)")
            else:
                cl = clause_checks(c["scores"], got, t, d)
                if cl:
                    viol = (cl, "clause violated on the returned scores")
        if not viol and c.get("scale"):
            # comparable across fold models: the real code on a*s + b must return what it returns on s
            # (same floats: every intermediate value is exact, the one division sees the same quotient)
            chk.count("f.scale-invariance-compared", cls)
            if c["scores"]:
                want = [[Fraction(x), bool(l)] for x, l in zip(c["scores"], c["labels"])]
                back = dec(resp[p0 + 3])
                back = back if back and isinstance(back[0], list) else [back]
                if [[a_rat(r[0]), r[1] == "T"] for r in back] != want:
                    chk.corr_break("rescale", dict(info, model=resp[p0 + 3][:500]))
            kb, gb = impl_calibrate(dict(c, scores=c["base_scores"]), tmp)
            if kb != kind or (kind == "ok" and not same_list(got, gb)):
                viol = ("scale-invariance", f"scores returned for 2^{c['scale'][0]}*(s + {c['scale'][1]}) differ from "
                        f"those returned for s: {[kb, gb if kb != 'ok' else [repr(x) for x in gb]]}")
        if viol:
            chk.spec_violation(f"calibrate:{viol[0]}:{c['entry']}",
                               dict(info, expected=dict(t=str(t), d=str(d), values=None if vals is None else
                                                        [str(v) for v in vals]), clause=viol[1]))
            continue
        if kind != "ok" and t is not None:
            continue
        if kind == "nopos" and t is None and n == 0:
            chk.reject("empty-input:RuntimeError")
        if not in_q and kind == "ok":
            chk.reject(cls)  # outside the property's quantifier (no exception; nan/inf/reversed scores)
        # ---- model ---------------------------------------------------------------------
        if kind == "nopos":
            if model_raw != "reject-nopositive":
                chk.corr_break("calib", dict(info, model=model_raw))
        else:
            if model_raw.startswith("reject"):
                chk.corr_break("calib", dict(info, model=model_raw))
                continue
            m = dec(model_raw)
            m = [m] if not isinstance(m, list) else m
            mv = [dec_xr(x, c["sdtype"]) for x in m]
            if not same_list(got, mv):
                chk.corr_break("calib", dict(info, model=model_raw[:1000]))


def exhaustive(chk, nmax, nvals, tmp):
    cases = []
    for n in range(0, nmax + 1):
        for sc in itertools.product(range(nvals), repeat=n):
            for lab in itertools.product([False, True], repeat=n):
                for desc in (True, False):
                    for thr in (Fraction(1, 2), Fraction(1)):
                        cases.append(dict(scores=[Fraction(x) for x in sc], labels=list(lab), desc=desc, thr=thr,
                                          sdtype="float64", entry="func", pat="exhaustive", lkind="bool"))
    for i in range(0, len(cases), 20000):
        eval_cases(chk, cases[i:i + 20000], tmp)
    chk.extra["exhaustive_sweep"] = (
        f"calibrate_scores: all score vectors over {nvals} values x labellings x directions x thr in (1/2, 1), "
        f"n<={nmax}: {len(cases)} cases")


# ----------------------------------------------------------------------------
# brew level
# ----------------------------------------------------------------------------
# second pass: `dfgetattr` (decision_function reached through __getattr__, a delegating wrapper), `dfinst` (stored on
# the instance only) expose one; `dfhidden` carries the name on the class but attribute access on the instance raises
# AttributeError (sklearn's `available_if`), so it does NOT expose one and scores with predict_proba
DF_KINDS = ("df", "both", "dfgetattr", "dfinst")
PROBA_KINDS = ("proba1", "proba2", "probacol", "dfhidden")
EST_KINDS = DF_KINDS + PROBA_KINDS


def has_df(kind):
    """does an estimator of this kind expose `decision_function` (the test of brew.py:462)?"""
    return kind in DF_KINDS


def recorder_class(kind="df"):
    from sklearn.base import BaseEstimator

    class Base(BaseEstimator):
        """records the rows it is asked to score; column 1 of the features is the row id.
        `table` (row id -> raw score) is used when given (pre-trained mode); otherwise the
        raw output is `a * feature0 + b` with (a, b) derived from the training rows."""

        REG = []  # every instance that was fitted (brew fits deep copies it does not hand out when it raises)

        def __init__(self, table=None, odtype="float64"):
            self.table = table
            self.odtype = odtype

        def _log(self):
            if not hasattr(self, "log_"):
                self.log_ = []
            return self.log_

        def fit(self, X, y):
            ids = sorted(int(v) for v in X[:, 1])
            h = zlib.crc32(repr(ids).encode())
            self.a_ = 1 + h % 3
            self.b_ = (h // 3) % 7 - 3
            self._log().append(("fit", None))
            if not any(e is self for e in type(self).REG):
                type(self).REG.append(self)
            return self

        def _raw(self, X):
            ids = [int(v) for v in X[:, 1]]
            self._log().append(("dec", ids))
            if self.table is not None:
                return np.array([self.table[i] for i in ids], dtype=self.odtype)
            return np.asarray(self.a_ * X[:, 0] + self.b_, dtype=self.odtype)

    class Recorder(Base):
        def decision_function(self, X):
            return self._raw(X)

    class RecorderBoth(Recorder):
        """also exposes predict_proba (like LogisticRegression): the decision function is still what
        mokapot must use and calibrate; the probabilities are deliberately unrelated to it"""

        def predict_proba(self, X):
            p = 1.0 / (1.0 + np.exp(np.asarray(X[:, 0], dtype=float) % 3 - 1))
            return np.column_stack([1 - p, p])

    class RecorderProba1(Base):
        """no decision function: brew must return this fold's scores uncalibrated (1-d predict_proba)"""

        def predict_proba(self, X):
            return self._raw(X)

    class RecorderProba2(Base):
        """sklearn layout: two columns, the second one is the score"""

        def predict_proba(self, X):
            r = np.asarray(self._raw(X), dtype=float)
            return np.column_stack([-r, r])

    class RecorderProbaCol(Base):
        """skorch layout: a single column"""

        def predict_proba(self, X):
            return np.asarray(self._raw(X), dtype=float).reshape(-1, 1)

    class RecorderGetattr(Base):
        """a delegating wrapper: `decision_function` is not in the class, `__getattr__` supplies it"""

        def __getattr__(self, name):
            if name == "decision_function":
                return self._raw
            raise AttributeError(name)

    class RecorderInst(Base):
        """`decision_function` lives on the instance only"""

        def __init__(self, table=None, odtype="float64"):
            super().__init__(table=table, odtype=odtype)
            self.decision_function = self._raw

    class RecorderHidden(Base):
        """the class carries the name, the instance withholds it (what sklearn's `available_if` does for a
        pipeline / search / calibrated wrapper around a classifier without decision function): no decision
        function is exposed, `Model` scores with predict_proba and brew must not calibrate"""

        @property
        def decision_function(self):
            raise AttributeError("This 'RecorderHidden' has no attribute 'decision_function'")

        def predict_proba(self, X):
            return self._raw(X)

    return dict(df=Recorder, both=RecorderBoth, proba1=RecorderProba1, proba2=RecorderProba2,
                probacol=RecorderProbaCol, dfgetattr=RecorderGetattr, dfinst=RecorderInst,
                dfhidden=RecorderHidden)[kind]


def case_ests(bc):
    """estimator kind per fold model (older corpus entries only carry `both`)"""
    if bc.get("ests"):
        return list(bc["ests"])
    return ["both" if bc.get("both") else "df"] * bc["k"]


def gen_brew_case(rng, small=False):
    k = rng.choice([2, 2, 3, 3, 4, 5, 6])
    ncoll = 2 if rng.random() < 0.2 else 1
    mode = "trained" if rng.random() < 0.3 else "pretrained"
    colls = []
    base = 0
    clean = rng.random() < 0.55  # targets clearly above decoys in every fold model: mostly inside the quantifier
    thr = rng.choices(THRS[:8], [8, 6, 2, 1, 3, 2, 1, 0.5])[0]
    if clean:
        thr = rng.choices([Fraction(1), Fraction(1, 2), Fraction(3, 4), Fraction(1, 4), Fraction(3, 8)], [5, 5, 3, 2, 2])[0]
    for _ in range(ncoll):
        n = rng.randint(2 * k, max(2 * k, 14)) if small else k * rng.randint(3, 12) + rng.randint(0, k - 1)
        if clean and not small:
            n = max(n, k * (2 * int(-(-1 // thr)) + 4))
        if mode == "trained":
            n = max(n, 8 * k)
        nspec = rng.choice([n, n, rng.randint(max(k, n // 2), n), rng.randint(k, n)])
        scan = [rng.randrange(nspec) for _ in range(n)]
        for i in range(min(nspec, n)):
            scan[i] = i  # every spectrum id up to nspec occurs
        rng.shuffle(scan)
        p = rng.choice([0.4, 0.5, 0.6])
        labels = [rng.random() < p for _ in range(n)]
        spread = rng.choice([3, 6, 10, 20])
        sep = rng.choice([0, spread // 2, spread, spread, 2 * spread, 2 * spread, 2 * spread])
        hit = rng.choice([0.7, 0.85, 0.95, 1.0])
        if clean:
            spread, hit = rng.choice([3, 6, 10]), 1.0
            sep = 2 * spread
        feat = [rng.randrange(spread) + (sep if lab and rng.random() < hit else 0) for lab in labels]
        tables = []
        for f in range(k):
            kind = rng.choice(["affine", "affine", "noise", "flip-some", "constant"]) if mode == "pretrained" \
                else "fit"
            if clean and mode == "pretrained":
                kind = rng.choice(["affine", "noise", "noise"])
            a, b = rng.choice([1, 2, 3, 5]), rng.randint(-20, 20)
            if kind == "affine":
                tab = [a * x + b for x in feat]
            elif kind == "noise":
                tab = [a * x + b + rng.randint(-2, 2) for x in feat]
            elif kind == "flip-some":
                tab = [(a * x + b) if rng.random() < 0.8 else rng.randint(-10, 40) for x in feat]
            elif kind == "constant":
                tab = [b for _ in feat]
            else:
                tab = None
            tables.append(tab)
        colls.append(dict(n=n, scan=scan, labels=labels, feat=feat, tables=tables, base=base,
                          lkind=rng.choice(["bool", "pm1", "01"])))
        base += 1000
    n_all = min(c["n"] for c in colls)
    chunk = rng.choice([700000, 700000, n_all, max(1, n_all // 2), max(1, n_all // 3), 7, 5])
    workers = rng.choice([1, 1, 1, 2])
    if rng.random() < 0.12:
        # tiny chunks: (almost) every chunk lacks rows of most folds; at most ~12 chunks per collection and one
        # worker, because every chunk costs one joblib dispatch
        chunk, workers = max(rng.choice([1, 1, 2, 3]), -(-n_all // 12)), 1
    both = rng.random() < 0.3
    # one estimator kind per fold model (brew.py:461-470 tests every model's own estimator)
    r = rng.random()
    uniform_df = ("both" if both else "df") if rng.random() < 0.75 else rng.choice(["dfgetattr", "dfinst"])
    if mode == "trained":
        # one estimator is cloned for every fold: uniform by construction
        ests = [uniform_df if r < 0.8 else rng.choice(PROBA_KINDS)] * k
    elif r < 0.6:
        ests = [uniform_df] * k
    elif r < 0.92:
        ests = [rng.choice(EST_KINDS) for _ in range(k)]
        ests[rng.randrange(k)] = rng.choice(DF_KINDS)
        ests[rng.choice([i for i in range(k) if not has_df(ests[i])] or [rng.randrange(k)])] = rng.choice(PROBA_KINDS)
    else:
        ests = [rng.choice(PROBA_KINDS)] * k
    # ---- second pass --------------------------------------------------------------------------------
    # dtype of what the estimators return (xgboost / skorch style float32), magnitude of every fold model's
    # decision function (a fold model is only determined up to a positive affine map), file format, and the
    # order in which the pre-trained models are listed (brew sorts them by their `fold` attribute)
    odtype = "float32" if rng.random() < 0.12 else "float64"
    scales = []
    for f in range(k):
        e, off = 0, 0
        if mode == "pretrained" and has_df(ests[f]) and rng.random() < 0.4:
            if odtype == "float32":
                e, off = rng.choice([-40, -10, 0, 10, 30]), rng.choice([0, 0, 2048])
            else:
                e, off = (rng.choice([-300, -60, -30, -10, 0, 10, 30, 100]),
                          rng.choice([0, 0, 10 ** 4, 2 ** 20, 2 ** 30, -2 ** 27]))
        scales.append([e, off])
    fmt = rng.choice(["parquet", "parquet", "parquet-rowgroups", "tsv"])
    morder = list(range(k))
    if mode == "pretrained" and rng.random() < 0.7:
        rng.shuffle(morder)
    # the `fold` attributes of the pre-trained models: brew only sorts by them (mostly 1..k as brew itself sets them)
    foldattr = list(range(1, k + 1)) if rng.random() < 0.6 else sorted(rng.sample(range(0, 25), k))
    # ---- third pass: the decision between `_predict` and the return of brew (brew.py:253-291) -------------
    # the pre-trained models are given override / feat_pass / best_feat / desc such that the largest feat_pass
    # sits at, just below or just above the number of targets the calibrated scores accept (known after a first
    # run with override=True): `delta` is added to that number
    keep = None
    if mode == "pretrained" and rng.random() < 0.7:
        allov = rng.random() < 0.15
        keep = dict(delta=rng.choice([1, 2, 10 ** 6, 0] if allov else [0, 0, 0, 0, 0, 0, 1, 1, -1, -1, 2, -3, 10 ** 6]),
                    who=rng.randrange(k),
                    tie_with=rng.randrange(k) if rng.random() < 0.3 else None,
                    override=[allov or rng.random() < 0.3 for _ in range(k)],
                    frac=[rng.choice([0, 0.5, 0.9, 1.0]) for _ in range(k)],
                    best_feat=[rng.choice(["score", "rowid"]) for _ in range(k)],
                    desc=[rng.random() < 0.7 for _ in range(k)])
    return dict(k=k, mode=mode, colls=colls, thr=thr, keep=keep,
                chunk=chunk, workers=workers, seed=rng.randrange(10 ** 6),
                both=both, ests=ests,
                train_fdr=rng.choice([0.5, 1.0]),
                odtype=odtype, scales=scales, fmt=fmt, rowgroup=rng.choice([1, 2, 3, 5, 7, 16]), morder=morder,
                foldattr=foldattr)


def tab_value(bc, cl, f, i):
    """raw output of fold model `f` on row `i` (pre-trained mode): 2^e * (table + off), exact"""
    e, off = (bc.get("scales") or [[0, 0]] * bc["k"])[f]
    v = cl["tables"][f][i]
    return v if e == 0 and off == 0 else Fraction(2) ** e * (v + off)


def coll_frame(cl):
    n = cl["n"]
    return pd.DataFrame({
        "SpecId": np.arange(n) + cl["base"], "Label": label_column(cl["labels"], cl["lkind"]),
        "ScanNr": np.array(cl["scan"], dtype=np.int64), "ExpMass": np.array(cl["scan"], dtype=float) * 0.5 + 100.0,
        "Peptide": [f"P{i + cl['base']}" for i in range(n)], "Proteins": ["x"] * n,
        "score": np.array(cl["feat"], dtype=float), "rowid": np.arange(n, dtype=float) + cl["base"],
    })


def run_brew(bc, tmp, keep=None):
    """returns dict(status=..., scores=[...per collection], folds=[[fold per row] per collection],
    raw=[[raw per row] per collection]).  `keep` (third pass, pre-trained mode): per fold model the attributes the
    final decision of brew (brew.py:253-291) reads -- dict(override=[..], feat_pass=[..], best_feat=[..], desc=[..]);
    without it every model carries override=True (the learned scores are always returned)."""
    import mokapot
    from mokapot.model import Model

    brewmod = importlib.import_module("mokapot.brew")
    ests = case_ests(bc)
    k = bc["k"]
    dss, frames = [], []
    for cl in bc["colls"]:
        df = coll_frame(cl)
        fmt = bc.get("fmt", "parquet")
        path = tmp.path(".tsv" if fmt == "tsv" else ".parquet")
        write_table(df, path, bc.get("rowgroup", 3) if fmt == "parquet-rowgroups" else None)
        frames.append(df)
        dss.append(ondisk(path, df, ["score", "rowid"], df[["ScanNr", "ExpMass", "Label"]].copy()))
    # fold membership as `_split` computes it with the generator state brew will use (cross-check only)
    split_ref = []
    gen = np.random.default_rng(bc["seed"])
    for cl, df in zip(bc["colls"], frames):
        ref = ondisk(dss[0].filename, df, ["score", "rowid"], df[["ScanNr", "ExpMass", "Label"]].copy())
        try:
            sp = ref._split(k, gen)
            fold_of = [None] * cl["n"]
            for f, idx in enumerate(sp):
                for i in idx:
                    fold_of[int(i)] = f
            split_ref.append(fold_of)
        except Exception as e:
            return dict(status="split-raises", error=f"{type(e).__name__}: {str(e)[:100]}", split_ref=[])
    odtype = bc.get("odtype", "float64")
    trained_cls = None
    if bc["mode"] == "pretrained":
        models = []
        for f in range(k):
            table = {}
            for cl in bc["colls"]:
                for i in range(len(cl["tables"][f])):
                    table[i + cl["base"]] = float(tab_value(bc, cl, f, i))
            m = Model(recorder_class(ests[f])(table=table, odtype=odtype), scaler="as-is", override=True)
            m.is_trained = True
            m.features = ["score", "rowid"]
            m.fold = (bc.get("foldattr") or list(range(1, k + 1)))[f]
            if keep is not None:
                m.override = bool(keep["override"][f])
                m.feat_pass = int(keep["feat_pass"][f])
                m.best_feat = keep["best_feat"][f]
                m.desc = bool(keep["desc"][f])
            models.append(m)
        # brew sorts the given models by their `fold` attribute: the order of the list must not matter
        model_arg = [models[j] for j in bc.get("morder", range(k))]
    else:
        trained_cls = recorder_class(ests[0])
        model_arg = Model(trained_cls(odtype=odtype), scaler="as-is", override=True, train_fdr=bc["train_fdr"],
                          max_iter=2, rng=bc["seed"])
    old = brewmod.CHUNK_SIZE_ROWS_PREDICTION
    brewmod.CHUNK_SIZE_ROWS_PREDICTION = bc["chunk"]
    res = dict(status="ok", split_ref=split_ref)
    try:
        arg = dss if len(dss) > 1 else dss[0]
        _, mods, scores, descs = mokapot.brew(arg, model_arg, test_fdr=float(bc["thr"]), folds=k,
                                              max_workers=bc["workers"], rng=bc["seed"])
        res["shapes"] = [list(np.shape(s)) for s in scores]
        res["scores"] = [[float(x) for x in np.asarray(s, dtype=float).ravel()] for s in scores]
        res["descs"] = list(descs)
    except RuntimeError as e:
        mods = models if bc["mode"] == "pretrained" else None
        if str(e).startswith(BREW_MSG):
            res["status"] = "calib-error"
        else:
            res["status"] = "exc"
            res["error"] = f"RuntimeError: {e}"
    except ValueError as e:
        mods = models if bc["mode"] == "pretrained" else None
        res["status"] = "empty-fold" if "need at least one array" in str(e) else "exc"
        res["error"] = f"ValueError: {str(e)[:300]}"
    except Exception as e:
        mods = models if bc["mode"] == "pretrained" else None
        res["status"] = "exc"
        res["error"] = f"{type(e).__name__}: {str(e)[:300]}"
    finally:
        brewmod.CHUNK_SIZE_ROWS_PREDICTION = old
    if mods is None and trained_cls is not None and res["status"] in ("calib-error", "empty-fold"):
        # trained mode and brew raised: the fold models are deep copies that brew does not hand out; they
        # registered themselves when they were fitted
        mods = recover_models(trained_cls.REG, bc, split_ref)
        res["recovered"] = mods is not None
    # fold membership and raw scores from the recorders
    if mods is not None:
        folds = [[None] * cl["n"] for cl in bc["colls"]]
        raw = [[None] * cl["n"] for cl in bc["colls"]]
        dup = False
        for f, m in enumerate(sorted(mods, key=lambda m: m.fold)):
            est = m.estimator
            log = getattr(est, "log_", [])
            last_fit = max([i for i, (kind, _) in enumerate(log) if kind == "fit"], default=-1)
            calls = [ids for kind, ids in log[last_fit + 1:] if kind == "dec"]
            if last_fit >= 0:
                calls = calls[1:]  # the first call after the last fit scores the training rows
            for ids in calls:
                for rid in ids:
                    ci, i = divmod(rid, 1000)
                    if folds[ci][i] is not None:
                        dup = True
                    folds[ci][i] = f
                    cl = bc["colls"][ci]
                    raw[ci][i] = tab_value(bc, cl, f, i) if bc["mode"] == "pretrained" else est.a_ * cl["feat"][i] + est.b_
        res["folds"], res["raw"], res["dup"] = folds, raw, dup
    return res


def recover_models(reg, bc, split_ref):
    """trained mode: which registered estimator is the model of which fold.  After its last `fit` a fold model
    first scores its whole training set (end of `Model.fit`); the training set of fold f is everything but the
    test rows of fold f (taken from `_split` with the generator state brew used).  None if that does not identify
    one fitted estimator per fold (some fold model was not trained to the end: training failed)."""
    k = bc["k"]
    if len(split_ref) != len(bc["colls"]) or any(sr is None for sr in split_ref):
        return None
    all_ids = {i + cl["base"] for cl in bc["colls"] for i in range(cl["n"])}
    test = [{i + cl["base"] for ci, cl in enumerate(bc["colls"]) for i in range(cl["n"]) if split_ref[ci][i] == f}
            for f in range(k)]
    out = {}
    for est in reg:
        log = getattr(est, "log_", [])
        last_fit = max([i for i, (kind, _) in enumerate(log) if kind == "fit"], default=-1)
        decs = [ids for kind, ids in log[last_fit + 1:] if kind == "dec"]
        if last_fit < 0 or not decs or not hasattr(est, "a_"):
            return None
        fs = [f for f in range(k) if set(decs[0]) == all_ids - test[f]]
        if len(fs) != 1 or fs[0] in out:
            return None
        out[fs[0]] = est
    if len(out) != k:
        return None
    return [types.SimpleNamespace(fold=f + 1, estimator=out[f]) for f in range(k)]


def brew_key(bc, folds, ci):
    cl = bc["colls"][ci]
    per = []
    for f in range(bc["k"]):
        idx = [i for i in range(cl["n"]) if folds[i] == f]
        per.append((tuple(idx), rank_pattern([cl["tables"][f][i] if cl["tables"][f] else cl["feat"][i] for i in idx])))
    return ("b", tuple(per), tuple(cl["labels"]), str(bc["thr"]), tuple(has_df(e) for e in case_ests(bc)))


def bjson(bc):
    d = dict(bc)
    d["thr"] = str(bc["thr"])
    return d


def bfrom_json(d):
    bc = dict(d)
    bc["thr"] = Fraction(d["thr"])
    return bc


def seen_prefix(bc, res):
    """number of leading collections whose rows were all scored by some fold model (`_predict` is a
    generator over the collections: the first failing collection stops the run, later ones are never
    scored)"""
    complete = [all(f is not None for f in fo) for fo in res["folds"]]
    n = complete.index(False) if False in complete else len(complete)
    if any(f is not None for fo in res["folds"][n:] for f in fo):
        return None  # rows of a later collection were scored although an earlier one is incomplete
    return n


def eval_brew(chk, bcs, tmp):
    results, lines, index, cindex, rindex, gindex = [], [], [], {}, {}, {}
    for bi, bc in enumerate(bcs):
        res = run_brew(bc, tmp)
        results.append(res)
        if "folds" not in res:
            continue
        flags = [has_df(e) for e in case_ests(bc)]
        scaled = bc["mode"] == "pretrained" and any(e != 0 or off != 0 for e, off in bc.get("scales") or [])
        wire_colls = []
        for ci, cl in enumerate(bc["colls"]):
            folds, raw = res["folds"][ci], res["raw"][ci]
            if any(f is None for f in folds):
                continue
            rows = [[f, Fraction(r), bool(l)] for f, r, l in zip(folds, raw, cl["labels"])]
            index.append((bi, ci, len(lines)))
            if all(flags):
                lines.append(req("predict", min(bc["chunk"], 10 ** 6), bc["k"], bc["thr"], rows))
            else:
                lines.append(req("predictdf", min(bc["chunk"], 10 ** 6), flags, bc["thr"], rows))
            lines.append(req("predspec", bc["k"], bc["thr"], rows))
            for f in range(bc["k"]):
                fr = [[Fraction(r), bool(l)] for ff, r, l in zip(folds, raw, cl["labels"]) if ff == f]
                lines.append(req("qspec", True, fr) if fr else "median []")
            if scaled:
                # the same run described as: un-scaled fold tables + one (a, b) per fold model, transformed by the
                # Lean `rescaleFolds` (C11_gate_rescale_invariant speaks about exactly this transformation)
                rindex[(bi, ci)] = len(lines)
                base_rows = [[f, Fraction(cl["tables"][f][i]), bool(l)]
                             for i, (f, l) in enumerate(zip(folds, cl["labels"]))]
                lines.append(req("predictresc", min(bc["chunk"], 10 ** 6), flags, bc["thr"],
                                 [[Fraction(2) ** e, Fraction(2) ** e * off] for e, off in bc["scales"]], base_rows))
            wire_colls.append(rows)
        if bc["mode"] == "pretrained":
            # the models as the caller listed them -> the flags `_predict` sees fold by fold (Lean `gateFlags`)
            fa = bc.get("foldattr") or list(range(1, bc["k"] + 1))
            gindex[bi] = len(lines)
            lines.append(req("gateflags", [[fa[j], flags[j]] for j in bc.get("morder", range(bc["k"]))]))
        nseen = seen_prefix(bc, res)
        if nseen:
            # the whole run: every collection scored so far, in the order given to brew
            cindex[bi] = (len(lines), nseen)
            lines.append(req("predictcolls", min(bc["chunk"], 10 ** 6), flags, bc["thr"], wire_colls[:nseen]))
    resp = common.driver_batch(lines)
    where = {(bi, ci): pos for bi, ci, pos in index}
    for bi, bc in enumerate(bcs):
        res = results[bi]
        k = bc["k"]
        ests = case_ests(bc)
        flags = [has_df(e) for e in ests]
        info = dict(case=bjson(bc), status=res["status"], error=res.get("error"))
        odt = bc.get("odtype", "float64")
        chk.count("b.format", bc.get("fmt", "parquet"))
        chk.count("b.output-dtype", odt)
        if bc["mode"] == "pretrained":
            chk.count("b.model-list", "in fold order" if list(bc.get("morder", range(k))) == list(range(k))
                      else "permuted")
        for e, off in bc.get("scales") or []:
            chk.count("b.fold-scale", f"2^{e}")
            chk.count("b.fold-offset", off if abs(off) < 10 ** 5 else f"{'-' if off < 0 else ''}2^{abs(off).bit_length() - 1}..")
        if bc["mode"] == "pretrained":
            chk.count("b.fold-attributes", "1..k" if (bc.get("foldattr") or list(range(1, k + 1))) == list(range(1, k + 1))
                      else "other increasing numbers")
        if bi in gindex:
            gf = dec(resp[gindex[bi]])
            gf = [x == "T" for x in (gf if isinstance(gf, list) else [gf])]
            if gf != flags:
                chk.corr_break("gateflags", dict(info, model=resp[gindex[bi]].strip(), harness=flags))
        if "recovered" in res:
            chk.count("b.trained-mode-error", "fold models recovered" if res["recovered"] else "not recovered")
        chk.count("b.mode", bc["mode"])
        chk.count("b.folds", k)
        chk.count("b.status", res["status"])
        chk.count("b.collections", len(bc["colls"]))
        chk.count("b.chunked", bc["chunk"] < min(c["n"] for c in bc["colls"]))
        chk.count("b.chunk", bc["chunk"] if bc["chunk"] <= 7 else "n/3..n" if bc["chunk"] < 700000 else "unchunked")
        chk.count("b.workers", bc["workers"])
        chk.count("b.estimator", "decision_function+predict_proba" if bc.get("both") else "decision_function")
        chk.count("b.gate", "every model has a decision function" if all(flags) else
                  "no model has one" if not any(flags) else "mixed")
        for e in ests:
            chk.count("b.fold-estimator", e)
        for cl in bc["colls"]:
            chk.count("b.labels", cl["lkind"])
        chk.count("b.thr", str(bc["thr"]))
        if res["status"] == "split-raises":
            # `_split` itself fails (too few distinct spectra for the number of folds): C02's domain
            chk.case(None, None)
            chk.reject("split-raises:" + res["error"][:40])
            continue
        if "folds" not in res:
            # training failed before any prediction (trained mode): outside the property
            chk.case(None, None)
            chk.reject("training-failed:" + (res.get("error") or res["status"])[:60])
            continue
        ncoll_seen = len(bc["colls"])
        if res["status"] in ("calib-error", "empty-fold"):
            # `_predict` is a generator over the collections: the first failing collection stops the run,
            # later collections are never scored
            complete = [all(f is not None for f in fo) for fo in res["folds"]]
            ncoll_seen = complete.index(False) if False in complete else len(complete)
            if ncoll_seen == 0 or any(f is not None for fo in res["folds"][ncoll_seen:] for f in fo):
                ncoll_seen = len(bc["colls"])
        if bc["mode"] == "trained" and res["status"] == "ok" and all(f is None for fo in res["folds"] for f in fo):
            # no fold model was ever asked to predict: training failed for some fold and brew returns zeros
            chk.case(None, None)
            chk.reject("training-failed:no-prediction")
            continue
        if res["status"] == "exc":
            chk.case(None, None, sample=dict(level="brew", **info))
            if bc["mode"] == "trained" and any(any(f is None for f in fo) for fo in res["folds"]):
                chk.reject("training-failed:" + (res.get("error") or "")[:60])
            else:
                chk.spec_violation("brew:unexpected-exception", dict(info, clause="brew raised an unexpected exception"))
            continue
        if res.get("dup") or any(any(f is None for f in fo) for fo in res["folds"][:ncoll_seen]):
            chk.case(None, None)
            chk.spec_violation("brew:fold-membership", dict(info, folds=res["folds"],
                               clause="rows scored by no fold model or by several"))
            continue
        # the whole run against the model of `list(_predict(...))` (all collections seen, in order)
        colls_model = None
        if bi in cindex and cindex[bi][1] == ncoll_seen:
            colls_model = resp[cindex[bi][0]].strip()
        if res["status"] == "empty-fold":
            # `_split` produced a fold without PSMs: np.hstack([]) raises ValueError; outside the property
            # (C02 owns the split); the model must agree that some fold is empty
            chk.case(None, None)
            chk.reject("fold-without-rows:ValueError")
            sref = res["split_ref"]
            if not any(set(range(k)) - set(fo) for fo in sref):
                chk.spec_violation("brew:unexpected-exception", dict(info, clause="ValueError although no fold is empty"))
            elif colls_model is not None and colls_model != "reject-empty":
                chk.corr_break("predictcolls", dict(info, folds=res["folds"], model=colls_model[:300]))
            continue
        any_noacc = False
        per_coll = []
        boundary = False
        lacks = False
        for ci, cl in enumerate(bc["colls"][:ncoll_seen]):
            pos = where[(bi, ci)]
            model_raw = resp[pos].strip()
            spec = [dec_spec(v) for v in dec(resp[pos + 1])] if k > 1 else [dec_spec(dec(resp[pos + 1]))]
            folds, raw = res["folds"][ci], res["raw"][ci]
            for f in range(k):
                qv = dec(resp[pos + 2 + f])
                qv = qv if isinstance(qv, list) else [qv]
                labs = [l for ff, l in zip(folds, cl["labels"]) if ff == f]
                if len(qv) == len(labs):
                    qs = [a_rat(x) for x in qv]
                    if any((q_rounded(q) > float(bc["thr"])) != (q > bc["thr"]) for q, l in zip(qs, labs) if l):
                        boundary = True
            # only a fold whose estimator exposes a decision function is calibrated and can raise
            if any(t is None and flags[f] for f, (t, _, _) in enumerate(spec)):
                any_noacc = True
            per_coll.append((model_raw, spec, folds, raw))
            if (bi, ci) in rindex and resp[rindex[(bi, ci)]].strip() != model_raw:
                # harness scaling and Lean `rescaleFolds` disagree (or the op is broken): not a statement about mokapot
                chk.corr_break("predictresc", dict(info, collection=ci, model=model_raw[:300],
                                                   rescaled=resp[rindex[(bi, ci)]].strip()[:300]))
            c_ = min(bc["chunk"], len(folds))
            if any(set(range(k)) - set(folds[i:i + c_]) for i in range(0, len(folds), c_)):
                lacks = True
            if res["split_ref"][ci] is not None and res["split_ref"][ci] != folds:
                chk.corr_break("fold-membership", dict(info, recorded=folds, split=res["split_ref"][ci]))
        chk.count("b.some-chunk-lacks-a-fold", lacks)
        if boundary:
            chk.float_boundary += 1
            chk.count("float-boundary")
            continue
        in_q_all = all(t is not None and d is not None and t > d
                       for _, spec, _, _ in per_coll for f, (t, d, _) in enumerate(spec) if flags[f])
        key = None
        if (in_q_all and any(flags)) or any_noacc:
            key = tuple(brew_key(bc, per_coll[ci][2], ci) for ci in range(len(per_coll)))
        chk.case(None, key, sample=dict(level="brew", **info, folds=res["folds"],
                                        impl=res.get("scores"), model=[p[0][:200] for p in per_coll]))
        chk.count("b.class", "error:no-accepted-target-in-some-fold" if any_noacc else
                  "outside:no-estimator-with-decision-function" if not any(flags) else
                  "in-quantifier" if in_q_all else "outside:t<=d-or-no-decoy-in-some-fold")
        # ---- spec -------------------------------------------------------------------------
        if any_noacc:
            # NB with several collections the first failing one stops the run
            if res["status"] == "calib-error" and not any(t is None and flags[f]
                                                          for f, (t, _, _) in enumerate(per_coll[-1][1])):
                chk.spec_violation("brew:error-in-wrong-collection", dict(info, folds=res["folds"],
                                   clause="the run stopped in a collection whose folds all accept a target"))
            elif res["status"] != "calib-error":
                chk.spec_violation("brew:missing-error", dict(info, folds=res["folds"], impl=res.get("scores"),
                                   clause="a fold accepts no target at test_fdr but brew returned scores"))
            elif not all(p[0] == "reject-nopositive" for p in per_coll
                         if any(t is None and flags[f] for f, (t, _, _) in enumerate(p[1]))):
                chk.corr_break("predict", dict(info, model=[p[0][:200] for p in per_coll]))
            elif colls_model is not None and colls_model != "reject-nopositive":
                chk.corr_break("predictcolls", dict(info, folds=res["folds"], model=colls_model[:300]))
            continue
        if res["status"] == "calib-error":
            chk.spec_violation("brew:spurious-error", dict(info, folds=res["folds"],
                               clause="every fold whose estimator has a decision function accepts a target at "
                                      "test_fdr but brew raised the calibration error"))
            continue
        viol = None
        for ci, (model_raw, spec, folds, raw) in enumerate(per_coll):
            got = res["scores"][ci]
            if res["descs"][ci] is not True or len(got) != len(raw) or res.get("shapes", [[len(raw)]] * (ci + 1))[ci] != [len(raw)]:
                viol = ("shape", ci, None)
                break
            for f, (t, d, vals) in enumerate(spec):
                idx = [i for i in range(len(raw)) if folds[i] == f]
                if not flags[f]:
                    # no decision function: the property promises nothing for this fold (model comparison below)
                    chk.count("b.fold-class", "no-decision-function:raw-scores(model-only)")
                    continue
                if not (d is not None and t > d):
                    chk.count("b.fold-class", "outside:t<=d-or-no-decoy")
                    continue
                chk.count("b.fold-class", "in-quantifier")
                gf = [got[i] for i in idx]
                exp = [fl(v, odt) for v in vals]
                # float32 estimator output: the property does not say in which precision the one division is
                # carried out -- the fold's scores may be the float32 or the float64 rounding of the exact quotient
                if not same_list(gf, exp) and not (odt == "float32" and same_list(gf, [fl(v) for v in vals])):
                    viol = ("formula", ci, f)
                    break
                cl_ = clause_checks([Fraction(raw[i]) for i in idx], gf, t, d)
                if cl_:
                    viol = (cl_, ci, f)
                    break
            if viol:
                break
        if viol:
            ci = viol[1]
            chk.spec_violation(f"brew:{viol[0]}", dict(
                info, collection=ci, fold=viol[2], folds=res["folds"][ci], raw=res["raw"][ci], impl=res["scores"][ci],
                expected=[dict(t=str(t), d=str(d), values=None if v is None else [str(x) for x in v])
                          for t, d, v in per_coll[ci][1]],
                clause="scores of a fold are not the calibration of that fold's raw scores and targets"))
            continue
        if not in_q_all:
            chk.reject("brew:outside-quantifier(t<=d or decoy-free fold)")
        elif not any(flags):
            chk.reject("brew:outside-quantifier(no estimator with a decision function)")
        # ---- model ------------------------------------------------------------------------
        for ci, (model_raw, spec, folds, raw) in enumerate(per_coll):
            op = "predict" if all(flags) else "predictdf"
            if model_raw.startswith("reject"):
                chk.corr_break(op, dict(info, collection=ci, model=model_raw, impl=res["scores"][ci]))
                continue
            m = dec(model_raw)
            mv = [dec_xr(x, odt) for x in (m if isinstance(m, list) else [m])]
            if not same_list(res["scores"][ci], mv) and not (
                    odt == "float32" and same_list(res["scores"][ci], [dec_xr(x) for x in (m if isinstance(m, list) else [m])])):
                chk.corr_break(op, dict(info, collection=ci, folds=folds, raw=raw, model=model_raw[:1000],
                                        impl=res["scores"][ci]))
        # the run as a whole: one score vector per collection, in the order given
        if colls_model is None or colls_model.startswith("reject"):
            chk.corr_break("predictcolls", dict(info, folds=res["folds"], model=colls_model, impl=res["scores"]))
        else:
            mc = dec_colls(colls_model, [len(p[3]) for p in per_coll])
            if mc is None or len(mc) != len(res["scores"]) or \
                    not all(same_list(g, [dec_xr(x, odt) for x in m]) or
                            (odt == "float32" and same_list(g, [dec_xr(x) for x in m])) for g, m in zip(res["scores"], mc)):
                chk.corr_break("predictcolls", dict(info, folds=res["folds"], model=colls_model[:1000],
                                                    impl=res["scores"]))
    return results

def keep_config(bc, ptotal):
    """attributes of the fold models (in fold order) for the second run, given the number `ptotal` of targets the
    calibrated scores of the first run accept"""
    kp, k = bc["keep"], bc["k"]
    top = max(0, ptotal + kp["delta"])
    fp = [min(top, int(kp["frac"][f] * top)) for f in range(k)]
    fp[kp["who"]] = top
    if kp.get("tie_with") is not None:
        fp[kp["tie_with"]] = top
    return dict(override=list(kp["override"]), feat_pass=fp, best_feat=list(kp["best_feat"]), desc=list(kp["desc"]))


def eval_keep(chk, bcs, results, tmp):
    """Third pass: from `_predict` to what brew returns (brew.py:253-291).  For pre-trained runs that returned
    calibrated scores with override=True (already held to the formula by `eval_brew`), brew is called again with
    models that may be overruled.  Spec (C11): as long as the learned model is kept -- every model has override, or
    the largest feat_pass is <= the number of targets the returned scores accept at test_fdr by the defining formula
    (a tie keeps it) -- brew returns bit for bit the calibrated scores, shape (n,), descs True; and a calibration
    error is raised whatever the models' feat_pass.  Otherwise (best feature strictly better: C07's branch) the
    outcome is compared with the model op `brewkeep` only."""
    probes, lines = [], []
    for bi, (bc, res) in enumerate(zip(bcs, results)):
        if not bc.get("keep") or bc["mode"] != "pretrained" or "folds" not in res:
            continue
        if res["status"] == "calib-error":
            probes.append(dict(bi=bi, kind="error"))
            continue
        if res["status"] != "ok" or bc.get("odtype", "float64") != "float64":
            continue
        if any(f is None for fo in res["folds"] for f in fo) or res.get("dup"):
            continue
        if not all(math.isfinite(x) for sc in res["scores"] for x in sc):
            chk.count("k.skipped", "non-finite calibrated scores (outside the quantifier)")
            continue
        if any(len(sc) != cl["n"] for sc, cl in zip(res["scores"], bc["colls"])):
            continue
        pos = len(lines)
        for sc, cl in zip(res["scores"], bc["colls"]):
            lines.append(req("qspec", True, [[Fraction(x), bool(l)] for x, l in zip(sc, cl["labels"])]))
        probes.append(dict(bi=bi, kind="decision", pos=pos))
    if not probes:
        return
    resp = common.driver_batch(lines) if lines else []
    lines2 = []
    for pr in probes:
        bc, res = bcs[pr["bi"]], results[pr["bi"]]
        k = bc["k"]
        if pr["kind"] == "error":
            keep = dict(override=[False] * k, feat_pass=[10 ** 6] * k, best_feat=["score"] * k, desc=[True] * k)
            pr["keep"] = keep
            pr["res2"] = run_brew(bc, tmp, keep=keep)
            continue
        ptotal, boundary = 0, False
        for ci, cl in enumerate(bc["colls"]):
            qv = dec(resp[pr["pos"] + ci])
            qs = [a_rat(x) for x in (qv if isinstance(qv, list) else [qv])]
            for q, l in zip(qs, cl["labels"]):
                if l:
                    if (q_rounded(q) > float(bc["thr"])) != (q > bc["thr"]):
                        boundary = True
                    ptotal += q <= bc["thr"]
        pr["ptotal"], pr["boundary"] = int(ptotal), boundary
        if boundary:
            continue
        keep = keep_config(bc, int(ptotal))
        pr["keep"] = keep
        pr["res2"] = run_brew(bc, tmp, keep=keep)
        ms = [[bool(o), int(f)] for o, f in zip(keep["override"], keep["feat_pass"])]
        flags = [has_df(e) for e in case_ests(bc)]
        wire = [[[f, Fraction(r), bool(l)] for f, r, l in zip(res["folds"][ci], res["raw"][ci], cl["labels"])]
                for ci, cl in enumerate(bc["colls"])]
        pr["pos2"] = len(lines2)
        lines2.append(req("brewkeep", min(bc["chunk"], 10 ** 6), flags, bc["thr"], ms, wire))
        lines2.append(req("keepspec", bc["thr"], ms, [[Fraction(x) for x in sc] for sc in res["scores"]], wire))
    resp2 = common.driver_batch(lines2) if lines2 else []
    for pr in probes:
        bc, res = bcs[pr["bi"]], results[pr["bi"]]
        k = bc["k"]
        if pr.get("boundary"):
            chk.float_boundary += 1
            chk.count("float-boundary")
            continue
        res2, keep = pr["res2"], pr["keep"]
        info = dict(case=bjson(bc), keep=keep, status=res2["status"], error=res2.get("error"), level="brew-keep")
        if pr["kind"] == "error":
            chk.case(None, ("k-error", pr["bi"]), sample=info)
            chk.count("k.class", "calibration error with overrulable models (feat_pass 10^6)")
            if res2["status"] != "calib-error":
                chk.spec_violation("brew:keep:error-masked", dict(
                    info, impl=res2.get("scores"),
                    clause="a fold accepts no target at test_fdr: brew must stop with the explicit error whatever "
                           "the models' feat_pass / override"))
            continue
        ptotal = pr["ptotal"]
        allov = all(keep["override"])
        top = max(keep["feat_pass"])
        kept_spec = allov or top <= ptotal                      # direct restatement of `KeptSpec`
        model_raw = resp2[pr["pos2"]].strip()
        spec_line = dec(resp2[pr["pos2"] + 1])
        chk.count("k.class", "every model has override" if allov else
                  "tie: feat_total == pred_total" if top == ptotal else
                  "feat_total < pred_total" if top < ptotal else "feat_total > pred_total (fallback, C07)")
        chk.count("k.models-holding-the-maximum", sum(1 for f in keep["feat_pass"] if f == top))
        chk.case(None, ("k", pr["bi"], kept_spec, top - ptotal if abs(top - ptotal) < 5 else None), sample=dict(
            info, ptotal=ptotal, impl=res2.get("scores"), model=model_raw[:300]))
        if not (isinstance(spec_line, list) and len(spec_line) == 3 and (spec_line[0] == "T") == kept_spec
                and int(spec_line[1]) == ptotal and int(spec_line[2]) == top):
            chk.corr_break("keepspec", dict(info, ptotal=ptotal, top=top, kept=kept_spec, model=str(spec_line)[:200]))
        if kept_spec:
            ok = (res2["status"] == "ok" and res2.get("descs") == [True] * len(bc["colls"])
                  and res2.get("shapes") == [[cl["n"]] for cl in bc["colls"]]
                  and len(res2["scores"]) == len(res["scores"])
                  and all(same_list(a, b) for a, b in zip(res2["scores"], res["scores"])))
            if not ok:
                sig = "brew:keep:calibrated-scores-discarded" + ("-on-tie" if (not allov and top == ptotal) else "")
                chk.spec_violation(sig, dict(
                    info, ptotal=ptotal, feat_total=0 if allov else top, impl=res2.get("scores"),
                    shapes=res2.get("shapes"), descs=[bool(d) for d in res2.get("descs", [])],
                    expected=res["scores"],
                    clause="the learned model is kept (every model forced, or the best feature passed no more targets "
                           "than the calibrated scores accept): brew must return the per-fold calibrated scores"))
                continue
        # ---- model ------------------------------------------------------------------------------------------
        m = dec(model_raw) if not model_raw.startswith("reject") else model_raw
        if isinstance(m, str):
            chk.corr_break("brewkeep", dict(info, ptotal=ptotal, model=model_raw[:300], impl=res2.get("scores")))
            continue
        if m[0] == "kept":
            if not kept_spec:
                # exact rationals vs floats: two calibrated scores of different folds that differ exactly but round
                # to the same double can move the pooled count; not seen with the generated magnitudes
                chk.count("k.model-count-differs-from-float-count", True)
                continue
            mc = m[1] if m[1] and isinstance(m[1][0], list) else [m[1]]
            if len(mc) != len(res2["scores"]) or not all(same_list(g, [dec_xr(x) for x in mm])
                                                         for g, mm in zip(res2["scores"], mc)):
                chk.corr_break("brewkeep", dict(info, ptotal=ptotal, model=model_raw[:600], impl=res2.get("scores")))
        else:
            if kept_spec:
                chk.count("k.model-count-differs-from-float-count", True)
                continue
            idx = int(m[1])
            feat, desc = keep["best_feat"][idx], keep["desc"][idx]
            want = [[float(x) for x in (cl["feat"] if feat == "score" else np.arange(cl["n"], dtype=float) + cl["base"])]
                    for cl in bc["colls"]]
            if not (res2["status"] == "ok" and res2.get("descs") == [desc] * len(bc["colls"])
                    and len(res2["scores"]) == len(want) and all(same_list(a, b) for a, b in zip(res2["scores"], want))):
                chk.corr_break("brewkeep", dict(info, ptotal=ptotal, model=model_raw[:300], impl=res2.get("scores"),
                                                descs=[bool(d) for d in res2.get("descs", [])], best=[idx, feat, desc]))
            else:
                for sh in res2.get("shapes", []):
                    chk.count("k.fallback-score-shape", "(n, 1)" if len(sh) == 2 else "(n,)")


def dec_colls(line, sizes):
    """`[[..] [..]]` -> list of token lists; `dec` unwraps a single top-level value, so the nesting is
    restored from the known number of collections"""
    v = dec(line)
    if not isinstance(v, list):
        return None
    if len(sizes) == 1 and (not v or not isinstance(v[0], list)):
        v = [v]
    if len(v) != len(sizes):
        return None
    return [x if isinstance(x, list) else [x] for x in v]


# ----------------------------------------------------------------------------
# corpus, search, shrinking, entry points
# ----------------------------------------------------------------------------
def corpus():
    p = common.VERIF / "harness" / "corpus" / "C11.json"
    if not p.exists():
        return [], []
    data = json.loads(p.read_text())
    return [from_json(d) for d in data.get("function", [])], [bfrom_json(d) for d in data.get("brew", [])]


def minimise(chk, tmp):
    """shrink the first function-level spec violation to a minimal row set"""
    if not chk.spec_violations:
        return
    sig, info = chk.spec_violations[0]
    if not sig.startswith("calibrate:") or "case" not in info:
        return
    c0 = from_json(info["case"])
    rows = list(zip(c0["scores"], c0["labels"]))

    def fails(rs):
        sub = common.Check(chk.prop, chk.tier, chk.seed)
        try:
            eval_cases(sub, [dict(c0, scores=[r[0] for r in rs], labels=[r[1] for r in rs])], tmp)
        except Exception:
            return False
        return any(s == sig for s, _ in sub.spec_violations)

    small = common.shrink_list(rows, fails)
    sub = common.Check(chk.prop, chk.tier, chk.seed)
    eval_cases(sub, [dict(c0, scores=[r[0] for r in small], labels=[r[1] for r in small])], tmp)
    for s, i in sub.spec_violations:
        if s == sig:
            chk.spec_violations[0] = (s, dict(i, shrunk_from_rows=len(rows)))
            break


def search(chk):
    """failing-input search used when a proof or the correspondence is broken"""
    tmp = Tmp()
    try:
        rng = chk.rng
        eval_cases(chk, [gen_case(rng, 14) for _ in range(3000)], tmp)
        if not chk.spec_violations:
            bcs = [gen_brew_case(rng, small=True) for _ in range(300)]
            eval_keep(chk, bcs, eval_brew(chk, bcs, tmp), tmp)
        if not chk.spec_violations:
            exhaustive(chk, 5, 3, tmp)
        minimise(chk, tmp)
    finally:
        tmp.close()


def main(chk, args):
    build = common.build_and_audit("C11")
    if not build.driver_ok:
        chk.finish(build, RULE)
    rng = chk.rng
    tmp = Tmp()
    try:
        fcorp, bcorp = corpus()
        quick = chk.tier == "quick"
        eval_cases(chk, fcorp + [gen_case(rng) for _ in range(1200 if quick else 12000)], tmp)
        bcs = bcorp + [gen_brew_case(rng) for _ in range(150 if quick else 1500)]
        eval_keep(chk, bcs, eval_brew(chk, bcs, tmp), tmp)
        exhaustive(chk, 4 if quick else 6, 3, tmp)
        minimise(chk, tmp)
    finally:
        tmp.close()
    lc = common.leanchecker("C11") if chk.tier == "thorough" else None
    chk.assumptions += [
        "scores are finite integers or dyadic rationals, so `scores - t`, `t - d` and the mean of the two middle "
        "decoys are exact and the single division is correctly rounded; the model works over exact rationals",
        "q-values sitting exactly on the float32/float64 rounding boundary of eval_fdr are counted "
        "(float_boundary_cases) and excluded",
        "fold membership at brew level is what the recording estimators were asked to score (cross-checked "
        "against OnDiskPsmDataset._split with the same generator state); fold assignment itself belongs to C02",
        "np.min / np.median / boolean-mask indexing / np.hstack / np.argsort behave as documented; pyarrow "
        "iter_batches yields consecutive batches of the requested size",
        "inputs outside the property's quantifier (t <= d, decoy-free fold: inf/nan/order-reversed scores, no "
        "exception) are compared with the model only and tallied under rejected_inputs",
        "a fold whose estimator exposes no decision_function is outside the property's quantifier: its scores "
        "(raw, uncalibrated) are compared with the model op predictdf only; every other fold of the same run is "
        "held to the spec (formula, order, anchors, explicit error) with its own rows",
        "whether an estimator 'exposes a decision function' is what brew.py:462 tests: attribute access on "
        "Model.estimator (the recording estimators are plain classes with or without that method; second pass: also "
        "the method supplied by __getattr__, stored on the instance only, or named on the class but raising "
        "AttributeError on the instance as sklearn's available_if does -- the last one does not expose it)",
        "second pass: scores scaled by 2^e (|e| <= 300) and shifted by a common integer offset stay exactly "
        "representable together with all their differences and pairwise means, so (s - t)/(t - d) is still one "
        "correctly rounded division and the real code must return bit-identical floats for s and for 2^e*(s + off); "
        "integer-dtype scores are kept below 2^24 because qvalues.tdc casts them to float32 (C01: 'small-integer "
        "dtype', GAPS-C01 G1-d)",
        "an estimator returning float32: the fold's scores may be the float32 or the float64 rounding of the exact "
        "quotient (the precision of the one division is not part of the property)",
        "third pass: C11 is read under 'the learned model is kept' (every fold model has override, or the largest "
        "feat_pass is <= the number of targets the returned vectors accept at test_fdr by the defining formula of the "
        "q-value, evaluated on the floats the code returned); when the best feature passed strictly more, brew returns "
        "that feature's raw column by design (property C07) and the outcome is compared with the model op brewkeep only "
        "(which model's best_feat, its values, its direction); the probe uses pre-trained models with float64 output "
        "whose attributes override / feat_pass / best_feat / desc are set by the harness",
        "trained mode with an exception: the fold models are deep copies made inside brew; each registers itself "
        "when fitted and is attributed to the fold whose training set (complement of the fold's test rows per "
        "_split) it scored after its last fit; if that does not identify one model per fold the case is tallied "
        "as training-failed as before",
    ]
    chk.finish(build, RULE, search=search, lc=lc,
               trusted_extra=["numpy min/median/mask indexing/hstack/argsort, pandas/pyarrow Parquet round trip, "
                              "joblib threading, sklearn clone of the recording estimator"])


def replay(chk, path):
    info = json.loads(open(path).read())
    if "case" not in info:
        print(json.dumps(info, indent=1)[:3000])
        return 0
    common.build_and_audit("C11")
    tmp = Tmp()
    try:
        if "colls" in info["case"]:
            bcs = [bfrom_json(info["case"])]
            eval_keep(chk, bcs, eval_brew(chk, bcs, tmp), tmp)
        else:
            eval_cases(chk, [from_json(info["case"])], tmp)
    finally:
        tmp.close()
    for sig, i in chk.spec_violations:
        print("REPRODUCED", sig, json.dumps(i, default=str)[:1500])
    return 1 if chk.spec_violations else 0
