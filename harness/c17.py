"""C17 — in-silico digestion returns exactly the peptides the enzyme rules allow
(correspondence harness: mokapot.digest vs. Lean model `digest` vs. Lean spec enumeration `digestspec`)."""
from __future__ import annotations

import itertools
import json
import multiprocessing
import os
import random
import re

import common
from common import req

RULE = (
    "cases = (enzyme regex [str or compiled], sequence, missed_cleavages, min_length, max_length, clip flag, "
    "semi flag) evaluated through mokapot.digest; distinct = distinct such tuples; non-trivial = the sequence has "
    "an internal cleavage site and the digest is non-empty; quick = corpus + random (short over enzyme-specific "
    "small alphabets, longer over 20 amino acids) + exhaustive over all sequences of length <= 4 over a 4-letter "
    "alphabet x mc 0..3 x all length bounds x clip/semi; thorough = exhaustive up to length 6 on the full "
    "parameter grid and up to length 10 (3-letter alphabet) on mc 0..3 x flags x sampled bounds, several enzymes, "
    "plus direct monotonicity/substring checks on the real outputs"
)

# regex -> (cleavage residues, blocking next residues) : the class of enzymes the model covers
ENZYMES = {
    "[KR]": ("KR", ""),
    "[KR](?!P)": ("KR", "P"),
    "K": ("K", ""),
    "[FWY]": ("FWY", ""),
    "R(?!P)": ("R", "P"),
    "[FLWY](?![PD])": ("FLWY", "PD"),
    "[KR](?!K)": ("KR", "K"),
}
AA20 = "ACDEFGHIKLMNPQRSTVWY"
_COMPILED = {k: re.compile(k) for k in ENZYMES}


def small_alphabet(enz):
    cls, nn = ENZYMES[enz]
    letters = list(dict.fromkeys(cls[:2] + nn[:1] + "M" + "A"))
    return letters


# ----------------------------------------------------------------------------
# evaluation
# ----------------------------------------------------------------------------
def impl_digest(c):
    import mokapot

    enz = _COMPILED[c["enz"]] if c.get("compiled") else c["enz"]
    return mokapot.digest(
        c["seq"],
        enzyme_regex=enz,
        missed_cleavages=c["mc"],
        clip_nterm_methionine=c["clip"],
        min_length=c["lo"],
        max_length=c["hi"],
        semi=c["semi"],
    )


def wire(op, c):
    cls, nn = ENZYMES[c["enz"]]
    return req(op, common.Atom("q" + cls), common.Atom("q" + nn), common.Atom("q" + c["seq"]),
               c["mc"], c["lo"], c["hi"], c["clip"], c["semi"])


def parse_peps(line):
    line = line.strip()
    if not (line.startswith("[") and line.endswith("]")):
        raise RuntimeError(f"driver answered {line!r}")
    return {t[1:] for t in line[1:-1].split()}


def internal_sites(c):
    cls, nn = ENZYMES[c["enz"]]
    s = c["seq"]
    n = 0
    for i, ch in enumerate(s[:-1]):
        if ch in cls and s[i + 1] not in nn:
            n += 1
    return n


def first_clause(c, impl, spec):
    extra = sorted(impl - spec)
    missing = sorted(spec - impl)
    for p in extra:
        if p not in c["seq"]:
            return f"returned peptide {p!r} is not a substring of the protein"
    if extra:
        return f"returned peptide(s) not allowed by the enzyme rules: {extra[:5]}"
    return f"peptide(s) allowed by the enzyme rules are missing: {missing[:5]}"


def info(chk, key, item):
    """informational tally that never influences the verdict"""
    d = chk.extra.setdefault(key, {"count": 0, "first": item})
    d["count"] += 1


def eval_cases(chk, cases, detail=True):
    """run implementation, model and spec enumeration on `cases`; classify disagreements"""
    lines = []
    for c in cases:
        lines.append(wire("digest", c))
        lines.append(wire("digestspec", c))
    resp = common.driver_batch(lines)
    results = []
    for k, c in enumerate(cases):
        model = parse_peps(resp[2 * k])
        spec = parse_peps(resp[2 * k + 1])
        try:
            out = impl_digest(c)
        except Exception as e:  # digest promises a result for every str sequence and int bounds
            chk.spec_violation("exception:" + type(e).__name__,
                               dict(case=c, error=repr(e), clause="mokapot.digest raised"))
            results.append(None)
            continue
        impl = set(out)
        results.append(impl)
        in_scope = c["lo"] >= 1
        ns = internal_sites(c)
        key = (c["enz"], c["seq"], c["mc"], c["lo"], c["hi"], c["clip"], c["semi"]) if (ns and impl) else None
        chk.case(None, key, sample=dict(case=c, impl=sorted(impl), model=sorted(model)) if (ns and impl) else None)
        if detail:
            n = len(c["seq"])
            chk.count("len", n if n <= 10 else ("11-30" if n <= 30 else ("31-100" if n <= 100 else ">100")))
            chk.count("enzyme", c["enz"])
            chk.count("compiled_regex", bool(c.get("compiled")))
            chk.count("mc", c["mc"])
            chk.count("clip", c["clip"])
            chk.count("semi", c["semi"])
            chk.count("internal_sites", ns if ns <= 5 else ">5")
            chk.count("n_peptides", len(impl) if len(impl) <= 3 else ("4-10" if len(impl) <= 10 else ">10"))
            chk.count("last_residue_cleaves", bool(c["seq"]) and c["seq"][-1] in ENZYMES[c["enz"]][0])
            chk.count("starts_with_M", c["seq"].startswith("M"))
            chk.count("min_length_0(out of scope, model only)", not in_scope)
        if not all(isinstance(p, str) for p in out):
            chk.spec_violation("non-str-peptide", dict(case=c, impl=repr(out), clause="result is not a set of str"))
            continue
        if in_scope and impl != spec:
            chk.spec_violation(
                "digest-vs-spec",
                dict(case=c, impl=sorted(impl), expected=sorted(spec), clause=first_clause(c, impl, spec)))
        elif impl != model:
            if in_scope:
                chk.corr_break("digest", dict(case=c, impl=sorted(impl), model=sorted(model)))
            else:
                # min_length = 0 is outside the property's quantifier (DESIGN C17 "boundary"): informational
                info(chk, "min_length_0_model_disagreements", dict(case=c, impl=sorted(impl), model=sorted(model)))
    return results


def direct_clauses(chk, c, impl_of):
    """monotonicity and substring clauses restated directly on the real outputs (no Lean involved)"""
    base = impl_of(c)
    for p in base:
        if p not in c["seq"]:
            chk.spec_violation("substring", dict(case=c, impl=sorted(base), expected="substrings of seq",
                                                 clause=f"{p!r} is not a substring of the protein"))
    for name, c2 in (
        ("mono-mc", dict(c, mc=c["mc"] + 1)),
        ("mono-bounds-lo", dict(c, lo=max(1, c["lo"] - 1))),
        ("mono-bounds-hi", dict(c, hi=c["hi"] + 1)),
        ("mono-semi", dict(c, semi=True)),
    ):
        bigger = impl_of(c2)
        chk.count("direct_clause", name)
        if not base <= bigger:
            chk.spec_violation(name, dict(case=c, relaxed=c2, impl=sorted(base), expected=sorted(bigger),
                                          clause=f"{name}: {sorted(base - bigger)[:5]} disappear when the limits are relaxed"))


def sites_cases(chk, rng, n):
    """`_cleavage_sites` through the model op `sites` (private helper: correspondence only, informational)"""
    from mokapot.parsers import fasta

    cases = []
    for _ in range(n):
        enz = rng.choice(list(ENZYMES))
        alpha = small_alphabet(enz)
        seq = "".join(rng.choice(alpha) for _ in range(rng.randint(0, 12)))
        cases.append((enz, seq))
    cls_nn = [ENZYMES[e] for e, _ in cases]
    resp = common.driver_batch([req("sites", common.Atom("q" + cn[0]), common.Atom("q" + cn[1]), common.Atom("q" + s))
                                for cn, (_, s) in zip(cls_nn, cases)])
    for (enz, seq), r in zip(cases, resp):
        model = [int(t) for t in r.strip()[1:-1].split()]
        impl = list(fasta._cleavage_sites(seq, enz))
        chk.count("sites_cases")
        if impl != model:
            # private helper, not an observation point of C17: never part of the verdict (DESIGN 2.4)
            info(chk, "private_helper_sites_disagreements", dict(enz=enz, seq=seq, impl=impl, model=model))


# ----------------------------------------------------------------------------
# generators
# ----------------------------------------------------------------------------
def gen_seq(rng, enz, nmax):
    cls, nn = ENZYMES[enz]
    kind = rng.random()
    if kind < 0.55:
        n = rng.choice([0, 1, 2, 3, 3, 4, 4, 5, 5, 6, 6, 7, 8, 9, 10])
        alpha = small_alphabet(enz)
        s = "".join(rng.choice(alpha) for _ in range(n))
    elif kind < 0.9:
        n = rng.randint(11, 60)
        w = [(6 if a in cls else (4 if a in nn else (2 if a == "M" else 1))) for a in AA20]
        s = "".join(rng.choices(AA20, weights=w, k=n))
    else:
        n = rng.randint(61, 160)
        s = "".join(rng.choice(AA20) for _ in range(n))
    s = s[:nmax]
    if s and rng.random() < 0.35:
        s = "M" + s[1:]
    if s and rng.random() < 0.2:
        s = s[:-1] + rng.choice(cls)
    return s


def gen_case(rng, nmax=160):
    enz = rng.choice(list(ENZYMES))
    seq = gen_seq(rng, enz, nmax)
    n = len(seq)
    mc = rng.choice([0, 0, 1, 1, 2, 2, 3, 3, 4, 6])
    r = rng.random()
    if r < 0.1 and n >= 8:
        lo, hi = 6, 50  # defaults
    elif r < 0.18:
        lo = 0  # outside the property's quantifier: model correspondence only
        hi = rng.randint(0, max(1, n))
    else:
        lo = rng.choice([1, 1, 1, 1, 2, 2, 2, 3, 3, 4, 5, 7] + ([max(1, n - 1), n, n + 1] if rng.random() < 0.15 else []))
        lo = min(lo, max(1, n)) if rng.random() < 0.9 else lo
        hi = rng.choice([lo, lo + 1, lo + 2, lo + 4, lo + 10, max(lo, n), n + 3, 50] + ([lo - 1] if rng.random() < 0.2 else []))
        hi = max(hi, 0)
    return dict(enz=enz, compiled=rng.random() < 0.3, seq=seq, mc=mc, lo=lo, hi=hi,
                clip=rng.random() < 0.5, semi=rng.random() < 0.5)


def grid_full(enz, seq):
    """every (mc 0..3, 1 <= lo <= n, lo <= hi <= n plus one empty range, flags) for this sequence"""
    n = len(seq)
    bounds = [(lo, hi) for lo in range(1, n + 1) for hi in range(lo, n + 1)] + [(2, 1), (1, n + 2)]
    for mc in range(4):
        for lo, hi in bounds:
            for clip in (False, True):
                for semi in (False, True):
                    yield dict(enz=enz, compiled=False, seq=seq, mc=mc, lo=lo, hi=hi, clip=clip, semi=semi)


def grid_sampled(rng, enz, seq, nb):
    n = len(seq)
    for _ in range(nb):
        lo = rng.randint(1, max(1, n))
        hi = rng.randint(lo, n + 1)
        for mc in range(4):
            for clip in (False, True):
                for semi in (False, True):
                    yield dict(enz=enz, compiled=False, seq=seq, mc=mc, lo=lo, hi=hi, clip=clip, semi=semi)


def exhaustive_cases(spec, shard=0, nshards=1):
    """spec = (enzyme, alphabet, lengths, mode, seed); shards partition the sequences"""
    enz, alpha, lengths, mode, seed = spec
    rng = random.Random(seed * 1000 + shard)
    j = 0
    for n in lengths:
        for tup in itertools.product(alpha, repeat=n):
            j += 1
            if j % nshards != shard:
                continue
            seq = "".join(tup)
            if mode == "full":
                yield from grid_full(enz, seq)
            else:
                yield from grid_sampled(rng, enz, seq, 1)


def _run_shard(arg):
    """worker: evaluate one shard of the exhaustive sweep in a private Check and return the tallies"""
    prop, tier, seed, spec, shard, nshards = arg
    sub = common.Check(prop, tier, seed)
    batch = []
    n = 0
    for c in exhaustive_cases(spec, shard, nshards):
        batch.append(c)
        if len(batch) >= 20000:
            eval_cases(sub, batch, detail=False)
            n += len(batch)
            batch = []
        if len(sub.spec_violations) > 20 or len(sub.corr_breaks) > 20:
            break
    if batch:
        eval_cases(sub, batch, detail=False)
        n += len(batch)
    return dict(n=n, evaluations=sub.evaluations, nontrivial=sub.nontrivial, spec_violations=sub.spec_violations[:20],
                corr_breaks=sub.corr_breaks[:20], samples=sub.samples[:1], extra=sub.extra)


def exhaustive(chk, specs, workers):
    total = 0
    jobs = []
    for spec in specs:
        seeded = (*spec, chk.rng.getrandbits(48))
        for s in range(workers):
            jobs.append((chk.prop, chk.tier, chk.seed, seeded, s, workers))
    if workers > 1:
        ctx = multiprocessing.get_context("fork")
        with ctx.Pool(workers) as pool:
            outs = pool.map(_run_shard, jobs, chunksize=1)
    else:
        outs = [_run_shard(j) for j in jobs]
    for o in outs:
        total += o["n"]
        chk.evaluations += o["evaluations"]
        chk.nontrivial |= o["nontrivial"]
        chk.spec_violations += o["spec_violations"]
        chk.corr_breaks += o["corr_breaks"]
        if len(chk.samples) < 4:
            chk.samples += o["samples"]
        for k, v in o["extra"].items():
            d = chk.extra.setdefault(k, {"count": 0, "first": v["first"]})
            d["count"] += v["count"]
    chk.hist["exhaustive_cases"] = chk.hist.get("exhaustive_cases", 0) + total
    chk.extra.setdefault("exhaustive_sweeps", []).append(
        [f"{e} over {''.join(a)} lengths {list(l)} grid={m}" for e, a, l, m in specs] + [f"{total} cases"])
    return total


def mono_sweep(chk, rng, n):
    """direct monotonicity / substring clauses on the real code"""
    cache = {}

    def impl_of(c):
        k = (c["enz"], c["seq"], c["mc"], c["lo"], c["hi"], c["clip"], c["semi"])
        if k not in cache:
            cache[k] = set(impl_digest(c))
        return cache[k]

    for _ in range(n):
        c = gen_case(rng, 40)
        if c["lo"] < 1:
            c["lo"] = 1
        direct_clauses(chk, c, impl_of)
        cache.clear()


def corpus_cases():
    p = common.VERIF / "harness" / "corpus" / "C17.json"
    if p.exists():
        return json.loads(p.read_text())
    return []


# ----------------------------------------------------------------------------
# shrinking, search, main, replay
# ----------------------------------------------------------------------------
def minimise(chk):
    if not chk.spec_violations:
        return
    sig, info = chk.spec_violations[0]
    if "case" not in info or sig != "digest-vs-spec":
        return
    c0 = dict(info["case"])

    def fails_case(c):
        sub = common.Check(chk.prop, chk.tier, chk.seed)
        try:
            eval_cases(sub, [c], detail=False)
        except Exception:
            return False
        return any(s == sig for s, _ in sub.spec_violations)

    seq = common.shrink_list(list(c0["seq"]), lambda s: fails_case(dict(c0, seq="".join(s))), min_len=0)
    c = dict(c0, seq="".join(seq), compiled=False)
    for field, vals in (("semi", [False]), ("clip", [False]), ("mc", range(0, c["mc"])),
                        ("hi", [len(c["seq"])]), ("lo", [1])):
        for v in vals:
            c2 = dict(c, **{field: v})
            if c2 != c and fails_case(c2):
                c = c2
                break
    sub = common.Check(chk.prop, chk.tier, chk.seed)
    eval_cases(sub, [c], detail=False)
    for s, i in sub.spec_violations:
        if s == sig:
            chk.spec_violations[0] = (s, dict(i, shrunk_from=c0))
            break


def search(chk):
    """failing-input search used when a proof or the correspondence is broken"""
    rng = chk.rng
    cases = [gen_case(rng, 60) for _ in range(20000)]
    cases = [c for c in cases if c["lo"] >= 1]
    for i in range(0, len(cases), 5000):
        eval_cases(chk, cases[i:i + 5000], detail=False)
        if chk.spec_violations:
            break
    if not chk.spec_violations:
        exhaustive(chk, [("[KR](?!P)", tuple("KPMA"), range(0, 6), "full"), ("K", tuple("KMA"), range(0, 7), "full")],
                   workers=4)
    if not chk.spec_violations:
        mono_sweep(chk, rng, 3000)
    minimise(chk)


def n_workers():
    try:
        avail = len(os.sched_getaffinity(0))
    except Exception:
        avail = os.cpu_count() or 1
    return max(1, min(8, avail // 2))


def main(chk, args):
    build = common.build_and_audit("C17")
    if not build.driver_ok:
        chk.finish(build, RULE)
    rng = chk.rng
    quick = chk.tier == "quick"
    cases = [dict(c) for c in corpus_cases()]
    cases += [gen_case(rng) for _ in range(12000 if quick else 120000)]
    for i in range(0, len(cases), 10000):
        eval_cases(chk, cases[i:i + 10000])
    sites_cases(chk, rng, 500 if quick else 5000)
    mono_sweep(chk, rng, 1500 if quick else 15000)
    if quick:
        exhaustive(chk, [("[KR](?!P)", tuple("KPMA"), range(0, 6), "full"),
                         ("[KR](?!K)", tuple("KRM"), range(0, 5), "full")], workers=min(4, n_workers()))
    else:
        exhaustive(chk, [("[KR](?!P)", tuple("KPMA"), range(0, 7), "full"),
                         ("K", tuple("KMA"), range(0, 8), "full"),
                         ("[KR](?!K)", tuple("KRMA"), range(0, 6), "full"),
                         ("[FWY]", tuple("FWMA"), range(0, 6), "full"),
                         ("[KR](?!P)", tuple("KPM"), range(7, 11), "sampled"),
                         ("[KR]", tuple("KRM"), range(7, 10), "sampled")], workers=n_workers())
    minimise(chk)
    lc = common.leanchecker("C17") if chk.tier == "thorough" else None
    chk.assumptions += [
        "the enzyme is a residue class with an optional negative one-residue look-ahead ([..], X, [..](?!..)); for "
        "these patterns re.finditer is assumed to report one match per matching residue, left to right "
        "(model `matchEnds`); other regular expressions are outside the model",
        "sequences are str over A-Z; missed_cleavages, min_length, max_length are non-negative ints; the theorems "
        "characterising membership need min_length >= 1 (min_length = 0 additionally yields the empty peptide), "
        "substring/length/monotonicity theorems hold for all bounds",
        "the result is a Python set: compared as a set, the model's insertion order and repetitions are immaterial",
    ]
    chk.finish(build, RULE, search=search, lc=lc,
               trusted_extra=["CPython re (finditer on residue-class patterns with look-ahead), str slicing, set"])


def replay(chk, path):
    info = json.loads(open(path).read())
    if "case" not in info:
        print(json.dumps(info, indent=1)[:3000])
        return 0
    common.build_and_audit("C17")
    c = info["case"]
    if info.get("signature", "").startswith("mono") or info.get("signature") == "substring":
        direct_clauses(chk, c, lambda x: set(impl_digest(x)))
    else:
        eval_cases(chk, [c])
    for sig, i in chk.spec_violations:
        print("REPRODUCED", sig, json.dumps(i)[:1500])
    return 1 if chk.spec_violations else 0
