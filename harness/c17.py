"""C17 — in-silico digestion returns exactly the peptides the enzyme rules allow
(correspondence harness: mokapot.digest vs. Lean model `digest` vs. Lean spec enumeration `digestspec`;
extensions: `min_length = 0` against the all-bounds spec `digestspec0`, general fixed-width patterns
(several consumed residues, positive/negative look-ahead, negated classes) against `digestp`/`digestspecp`,
the entry point called by keyword / positionally / with omitted (default) arguments; zero-width rules against
`digestz`/`digestspecz`; third pass: ANY enzyme regex - the match ends are taken from `re.finditer` by the harness and
handed to `digestm` (model `digestM`) / `digestspecm` (`DigestSpecM`, multiplicities) / `digestspecms` (`DigestSpecMS`,
positions as a set, when every match is non-empty); negative limits against `digestint`; `matchAt` against
`regex.match`)."""
from __future__ import annotations

import itertools
import json
import multiprocessing
import os
import random
import re

import common
from common import req

RULE = (
    "cases = (enzyme regex [str or compiled], sequence, missed_cleavages, min_length, max_length, clip flag, "
    "semi flag) evaluated through mokapot.digest; distinct = distinct such tuples; non-trivial = the sequence has "
    "an internal cleavage site and the digest is non-empty; quick = corpus + random (short over enzyme-specific "
    "small alphabets, longer over 20 amino acids) + exhaustive over all sequences of length <= 4 over a 4-letter "
    "alphabet x mc 0..3 x all length bounds x clip/semi; thorough = exhaustive up to length 6 on the full "
    "parameter grid and up to length 10 (3-letter alphabet) on mc 0..3 x flags x sampled bounds, several enzymes, "
    "plus direct monotonicity/substring checks on the real outputs; extensions: min_length = 0 is in scope "
    "(spec `DigestSpec0`), general fixed-width patterns (width 1..3, look-ahead of either polarity, negated "
    "classes; named and random ones) with their own exhaustive sweep, call forms keyword / positional / "
    "omitted-defaults / digest(sequence), sequences with lower-case and non-standard residue letters; second "
    "extension: enzyme rules written with look-around only (empty matches; named and random ones, also matching at "
    "position 0 / at the end, the empty pattern) against `digestz`/`digestspecz` with their own exhaustive sweep, "
    "proteins of 400..6000 residues (15000 thorough) against the model and an independent Python restatement of "
    "the specification, every 16th call repeated after mutating the first result, length limits beyond 2^31 / 2^63; "
    "third extension: ANY enzyme regex (alternations of consuming and zero-width branches, variable-width "
    "quantifiers, anchors; named and random ones) - the match ends are taken from `re.finditer` by the harness, "
    "checked to be weakly increasing and <= len(sequence), and the real digest is compared with the model "
    "`digestm` and the specification with multiplicities `digestspecm` (exhaustive sweep included); negative "
    "missed_cleavages / min_length / max_length against `digestint`"
)

# regex -> (cleavage residues, blocking next residues) : the class of enzymes the model covers
ENZYMES = {
    "[KR]": ("KR", ""),
    "[KR](?!P)": ("KR", "P"),
    "K": ("K", ""),
    "[FWY]": ("FWY", ""),
    "R(?!P)": ("R", "P"),
    "[FLWY](?![PD])": ("FLWY", "PD"),
    "[KR](?!K)": ("KR", "K"),
}
AA20 = "ACDEFGHIKLMNPQRSTVWY"
_COMPILED = {k: re.compile(k) for k in ENZYMES}

# documented defaults of mokapot.digest (fasta.py:263-271), restated here — never read from the code under test
DEFAULTS = dict(enz="[KR]", mc=0, clip=False, lo=6, hi=50, semi=False)
PARAM_ORDER = ("enz", "mc", "clip", "lo", "hi", "semi")

# general fixed-width patterns (Model/DigestPat.lean): regex -> structure
#   classes: list of [negated, letters] (negated with no letters = any residue), la: None or [positive, negated, letters]
PATTERNS = {
    r"\w(?=D)": dict(classes=[[True, ""]], la=[True, False, "D"]),          # Asp-N style
    r".(?=[DE])": dict(classes=[[True, ""]], la=[True, False, "DE"]),
    r"[KR](?=[^P])": dict(classes=[[False, "KR"]], la=[True, True, "P"]),    # like (?!P) except at the end
    r"[^P](?=K)": dict(classes=[[True, "P"]], la=[True, False, "K"]),        # Lys-N style
    r"KK": dict(classes=[[False, "K"], [False, "K"]], la=None),              # matches must not overlap
    r"[KR][KR]": dict(classes=[[False, "KR"], [False, "KR"]], la=None),
    r"[KR][^P]": dict(classes=[[False, "KR"], [True, "P"]], la=None),        # consuming instead of look-ahead
    r"K.K": dict(classes=[[False, "K"], [True, ""], [False, "K"]], la=None),
    r"KK(?!K)": dict(classes=[[False, "K"], [False, "K"]], la=[False, False, "K"]),
    r"[KR]K(?=[^P])": dict(classes=[[False, "KR"], [False, "K"]], la=[True, True, "P"]),
    r"[^KP]": dict(classes=[[True, "KP"]], la=None),
    r"M(?!.)": dict(classes=[[False, "M"]], la=[False, True, ""]),            # only at the very end
}


# zero-width rules (Model/DigestZero.lean): regex -> structure
#   lb / la: None or [positive, negated, letters]   ((?<=..)/(?<!..) and (?=..)/(?!..))
ZERO_RULES = {
    r"(?<=[KR])(?!P)": dict(lb=[True, False, "KR"], la=[False, False, "P"]),   # trypsin/P
    r"(?<=K)": dict(lb=[True, False, "K"], la=None),                            # Lys-C
    r"(?=D)": dict(lb=None, la=[True, False, "D"]),                             # Asp-N: may match at position 0
    r"(?=K)": dict(lb=None, la=[True, False, "K"]),                             # Lys-N
    r"(?=[DE])": dict(lb=None, la=[True, False, "DE"]),
    r"(?!P)": dict(lb=None, la=[False, False, "P"]),                            # everywhere but before P: matches at 0 and at the end
    r"(?<!P)(?=[DM])": dict(lb=[False, False, "P"], la=[True, False, "DM"]),    # matches in front of an N-terminal M
    r"(?<=[^P])(?=[KM])": dict(lb=[True, True, "P"], la=[True, False, "KM"]),
    r"(?<![KR])(?!A)": dict(lb=[False, False, "KR"], la=[False, False, "A"]),
    r"(?<=K)(?=.)": dict(lb=[True, False, "K"], la=[True, True, ""]),           # never at the end
    r"": dict(lb=None, la=None),                                                # the empty pattern: every position
}


# any regex (Model/DigestMulti.lean): outside the three modelled pattern classes.  The match ends are taken from
# `re.finditer` by the harness (CPython `re` is trusted for them; the theorems need them weakly increasing and
# <= len(seq), which `multi_ends` checks on every case).  regex -> letters for the small alphabet
ANY_REGEXES = {
    r"[KR]|(?=D)": "KRD",            # trypsin + Asp-N: `KD` lists the position between them twice (defect D-2)
    r"(?<=[KR])|(?=D)": "KRD",       # the same positions, each listed once
    r"[KR](?!P)|(?=D)": "KPD",
    r"K+": "K",                      # variable width: a run of K is one match
    r"[KR]{1,2}": "KR",
    r"K*": "K",                      # empty matches wherever no K starts, also right after a run
    r"KR?": "KR",
    r"K|$": "K",                     # anchor: an empty match at the end (`len(seq)` listed twice, or three times)
    r"^M|K": "KM",                   # anchor + consumption of the initiator methionine
    r"^|K": "K",                     # empty match at 0: site 0 listed twice
    r"(?<=K)|R": "KR",
    r"K(?=A)|R(?!P)": "KRP",
    r"(K|R)(?!P)": "KRP",            # a group
    r"(?:KK)+": "K",
    r"K{2,}": "K",
    r"M?K": "KM",
    r"\b": "K",                      # word boundary: both ends of a non-empty sequence
    r"[KR]|[KR]P": "KRP",
    r"(?=M)|(?<=K)": "KM",           # matches in front of an N-terminal M
    r"D|(?=D)": "D",
}


def gen_any_regex(rng):
    """a random alternation of 1..3 branches: fixed-width patterns, zero-width rules, quantified classes, anchors"""
    alpha = rng.sample("KRPDMA", 3)

    def klass():
        r = rng.random()
        if r < 0.6:
            return class_regex(False, "".join(rng.sample(alpha, rng.choice([1, 1, 2]))), rng)
        if r < 0.9:
            return class_regex(True, rng.choice(alpha))
        return "."

    def branch():
        r = rng.random()
        if r < 0.25:
            return pattern_regex(gen_pattern(rng), rng)
        if r < 0.5:
            return zero_regex(gen_zero(rng), rng)
        if r < 0.8:
            q = rng.choice(["+", "*", "?", "{1,2}", "{2}", "{2,}", "+?", "*?"])
            k = klass()
            tail = rng.choice(["", "", klass(), "(?!" + klass() + ")", "(?=" + klass() + ")"])
            return k + q + tail
        return rng.choice(["^", "$", "^" + klass(), klass() + "$", r"\b", r"\B", ""])

    return "|".join(branch() for _ in range(rng.choice([1, 2, 2, 3]))), "".join(alpha)


def is_multi(c):
    return bool(c.get("multi")) or c["enz"] in ANY_REGEXES


def multi_ends(c):
    """`[m.end() for m in regex.finditer(seq)]` taken from `re` directly (independently of mokapot), with the
    case's flags; None when the list violates the hypotheses of C17_digestM_mem_iff_spec"""
    rx = the_regex(c)
    if isinstance(rx, str):
        key = ("multi", rx)
        if key not in _COMPILED:
            _COMPILED[key] = re.compile(rx)
        rx = _COMPILED[key]
    ends = [m.end() for m in rx.finditer(c["seq"])]
    n = len(c["seq"])
    if any(e > n or e < 0 for e in ends) or any(a > b for a, b in zip(ends, ends[1:])):
        return None
    return ends


def multi_set_spec(c):
    ends = multi_ends(c)
    return (all(e > 0 for e in ends) and all(a < b for a, b in zip(ends, ends[1:]))
            and (len(c["seq"]) + c["mc"]) % 2 == 0)


def neg_limits(c):
    return c["mc"] < 0 or c["lo"] < 0 or c["hi"] < 0


def py_spec_multi(c):
    """`DigestSpecM` restated directly: positions a <= b among the listed sites, at most `mc` list entries strictly
    between (with multiplicity), a = b only for a position listed twice (the empty peptide); clip only when the
    peptide is reached from the first list entry within the limit; negative limits as Python compares them"""
    import bisect
    from collections import Counter

    s = c["seq"]
    n = len(s)
    sites = [0] + multi_ends(c) + [n]
    mc, lo, hi = c["mc"], c["lo"], c["hi"]
    if mc < 0 or hi < 0:
        return set()
    lo = max(lo, 0)
    cnt = Counter(sites)
    pos = sorted(cnt)
    out = set()
    for i, a in enumerate(pos):
        if cnt[a] >= 2 and lo == 0:
            out.add("")
        for b in pos[i + 1:]:
            if bisect.bisect_left(sites, b) - bisect.bisect_right(sites, a) > mc:
                break
            if not (lo <= b - a <= hi):
                continue
            out.add(s[a:b])
            if c["clip"] and a == 0 and s[0] == "M" and b - 1 >= lo and bisect.bisect_left(sites, b) - 1 <= mc:
                out.add(s[1:b])
            if c["semi"]:
                for k in range(1, b - a):
                    if b - a - k >= lo:
                        out.add(s[a + k:b])
                        out.add(s[a:b - k])
    return out


def zero_regex(z, rng=None):
    r = ""
    if z["lb"] is not None:
        pos, n, l = z["lb"]
        r += ("(?<=" if pos else "(?<!") + class_regex(n, l, rng) + ")"
    if z["la"] is not None:
        pos, n, l = z["la"]
        r += ("(?=" if pos else "(?!") + class_regex(n, l, rng) + ")"
    return r


def zero_alphabet(z):
    letters = ""
    for a in (z["lb"], z["la"]):
        if a is not None:
            letters += a[2][:2]
    return list(dict.fromkeys(letters + "M" + "A"))


def gen_zero(rng):
    """a random zero-width rule over a small alphabet (M included: rules matching in front of an N-terminal M)"""
    alpha = rng.sample("KRPDMA", 3)

    def assertion():
        r = rng.random()
        if r < 0.3:
            return None
        pos = rng.random() < 0.5
        r = rng.random()
        if r < 0.6:
            return [pos, False, "".join(rng.sample(alpha, rng.choice([1, 1, 2])))]
        if r < 0.9:
            return [pos, True, "".join(rng.sample(alpha, 1))]
        return [pos, True, ""]

    return dict(lb=assertion(), la=assertion())


def py_zero_ends(z, seq, fold=lambda l: l):
    """positions 0..len(seq) where both assertions of a zero-width rule hold, written out directly (no `re`)"""
    def ok(a, ch):
        if a is None:
            return True
        pos, n, l = a
        return ((ch is not None) and ((ch in fold(l)) != n)) == pos

    return [p for p in range(len(seq) + 1)
            if ok(z["lb"], seq[p - 1] if p > 0 else None) and ok(z["la"], seq[p] if p < len(seq) else None)]


def class_regex(neg, letters, rng=None):
    if neg:
        if not letters:
            return "."
        return "[^" + letters + "]"
    if len(letters) == 1 and (rng is None or rng.random() < 0.5):
        return letters
    return "[" + letters + "]"


def pattern_regex(pat, rng=None):
    r = "".join(class_regex(n, l, rng) for n, l in pat["classes"])
    if pat["la"] is not None:
        pos, n, l = pat["la"]
        r += ("(?=" if pos else "(?!") + class_regex(n, l, rng) + ")"
    return r


def pattern_alphabet(pat):
    letters = ""
    for n, l in pat["classes"]:
        letters += l[:2]
    if pat["la"] is not None:
        letters += pat["la"][2][:2]
    return list(dict.fromkeys(letters + "M" + "A"))


def gen_pattern(rng):
    """a random fixed-width pattern over a small alphabet"""
    alpha = rng.sample("KRPDEFA", 3)

    def cls(allow_any=True):
        r = rng.random()
        if r < 0.55:
            return [False, "".join(rng.sample(alpha, rng.choice([1, 1, 2])))]
        if r < 0.85 or not allow_any:
            return [True, "".join(rng.sample(alpha, 1))]
        return [True, ""]

    width = rng.choice([1, 1, 2, 2, 2, 3])
    classes = [cls() for _ in range(width)]
    r = rng.random()
    la = None if r < 0.4 else [r < 0.7, *cls()]
    return dict(classes=classes, la=la)


def py_match_ends(pat, seq):
    """leftmost non-overlapping matches of a fixed-width pattern, written out directly (no `re`):
    used for the input-distribution tallies only"""
    def has(c, ch):
        return (ch in c[1]) != c[0]

    w = len(pat["classes"])
    ends, i = [], 0
    while i + w <= len(seq):
        ok = all(has(c, seq[i + k]) for k, c in enumerate(pat["classes"]))
        if ok and pat["la"] is not None:
            pos, n, l = pat["la"]
            nxt = seq[i + w] if i + w < len(seq) else None
            ok = ((nxt is not None) and has([n, l], nxt)) == pos
        if ok:
            ends.append(i + w)
            i += w
        else:
            i += 1
    return ends


def small_alphabet(enz):
    if enz in ZERO_RULES:
        return zero_alphabet(ZERO_RULES[enz])
    if enz not in ENZYMES:
        return pattern_alphabet(PATTERNS[enz])
    cls, nn = ENZYMES[enz]
    letters = list(dict.fromkeys(cls[:2] + nn[:1] + "M" + "A"))
    return letters


# ----------------------------------------------------------------------------
# evaluation
# ----------------------------------------------------------------------------
def zero_width_form(c, rng):
    """an equivalent enzyme rule written with look-around only (its matches are empty; the cleavage site is still the
    match end): `(?<=[KR])(?!P)` for `[KR](?!P)`, `(?=D)` for `.(?=D)`.  Same match ends as the consuming form for
    every width-1 pattern — except that a look-ahead-only rule may also match at position 0, so that form is used only
    when it does not.  None when the case has no such form."""
    def has(neg, letters, ch):
        return (ch in letters) != neg

    if is_zero(c):
        return None
    if is_pattern(c):
        pat = pat_of(c)
        if pat is None or len(pat["classes"]) != 1:
            return None
        (neg, letters), la = pat["classes"][0], pat["la"]
        la_txt = "" if la is None else ("(?=" if la[0] else "(?!") + class_regex(la[1], la[2]) + ")"
        if neg and not letters and la is not None and la[0] and rng.random() < 0.5:
            if not c["seq"] or not has(la[1], la[2], c["seq"][0]):
                return la_txt                       # look-ahead only
        return "(?<=" + class_regex(neg, letters) + ")" + la_txt
    cls, nn = ENZYMES[c["enz"]]
    return "(?<=[" + cls + "])" + ("(?![" + nn + "])" if nn else "")


def the_regex(c):
    enz = c.get("zw") or c["enz"]
    if c.get("icase"):
        # a compiled enzyme whose behaviour depends on its flags: the digest must cut where THIS pattern matches
        key = ("icase", enz)
        if key not in _COMPILED:
            _COMPILED[key] = re.compile(enz, re.IGNORECASE)
        return _COMPILED[key]
    if c.get("verbose"):
        # the same rule laid out with re.VERBOSE (blanks and a comment that only this flag makes insignificant)
        key = ("verbose", enz)
        if key not in _COMPILED:
            _COMPILED[key] = re.compile("  " + enz + "   # enzyme rule\n", re.VERBOSE)
        return _COMPILED[key]
    if c.get("compiled"):
        if enz not in _COMPILED:
            _COMPILED[enz] = re.compile(enz)
        return _COMPILED[enz]
    return enz


def impl_digest(c):
    """call the real entry point in the case's call form: all keywords (default), positional, or with the
    arguments listed in c["omit"] left out (their case values are the documented defaults, set by the generator)"""
    import mokapot

    enz = the_regex(c)
    form = c.get("call", "kw")
    if form == "pos":
        return mokapot.digest(c["seq"], enz, c["mc"], c["clip"], c["lo"], c["hi"], c["semi"])
    kw = dict(
        enzyme_regex=enz,
        missed_cleavages=c["mc"],
        clip_nterm_methionine=c["clip"],
        min_length=c["lo"],
        max_length=c["hi"],
        semi=c["semi"],
    )
    if form == "omit":
        names = dict(enz="enzyme_regex", mc="missed_cleavages", clip="clip_nterm_methionine", lo="min_length",
                     hi="max_length", semi="semi")
        for k in c["omit"]:
            assert c[k] == DEFAULTS[k], (k, c[k])
            del kw[names[k]]
    return mokapot.digest(c["seq"], **kw)


def pat_of(c):
    return c["pat"] if "pat" in c else PATTERNS.get(c["enz"])


def zero_of(c):
    return c["zero"] if "zero" in c else ZERO_RULES.get(c["enz"])


def is_zero(c):
    return not is_multi(c) and ("zero" in c or ("pat" not in c and c["enz"] in ZERO_RULES))


def is_pattern(c):
    return not is_multi(c) and not is_zero(c) and ("pat" in c or c["enz"] not in ENZYMES)


STRICT_NTERM_CLIP = bool(os.environ.get("C17_STRICT_NTERM_CLIP"))


def cls_atom(neg, letters):
    return common.Atom(("n" if neg else "p") + letters)


def fold_case(letters, c):
    """the letters a class stands for when the enzyme is compiled with re.IGNORECASE"""
    if not c.get("icase"):
        return letters
    return letters + "".join(ch.lower() for ch in letters if ch.lower() not in letters)


def wire(op, c):
    if is_multi(c):
        ends = multi_ends(c)
        if op == "digest":
            # the model; `digestint` takes the limits as (possibly negative) ints
            return req("digestint" if neg_limits(c) else "digestm", ends, common.Atom("q" + c["seq"]),
                       c["mc"], c["lo"], c["hi"], c["clip"], c["semi"])
        # the specification `DigestSpecM` is stated for naturals; negative limits are restated here the way Python
        # compares them (the caller empties the result when mc < 0 or hi < 0).  When every match is non-empty (ends
        # strictly increasing and positive) every other case is judged by `DigestSpecMS` instead - the property text
        # over the *set* of cleavage positions (C17_digestM_nonempty_matches_spec)
        return req("digestspecms" if multi_set_spec(c) else "digestspecm", ends, common.Atom("q" + c["seq"]), max(c["mc"], 0), max(c["lo"], 0),
                   max(c["hi"], 0), c["clip"], c["semi"])
    if is_zero(c):
        z = zero_of(c)
        lb = z["lb"] if z["lb"] is not None else [False, False, ""]
        la = z["la"] if z["la"] is not None else [False, False, ""]
        # `digestspecz` = what the code returns (DigestSpecZ, proved = digestZ); `digestspeczi` = the property text
        # read literally (DigestSpecZI); they differ only when the rule matches at position 0 and clipping is on
        zop = {"digest": "digestz", "digestspec": "digestspeczi" if STRICT_NTERM_CLIP else "digestspecz",
               "digestspeci": "digestspeczi"}[op]
        return req(zop, bool(lb[0]), cls_atom(lb[1], fold_case(lb[2], c)), bool(la[0]),
                   cls_atom(la[1], fold_case(la[2], c)),
                   common.Atom("q" + c["seq"]), c["mc"], c["lo"], c["hi"], c["clip"], c["semi"])
    if is_pattern(c):
        pat = pat_of(c)
        la = pat["la"] if pat["la"] is not None else [False, False, ""]
        return req(op + "p", [cls_atom(n, fold_case(l, c)) for n, l in pat["classes"]], bool(la[0]),
                   cls_atom(la[1], fold_case(la[2], c)),
                   common.Atom("q" + c["seq"]), c["mc"], c["lo"], c["hi"], c["clip"], c["semi"])
    cls, nn = ENZYMES[c["enz"]]
    if op == "digestspec" and c["lo"] < 1:
        op = "digestspec0"   # all-bounds specification (min_length = 0 included)
    return req(op, common.Atom("q" + fold_case(cls, c)), common.Atom("q" + fold_case(nn, c)), common.Atom("q" + c["seq"]),
               c["mc"], c["lo"], c["hi"], c["clip"], c["semi"])


def parse_peps(line):
    line = line.strip()
    if not (line.startswith("[") and line.endswith("]")):
        raise RuntimeError(f"driver answered {line!r}")
    return {t[1:] for t in line[1:-1].split()}


def zero_ends(c):
    return py_zero_ends(zero_of(c), c["seq"], lambda l: fold_case(l, c))


def internal_sites(c):
    s = c["seq"]
    if is_multi(c):
        return sum(1 for e in multi_ends(c) if 0 < e < len(s))
    if is_zero(c):
        return sum(1 for e in zero_ends(c) if 0 < e < len(s))
    if is_pattern(c):
        return sum(1 for e in py_match_ends(pat_of(c), s) if e < len(s))
    cls, nn = ENZYMES[c["enz"]]
    n = 0
    for i, ch in enumerate(s[:-1]):
        if ch in cls and s[i + 1] not in nn:
            n += 1
    return n


def last_residue_cleaves(c):
    s = c["seq"]
    if is_multi(c):
        return bool(s) and len(s) in multi_ends(c)
    if is_zero(c):
        return bool(s) and len(s) in zero_ends(c)
    if is_pattern(c):
        return bool(s) and len(s) in py_match_ends(pat_of(c), s)
    return bool(s) and s[-1] in ENZYMES[c["enz"]][0]


def py_spec(c, strict=False):
    """the specification restated directly in Python (no `re`, no Lean): the set of peptides the enzyme rules allow.
    Cleavage positions = 0, len(seq) and every match end; a peptide seq[a:b] between two of them with at most `mc`
    positions strictly between and lo <= b-a <= hi; with clip the form seq[1:b] of such a peptide at a = 0 starting
    with M (still >= lo; when position 0 is itself a match end - zero-width rules only - the code lists it twice and
    then needs one missed cleavage in reserve: DigestSpecZ); with semi every proper prefix / suffix >= lo; the empty
    peptide when lo = 0 and an end of the sequence is listed twice.  Independent oracle for the long proteins, and
    cross-checked against the Lean spec enumerations on the short ones."""
    if is_multi(c):
        return py_spec_multi(c)
    s = c["seq"]
    n = len(s)
    if is_zero(c):
        ends = zero_ends(c)
    elif is_pattern(c):
        if c.get("icase"):
            raise ValueError("py_spec: no case folding for general patterns")
        ends = py_match_ends(pat_of(c), s)
    else:
        cls, nn = (fold_case(x, c) for x in ENZYMES[c["enz"]])
        ends = [i + 1 for i, ch in enumerate(s) if ch in cls and (i + 1 == n or s[i + 1] not in nn)]
    start_dup = 0 in ends and not (strict or STRICT_NTERM_CLIP)   # strict: the property text (DigestSpecZI)
    empty_ok = 0 in ends or n == 0 or n in ends
    pos = sorted(set([0, n] + ends))
    mc, lo, hi = c["mc"], c["lo"], c["hi"]
    out = set()
    for i, a in enumerate(pos):
        for j in range(i + 1, min(len(pos), i + mc + 2)):
            b = pos[j]
            if not (lo <= b - a <= hi):
                continue
            out.add(s[a:b])
            if c["clip"] and a == 0 and s[0] == "M" and b - 1 >= lo and (not start_dup or (j - i - 1) + 1 <= mc):
                out.add(s[1:b])
            if c["semi"]:
                for k in range(1, b - a):
                    if b - a - k >= lo:
                        out.add(s[a + k:b])
                        out.add(s[a:b - k])
    if lo == 0 and empty_ok:
        out.add("")
    return out


def first_clause(c, impl, spec):
    extra = sorted(impl - spec)
    missing = sorted(spec - impl)
    for p in extra:
        if p not in c["seq"]:
            return f"returned peptide {p!r} is not a substring of the protein"
    if extra:
        return f"returned peptide(s) not allowed by the enzyme rules: {extra[:5]}"
    return f"peptide(s) allowed by the enzyme rules are missing: {missing[:5]}"


def info(chk, key, item):
    """informational tally that never influences the verdict"""
    d = chk.extra.setdefault(key, {"count": 0, "first": item})
    d["count"] += 1


def eval_cases(chk, cases, detail=True, oracle="lean"):
    """run implementation, model and specification on `cases`; classify disagreements.
    oracle = "lean": the spec is the Lean enumeration (driver op digestspec*), and for short sequences the Python
    restatement `py_spec` is cross-checked against it; oracle = "py": the spec is `py_spec` alone (long proteins, for
    which the cubic Lean enumeration is too slow) - the Lean model is still compared"""
    lines, at = [], []
    for c in cases:
        i0 = len(lines)
        lines.append(wire("digest", c))
        if oracle == "lean":
            lines.append(wire("digestspec", c))
        tally_i = None
        if is_zero(c) and c["clip"] and not STRICT_NTERM_CLIP and oracle == "lean":
            tally_i = len(lines)
            lines.append(wire("digestspeci", c))
        at.append((i0, tally_i))
    resp = common.driver_batch(lines)
    results = []
    for k, c in enumerate(cases):
        i0, tally_i = at[k]
        model = parse_peps(resp[i0])
        spec = parse_peps(resp[i0 + 1]) if oracle == "lean" else py_spec(c)
        if is_multi(c) and (c["mc"] < 0 or c["hi"] < 0):
            spec = set()   # `range(1, mc + 2)` is empty / `len(peptide) > max_length` always holds
        again = None
        try:
            out = impl_digest(c)
            if c.get("again"):
                # object re-use: spoil the first result, call again with the same arguments
                again = set(out)
                if hasattr(out, "add"):
                    out.add("\x00spoilt")
                    out.discard(min(again, default=None))
                out = impl_digest(c)
        except Exception as e:  # digest promises a result for every str sequence and int bounds
            chk.spec_violation("exception:" + type(e).__name__,
                               dict(case=c, error=repr(e), clause="mokapot.digest raised"))
            results.append(None)
            continue
        impl = set(out)
        results.append(impl)
        ns = internal_sites(c)
        key = (c["enz"], c["seq"], c["mc"], c["lo"], c["hi"], c["clip"], c["semi"]) if (ns and impl) else None
        chk.case(None, key, sample=dict(case=c, impl=sorted(impl), model=sorted(model))
                 if (ns and impl and len(c["seq"]) <= 200) else None)
        if detail:
            n = len(c["seq"])
            pat = is_pattern(c)
            zero = is_zero(c)
            chk.count("len", n if n <= 10 else ("11-30" if n <= 30 else ("31-100" if n <= 100 else (
                "101-399" if n < 400 else ("400-1999" if n < 2000 else ">=2000")))))
            multi = is_multi(c)
            chk.count("enzyme", ("any-regex family: " if multi else "") + c["enz"]
                      if (c["enz"] in ENZYMES or c["enz"] in PATTERNS or c["enz"] in ZERO_RULES
                          or c["enz"] in ANY_REGEXES)
                      else ("(random any-regex)" if multi else
                            ("(random zero-width rule)" if zero else "(random pattern)")))
            chk.count("enzyme_model", "digestM (match ends from re)" if multi else (
                "digestZ" if zero else ("digestP" if pat else "digest")))
            if multi:
                me = multi_ends(c)
                chk.count("anyregex_site_listed_twice_interior",
                          any(a == b and 0 < a < n for a, b in zip(me, me[1:])))
                chk.count("anyregex_site_0_listed_twice", 0 in me)
                chk.count("anyregex_end_listed_3_times", me[-2:] == [n, n])
                chk.count("anyregex_negative_limit", neg_limits(c))
                chk.count("anyregex_spec_oracle", "py_spec_multi" if oracle != "lean" else (
                    "DigestSpecMS (positions as a set)" if multi_set_spec(c) else "DigestSpecM (with multiplicity)"))
                chk.count("anyregex_match_widths", "empty only" if all(m.end() == m.start() for m in re.finditer(
                    c["enz"], c["seq"], re.IGNORECASE if c.get("icase") else 0)) else "some non-empty")
            chk.count("enzyme_written_as", "any regex" if multi else (
                "look-around only (empty matches)" if (c.get("zw") or zero) else "consuming"))
            chk.count("compiled_regex", bool(c.get("compiled")))
            chk.count("compiled_with_IGNORECASE", bool(c.get("icase")))
            chk.count("compiled_with_VERBOSE", bool(c.get("verbose")))
            chk.count("mc", c["mc"])
            chk.count("clip", c["clip"])
            chk.count("semi", c["semi"])
            chk.count("internal_sites", ns if ns <= 5 else (">5" if ns <= 50 else ">50"))
            chk.count("n_peptides", len(impl) if len(impl) <= 3 else ("4-10" if len(impl) <= 10 else (
                ">10" if len(impl) <= 1000 else ">1000")))
            chk.count("last_residue_cleaves", last_residue_cleaves(c))
            chk.count("starts_with_M", c["seq"].startswith("M"))
            chk.count("min_length_0", c["lo"] < 1)
            chk.count("max_length", "<= 2^31" if c["hi"] < 2 ** 31 else ">= 2^31")
            chk.count("empty_peptide_returned", "" in impl)
            chk.count("call_form", c.get("call", "kw"))
            chk.count("called_twice_first_result_spoilt", bool(c.get("again")))
            chk.count("spec_oracle", oracle)
            if c.get("call") == "omit":
                for k_ in c["omit"]:
                    chk.count("omitted_argument", k_)
            chk.count("nonstandard_residues", any(ch not in AA20 for ch in c["seq"]))
            if pat:
                p = pat_of(c)
                chk.count("pattern_width", len(p["classes"]))
                chk.count("pattern_lookahead", "none" if p["la"] is None else ("positive" if p["la"][0] else "negative"))
                chk.count("pattern_negated_class", any(n_ for n_, _ in p["classes"]))
            if zero:
                z = zero_of(c)
                ze = zero_ends(c)
                chk.count("zero_lookbehind", "none" if z["lb"] is None else ("positive" if z["lb"][0] else "negative"))
                chk.count("zero_lookahead", "none" if z["la"] is None else ("positive" if z["la"][0] else "negative"))
                chk.count("zero_match_at_position_0", 0 in ze)
                chk.count("zero_match_at_position_0_clip_M", 0 in ze and c["clip"] and c["seq"].startswith("M"))
                chk.count("zero_match_at_end", len(c["seq"]) in ze)
        if not all(isinstance(p, str) for p in out):
            chk.spec_violation("non-str-peptide", dict(case=c, impl=repr(out), clause="result is not a set of str"))
            continue
        if again is not None and again != impl:
            chk.spec_violation("repeat-call", dict(
                case=c, impl=sorted(impl), expected=sorted(again),
                clause="two calls with the same arguments return different sets (the first result was modified by the "
                       f"caller in between): {sorted(impl ^ again)[:5]}"))
            continue
        if tally_i is None and oracle == "py" and is_zero(c) and c["clip"] and not STRICT_NTERM_CLIP:
            if impl != py_spec(c, strict=True):
                info(chk, "clipped_form_skipped_after_empty_match_at_position_0",
                     dict(case=dict(c, seq=c["seq"][:80] + "..."), missing=sorted(py_spec(c, strict=True) - impl)[:5]))
        if tally_i is not None and impl != parse_peps(resp[tally_i]):
            # informational: the code's result differs from the property text read literally (clipped form of an
            # N-terminal peptide skipped because the rule matches at position 0) - see GAPS-C17.md, second pass
            info(chk, "clipped_form_skipped_after_empty_match_at_position_0",
                 dict(case=c, impl=sorted(impl), property_text=sorted(parse_peps(resp[tally_i]))))
        if oracle == "lean" and detail and len(c["seq"]) <= 60 and not (is_pattern(c) and c.get("icase")):
            chk.count("py_spec_cross_checked", True)
            if py_spec(c) != spec:
                # the Python restatement used for the long proteins must agree with the proved enumerations
                info(chk, "harness_py_spec_disagreements", dict(case=c, py=sorted(py_spec(c)), lean=sorted(spec)))
        if (detail and c["clip"] and not c["semi"] and c["seq"].startswith("M") and 0 <= c["lo"] <= c["hi"] < len(c["seq"])
                and not c.get("call") and impl == spec):
            # observation O-2 (GAPS-C17.md, third pass): the N-terminal peptide of M + max_length residues fails the
            # length filter before the clip branch, so its clipped form (exactly max_length residues) is not returned
            # (C17_digestM_clipped_shorter_than_max).  Informational: the property text asks for the clipped form of
            # *qualifying* N-terminal peptides only.
            chk.count("clip_maxlen_probe", True)
            wider = set(impl_digest(dict(c, hi=c["hi"] + 1, again=False)))
            lost = [q for q in wider - impl if len(q) == c["hi"] and c["seq"].startswith("M" + q)]
            if lost:
                info(chk, "clipped_form_of_exactly_max_length_not_produced",
                     dict(case=dict(c, seq=c["seq"][:80]), not_returned=lost[:3]))
        if impl != spec:
            sig = ("digest-vs-spec" + ("-anyregex" if is_multi(c) else (
                "-zero" if is_zero(c) else ("-pattern" if is_pattern(c) else "")))
                   + ("-minlen0" if c["lo"] < 1 else ""))
            clause = first_clause(c, impl, spec) + (" (second of two calls)" if again is not None else "")
            if is_zero(c) and c["clip"] and not STRICT_NTERM_CLIP and impl == (
                    parse_peps(resp[tally_i]) if tally_i is not None else py_spec(c, strict=True)):
                clause += (" - the result equals the property text read literally (DigestSpecZI) but not the behaviour "
                           "modelled from the code (DigestSpecZ: with site 0 listed twice the clip test `not start_idx` "
                           "skips the N-terminal peptide reached from start_idx = 1); if `_cleave` was repaired on "
                           "purpose, Model/DigestZero.lean has to follow (GAPS-C17.md, second pass)")
            chk.spec_violation(
                sig, dict(case=c, impl=sorted(impl)[:200], expected=sorted(spec)[:200], clause=clause))
        elif impl != model:
            chk.corr_break(("digestint" if neg_limits(c) else "digestm") if is_multi(c) else (
                "digestz" if is_zero(c) else ("digestp" if is_pattern(c) else "digest")),
                           dict(case=c, impl=sorted(impl)[:200], model=sorted(model)[:200]))
    return results


def default_call_cases(chk, rng, n):
    """`mokapot.digest(sequence)` with every optional argument omitted, against the model op `digestdefault`
    and the spec enumeration with the documented defaults written out"""
    import mokapot

    seqs = []
    for _ in range(n):
        k = rng.random()
        if k < 0.5:
            m = rng.randint(0, 40)
            seqs.append("".join(rng.choices("KRPMA", weights=[2, 1, 1, 1, 6], k=m)))
        else:
            m = rng.randint(20, 90)
            w = [(5 if a in "KR" else (2 if a in "PM" else 1)) for a in AA20]
            seqs.append("".join(rng.choices(AA20, weights=w, k=m)))
    cases = [dict(DEFAULTS, seq=s, compiled=False) for s in seqs]
    lines = []
    for c in cases:
        lines.append(req("digestdefault", common.Atom("q" + c["seq"])))
        lines.append(wire("digestspec", c))
    resp = common.driver_batch(lines)
    for k, c in enumerate(cases):
        model = parse_peps(resp[2 * k])
        spec = parse_peps(resp[2 * k + 1])
        try:
            impl = set(mokapot.digest(c["seq"]))
        except Exception as e:
            chk.spec_violation("exception:" + type(e).__name__,
                               dict(case=dict(c, call="omit", omit=list(PARAM_ORDER)), error=repr(e),
                                    clause="mokapot.digest(sequence) raised"))
            continue
        cc = dict(c, call="omit", omit=list(PARAM_ORDER))
        chk.case(None, ("default", c["seq"]) if impl else None, sample=None)
        chk.count("call_form", "digest(sequence)")
        chk.count("default_call_n_peptides", len(impl) if len(impl) <= 3 else ">3")
        if impl != spec:
            chk.spec_violation("digest-vs-spec", dict(case=cc, impl=sorted(impl), expected=sorted(spec),
                                                      clause="digest(sequence): " + first_clause(c, impl, spec)))
        elif impl != model:
            chk.corr_break("digestdefault", dict(case=cc, impl=sorted(impl), model=sorted(model)))


def direct_clauses(chk, c, impl_of):
    """monotonicity and substring clauses restated directly on the real outputs (no Lean involved)"""
    base = impl_of(c)
    for p in base:
        if p not in c["seq"]:
            chk.spec_violation("substring", dict(case=c, impl=sorted(base), expected="substrings of seq",
                                                 clause=f"{p!r} is not a substring of the protein"))
    for name, c2 in (
        ("mono-mc", dict(c, mc=c["mc"] + 1)),
        ("mono-bounds-lo", dict(c, lo=max(0, c["lo"] - 1))),
        ("mono-bounds-hi", dict(c, hi=c["hi"] + 1)),
        ("mono-semi", dict(c, semi=True)),
        ("mono-clip", dict(c, clip=True)),
    ):
        bigger = impl_of(c2)
        chk.count("direct_clause", name)
        if not base <= bigger:
            chk.spec_violation(name, dict(case=c, relaxed=c2, impl=sorted(base), expected=sorted(bigger),
                                          clause=f"{name}: {sorted(base - bigger)[:5]} disappear when the limits are relaxed"))


def sites_cases(chk, rng, n):
    """`_cleavage_sites` through the model ops `sites` / `sitesp` (private helper: correspondence only, informational)"""
    from mokapot.parsers import fasta

    cases = []
    zcases = []
    for _ in range(n // 4):
        z = ZERO_RULES[rng.choice(list(ZERO_RULES))] if rng.random() < 0.5 else gen_zero(rng)
        alpha = zero_alphabet(z)
        zcases.append((zero_regex(z, rng), z, "".join(rng.choice(alpha) for _ in range(rng.randint(0, 12)))))
    zlines = []
    for enz, z, seq in zcases:
        lb = z["lb"] if z["lb"] is not None else [False, False, ""]
        la = z["la"] if z["la"] is not None else [False, False, ""]
        zlines.append(req("sitesz", bool(lb[0]), cls_atom(lb[1], lb[2]), bool(la[0]), cls_atom(la[1], la[2]),
                          common.Atom("q" + seq)))
    for (enz, z, seq), r in zip(zcases, common.driver_batch(zlines)):
        model = [int(t) for t in r.strip()[1:-1].split()]
        impl = list(fasta._cleavage_sites(seq, enz))
        chk.count("sites_cases", "zero-width")
        if impl != model:
            info(chk, "private_helper_sites_disagreements", dict(enz=enz, seq=seq, impl=impl, model=model))
        if [0] + py_zero_ends(z, seq) + [len(seq)] != model:
            info(chk, "harness_tally_matcher_disagreements", dict(enz=enz, seq=seq, model=model))
    # any regex: `_cleavage_sites` against `sitesm` (the match ends come from `re` on both sides: this compares the
    # wrapping `[0] + ends + [len]` only) - informational like the other private-helper comparisons
    mcases = [gen_multi_case(rng, 20) for _ in range(n // 4)]
    mresp = common.driver_batch([req("sitesm", multi_ends(c), common.Atom("q" + c["seq"])) for c in mcases])
    for c, r in zip(mcases, mresp):
        model = [int(t) for t in r.strip()[1:-1].split()]
        impl = list(fasta._cleavage_sites(c["seq"], the_regex(c)))
        chk.count("sites_cases", "any regex")
        if impl != model:
            info(chk, "private_helper_sites_disagreements", dict(enz=c["enz"], seq=c["seq"], impl=impl, model=model))
    # the spec function `matchAt` (building block of `LeftmostMatches`, C17_finditer_leftmost / _unique) against
    # CPython: `regex.match(seq, s)` at every position - a disagreement means the Lean reading of the pattern
    # language is wrong (framework error, raised at the end of the run)
    pcases = []
    for _ in range(n // 2):
        if rng.random() < 0.4:
            enz = rng.choice(list(PATTERNS))
            pat = PATTERNS[enz]
        else:
            pat = gen_pattern(rng)
            enz = pattern_regex(pat, rng)
        alpha = pattern_alphabet(pat)
        pcases.append((enz, pat, "".join(rng.choice(alpha) for _ in range(rng.randint(0, 12)))))
    plines = []
    for enz, pat, seq in pcases:
        la = pat["la"] if pat["la"] is not None else [False, False, ""]
        plines.append(req("matchatp", [cls_atom(n_, l) for n_, l in pat["classes"]], bool(la[0]),
                          cls_atom(la[1], la[2]), common.Atom("q" + seq)))
    for (enz, pat, seq), r in zip(pcases, common.driver_batch(plines)):
        model = [t == "T" for t in r.strip()[1:-1].split()]
        rx = re.compile(enz)
        real = [rx.match(seq, s_) is not None for s_ in range(len(seq) + 1)]
        chk.count("sites_cases", "matchAt vs re.match")
        if real != model:
            info(chk, "spec_function_matchAt_vs_re_disagreements", dict(enz=enz, seq=seq, re=real, lean=model))
    for _ in range(n):
        if rng.random() < 0.5:
            enz = rng.choice(list(ENZYMES))
            pat = None
        elif rng.random() < 0.5:
            enz = rng.choice(list(PATTERNS))
            pat = PATTERNS[enz]
        else:
            pat = gen_pattern(rng)
            enz = pattern_regex(pat, rng)
        alpha = small_alphabet(enz) if pat is None else pattern_alphabet(pat)
        seq = "".join(rng.choice(alpha) for _ in range(rng.randint(0, 12)))
        cases.append((enz, pat, seq))
    lines = []
    for enz, pat, seq in cases:
        if pat is None:
            cn = ENZYMES[enz]
            lines.append(req("sites", common.Atom("q" + cn[0]), common.Atom("q" + cn[1]), common.Atom("q" + seq)))
        else:
            la = pat["la"] if pat["la"] is not None else [False, False, ""]
            lines.append(req("sitesp", [cls_atom(n_, l) for n_, l in pat["classes"]], bool(la[0]),
                             cls_atom(la[1], la[2]), common.Atom("q" + seq)))
    resp = common.driver_batch(lines)
    for (enz, pat, seq), r in zip(cases, resp):
        model = [int(t) for t in r.strip()[1:-1].split()]
        impl = list(fasta._cleavage_sites(seq, enz))
        chk.count("sites_cases", "class" if pat is None else "pattern")
        if impl != model:
            # private helper, not an observation point of C17: never part of the verdict (DESIGN 2.4)
            info(chk, "private_helper_sites_disagreements", dict(enz=enz, seq=seq, impl=impl, model=model))
        if pat is not None and [0] + py_match_ends(pat, seq) + [len(seq)] != model:
            info(chk, "harness_tally_matcher_disagreements", dict(enz=enz, seq=seq, model=model))


# ----------------------------------------------------------------------------
# generators
# ----------------------------------------------------------------------------
def gen_seq(rng, enz, nmax, pat=None, zero=None):
    if zero is not None:
        alpha = zero_alphabet(zero)
        cls = "".join(a[2] for a in (zero["lb"], zero["la"]) if a is not None and not a[1]) or "K"
        nn = "".join(a[2] for a in (zero["lb"], zero["la"]) if a is not None and a[1])
    elif pat is None and enz in ENZYMES:
        cls, nn = ENZYMES[enz]
        alpha = small_alphabet(enz)
    else:
        pat = pat or PATTERNS[enz]
        alpha = pattern_alphabet(pat)
        cls = "".join(l for n_, l in pat["classes"] if not n_) or "K"
        nn = (pat["la"][2] if pat["la"] is not None else "") + "".join(l for n_, l in pat["classes"] if n_)
    kind = rng.random()
    if kind < 0.55:
        n = rng.choice([0, 1, 2, 3, 3, 4, 4, 5, 5, 6, 6, 7, 8, 9, 10])
        s = "".join(rng.choice(alpha) for _ in range(n))
    elif kind < 0.9:
        n = rng.randint(11, 60)
        w = [(6 if a in cls else (4 if a in nn else (2 if a == "M" else 1))) for a in AA20]
        s = "".join(rng.choices(AA20, weights=w, k=n))
    else:
        n = rng.randint(61, 160)
        s = "".join(rng.choice(AA20) for _ in range(n))
    s = s[:nmax]
    if s and rng.random() < 0.35:
        s = "M" + s[1:]
    if s and rng.random() < 0.2:
        s = s[:-1] + rng.choice(cls)
    if s and rng.random() < 0.08:
        # lower-case residues (never cleavage residues of an upper-case class) and non-standard letters
        t = list(s)
        for _ in range(rng.randint(1, 3)):
            i = rng.randrange(len(t))
            t[i] = t[i].lower() if rng.random() < 0.6 else rng.choice("XBZUOJ")
        s = "".join(t)
    return s


def gen_case(rng, nmax=160, zero_share=0.12):
    """zero_share: fraction of cases whose enzyme is a zero-width rule (Model/DigestZero.lean); the remaining cases are
    distributed as before (class enzymes 62 %, named patterns 22 %, random patterns 16 %)"""
    zero = None
    if rng.random() < zero_share:
        if rng.random() < 0.6:
            enz = rng.choice(list(ZERO_RULES))
            zero = ZERO_RULES[enz]
        else:
            zero = gen_zero(rng)
            enz = zero_regex(zero, rng)
    r0 = rng.random()
    pat = None
    if zero is not None:
        pass
    elif r0 < 0.62:
        enz = rng.choice(list(ENZYMES))
    elif r0 < 0.84:
        enz = rng.choice(list(PATTERNS))
        pat = PATTERNS[enz]
    else:
        pat = gen_pattern(rng)
        enz = pattern_regex(pat, rng)
    # patterns with negated / any-residue classes cut almost everywhere: the spec enumeration is cubic in the
    # number of sites, so their sequences are capped (the class enzymes keep the long ones)
    seq = gen_seq(rng, enz, nmax if (pat is None and zero is None) else min(nmax, 48), pat, zero)
    n = len(seq)
    mc = rng.choice([0, 0, 1, 1, 2, 2, 3, 3, 4, 6])
    if rng.random() < 0.01:
        mc = rng.choice([25, 50])   # far more than there are sites
    r = rng.random()
    if r < 0.1 and n >= 8:
        lo, hi = 6, 50  # defaults
    elif r < 0.18:
        lo = 0  # all-bounds specification (`digestspec0` / `digestspecp`)
        hi = rng.randint(0, max(1, n))
    else:
        lo = rng.choice([1, 1, 1, 1, 2, 2, 2, 3, 3, 4, 5, 7] + ([max(1, n - 1), n, n + 1] if rng.random() < 0.15 else []))
        lo = min(lo, max(1, n)) if rng.random() < 0.9 else lo
        hi = rng.choice([lo, lo + 1, lo + 2, lo + 4, lo + 10, max(lo, n), n + 3, 50] + ([lo - 1] if rng.random() < 0.2 else []))
        hi = max(hi, 0)
    if rng.random() < 0.02:
        hi = rng.choice([2 ** 31 - 1, 2 ** 31, 2 ** 63 - 1, 2 ** 63, 10 ** 30])   # "no upper limit"
    c = dict(enz=enz, compiled=rng.random() < 0.3, seq=seq, mc=mc, lo=lo, hi=hi,
             clip=rng.random() < 0.5, semi=rng.random() < 0.5)
    if pat is not None and enz not in PATTERNS:
        c["pat"] = pat
    if zero is not None and ZERO_RULES.get(enz) != zero:
        c["zero"] = zero
    if zero is not None and seq and rng.random() < 0.3:
        # a rule that matches in front of the first residue, a protein starting with M, clipping on
        c["seq"] = "M" + seq[1:]
        c["clip"] = True
    if rng.random() < 1 / 16:
        c["again"] = True   # call twice, the first result spoilt in between
    if rng.random() < 0.08:
        # soft-masked (lower-case) residues and an enzyme compiled with re.IGNORECASE
        c["icase"] = True
        c["compiled"] = True
        c["seq"] = "".join(ch.lower() if rng.random() < 0.4 else ch for ch in c["seq"])
    elif rng.random() < 0.2:
        zw = zero_width_form(c, rng)
        if zw is not None:
            c["zw"] = zw
    elif rng.random() < 0.04:
        c["verbose"] = True
        c["compiled"] = True
    r = rng.random()
    if r < 0.12:
        c["call"] = "pos"
    elif r < 0.30 and pat is None and zero is None:
        # leave a random non-empty subset of the optional arguments out: they then take their documented defaults
        omit = [k for k in PARAM_ORDER if rng.random() < 0.4] or [rng.choice(PARAM_ORDER)]
        for k in omit:
            c[k] = DEFAULTS[k]
        if "enz" in omit:
            c["compiled"] = False
            c.pop("icase", None)      # the default enzyme is a plain string pattern
            c.pop("zw", None)
            c.pop("verbose", None)
        c["call"] = "omit"
        c["omit"] = omit
    return c


def gen_multi_case(rng, nmax=40):
    """any-regex family (Model/DigestMulti.lean): named and random regexes outside the modelled classes, and now and
    then a regex of a modelled class (the generic model must agree there too)"""
    r = rng.random()
    if r < 0.5:
        enz = rng.choice(list(ANY_REGEXES))
        letters = ANY_REGEXES[enz]
    elif r < 0.9:
        enz, letters = gen_any_regex(rng)
    else:
        enz = rng.choice(list(ENZYMES) + list(PATTERNS) + list(ZERO_RULES))
        letters = "".join(small_alphabet(enz))
    alpha = list(dict.fromkeys(letters[:3] + "MA"))
    k = rng.random()
    if k < 0.6:
        n = rng.choice([0, 1, 2, 3, 3, 4, 4, 5, 5, 6, 6, 7, 8, 9, 10])
        seq = "".join(rng.choice(alpha) for _ in range(n))
    else:
        n = rng.randint(11, nmax)
        w = [(6 if a in letters else (2 if a == "M" else 1)) for a in AA20]
        seq = "".join(rng.choices(AA20, weights=w, k=n))
    if seq and rng.random() < 0.35:
        seq = "M" + seq[1:]
    n = len(seq)
    mc = rng.choice([0, 0, 1, 1, 2, 2, 3, 3, 4, 6])
    r = rng.random()
    if r < 0.2:
        lo, hi = 0, rng.randint(0, max(1, n))
    else:
        lo = rng.choice([1, 1, 1, 1, 2, 2, 3, 4, 6])
        hi = rng.choice([lo, lo + 1, lo + 2, lo + 4, max(lo, n), n + 3, 50] + ([lo - 1] if rng.random() < 0.2 else []))
    c = dict(enz=enz, multi=True, compiled=rng.random() < 0.3, seq=seq, mc=mc, lo=lo, hi=max(hi, 0),
             clip=rng.random() < 0.5, semi=rng.random() < 0.5)
    if n >= 4 and rng.random() < 0.15:
        # semi AND clip on an M-initial protein whose N-terminal peptide is at least min_length + 2 long (a prefix of
        # the clipped form must not leak into the result: seeded change C17e)
        c["seq"] = "M" + "".join(rng.choice("AGLV") for _ in range(rng.randint(2, 5))) + seq[1:]
        c["clip"] = c["semi"] = True
        c["lo"] = rng.choice([0, 1, 1, 2])
        c["hi"] = max(c["hi"], c["lo"] + 4)
    if rng.random() < 0.06:
        # Python ints: a negative limit (`digestint`)
        which = rng.choice(["mc", "lo", "lo", "hi"])
        c[which] = -rng.choice([1, 1, 2, 5])
    if rng.random() < 0.06:
        c["icase"] = True
        c["compiled"] = True
        c["seq"] = "".join(ch.lower() if rng.random() < 0.4 else ch for ch in c["seq"])
    if rng.random() < 1 / 16:
        c["again"] = True
    if rng.random() < 0.1:
        c["call"] = "pos"
    if multi_ends(c) is None:
        raise RuntimeError(f"re.finditer reported match ends that are not weakly increasing / exceed len(seq): {c}")
    return c


def gen_long_case(rng, nmin, nmax):
    """a protein of nmin..nmax residues (real proteomes: median ~ 400, titin 35 000): class enzymes, a few general
    patterns and zero-width rules; realistic length limits so that the output stays small"""
    r = rng.random()
    pat = zero = None
    multi = False
    if r < 0.12:
        enz = rng.choice([r"[KR]|(?=D)", r"K+", r"[KR]{1,2}", r"K|$", r"^M|K", r"[KR](?!P)|(?=D)"])
        multi = True
    elif r < 0.6:
        enz = rng.choice(list(ENZYMES))
    elif r < 0.8:
        enz = rng.choice([r"\w(?=D)", r"[KR](?=[^P])", "KK", "[KR][^P]", "[KR]K(?=[^P])"])
        pat = PATTERNS[enz]
    else:
        enz = rng.choice([r"(?<=[KR])(?!P)", r"(?<=K)", r"(?=D)", r"(?=K)", r"(?<!P)(?=[DM])"])
        zero = ZERO_RULES[enz]
    n = int(round(nmin * (nmax / nmin) ** rng.random()))   # log-uniform
    if multi:
        cls, nn = ANY_REGEXES[enz], ""
    elif pat is None and zero is None:
        cls, nn = ENZYMES[enz]
    elif pat is not None:
        cls = "".join(l for n_, l in pat["classes"] if not n_) or "K"
        nn = pat["la"][2] if pat["la"] is not None else ""
    else:
        cls = "".join(a[2] for a in (zero["lb"], zero["la"]) if a is not None)
        nn = ""
    dense = rng.random() < 0.5
    w = [((8 if dense else 2) if a in cls else (3 if a in nn else (2 if a == "M" else 1))) for a in AA20]
    seq = "".join(rng.choices(AA20, weights=w, k=n))
    if rng.random() < 0.5:
        seq = "M" + seq[1:]
    if rng.random() < 0.3:
        seq = seq[:-1] + rng.choice(cls)
    if rng.random() < 0.3:
        # a stretch without any cleavage site, longer than max_length
        i = rng.randrange(n)
        seq = (seq[:i] + "".join(rng.choices("AGLSTV", k=rng.randint(60, 300))) + seq[i:])[:n]
    lo, hi = rng.choice([(6, 50), (6, 50), (7, 30), (1, 12), (0, 8), (5, 60), (8, 8), (20, 45)])
    c = dict(enz=enz, compiled=rng.random() < 0.5, seq=seq, mc=rng.choice([0, 1, 2, 2, 3, 5]), lo=lo, hi=hi,
             clip=rng.random() < 0.5, semi=rng.random() < 0.35)
    if c["semi"] and n > 1200:
        # `_cleave` copies the whole result set for every semi form (peptides.union): keep that output small
        c["mc"] = min(c["mc"], 1)
        c["lo"], c["hi"] = rng.choice([(8, 10), (12, 14), (0, 3), (25, 28)])
    if rng.random() < 0.2:
        c["call"] = "pos"
    if rng.random() < 0.15:
        c["again"] = True
    if multi:
        c["multi"] = True
    return c


def long_cases(chk, rng, n, nmin, nmax):
    """size-dependent behaviour: proteins far longer than the exhaustive / random families.  Oracle: `py_spec` (the
    Lean enumeration is cubic); the Lean model `digest`/`digestp`/`digestz` is compared as well"""
    cases = [gen_long_case(rng, nmin, nmax) for _ in range(n)]
    for i in range(0, len(cases), 8):
        eval_cases(chk, cases[i:i + 8], oracle="py")


def grid_full(enz, seq):
    """every (mc 0..3, 1 <= lo <= n, lo <= hi <= n plus one empty range, flags) for this sequence"""
    n = len(seq)
    bounds = [(lo, hi) for lo in range(1, n + 1) for hi in range(lo, n + 1)] + [(2, 1), (1, n + 2)]
    bounds += [(0, 0), (0, n)] if n else [(0, 0)]   # min_length = 0: all-bounds specification
    for mc in range(4):
        for lo, hi in bounds:
            for clip in (False, True):
                for semi in (False, True):
                    yield dict(enz=enz, compiled=False, seq=seq, mc=mc, lo=lo, hi=hi, clip=clip, semi=semi)


def grid_sampled(rng, enz, seq, nb):
    n = len(seq)
    for _ in range(nb):
        lo = rng.randint(1, max(1, n)) if rng.random() < 0.9 else 0
        hi = rng.randint(lo, n + 1)
        for mc in range(4):
            for clip in (False, True):
                for semi in (False, True):
                    yield dict(enz=enz, compiled=False, seq=seq, mc=mc, lo=lo, hi=hi, clip=clip, semi=semi)


def exhaustive_cases(spec, shard=0, nshards=1):
    """spec = (enzyme, alphabet, lengths, mode, seed); shards partition the sequences"""
    enz, alpha, lengths, mode, seed = spec
    rng = random.Random(seed * 1000 + shard)
    j = 0
    for n in lengths:
        for tup in itertools.product(alpha, repeat=n):
            j += 1
            if j % nshards != shard:
                continue
            seq = "".join(tup)
            if mode == "full":
                yield from grid_full(enz, seq)
            else:
                yield from grid_sampled(rng, enz, seq, 1)


def _run_shard(arg):
    """worker: evaluate one shard of the exhaustive sweep in a private Check and return the tallies"""
    prop, tier, seed, spec, shard, nshards = arg
    sub = common.Check(prop, tier, seed)
    batch = []
    n = 0
    for c in exhaustive_cases(spec, shard, nshards):
        batch.append(c)
        if len(batch) >= 20000:
            eval_cases(sub, batch, detail=False)
            n += len(batch)
            batch = []
        if len(sub.spec_violations) > 20 or len(sub.corr_breaks) > 20:
            break
    if batch:
        eval_cases(sub, batch, detail=False)
        n += len(batch)
    return dict(n=n, evaluations=sub.evaluations, nontrivial=sub.nontrivial, spec_violations=sub.spec_violations[:20],
                corr_breaks=sub.corr_breaks[:20], samples=sub.samples[:1], extra=sub.extra)


def exhaustive(chk, specs, workers):
    total = 0
    jobs = []
    for spec in specs:
        seeded = (*spec, chk.rng.getrandbits(48))
        for s in range(workers):
            jobs.append((chk.prop, chk.tier, chk.seed, seeded, s, workers))
    if workers > 1:
        ctx = multiprocessing.get_context("fork")
        with ctx.Pool(workers) as pool:
            outs = pool.map(_run_shard, jobs, chunksize=1)
    else:
        outs = [_run_shard(j) for j in jobs]
    for o in outs:
        total += o["n"]
        chk.evaluations += o["evaluations"]
        chk.nontrivial |= o["nontrivial"]
        chk.spec_violations += o["spec_violations"]
        chk.corr_breaks += o["corr_breaks"]
        if len(chk.samples) < 4:
            chk.samples += o["samples"]
        for k, v in o["extra"].items():
            d = chk.extra.setdefault(k, {"count": 0, "first": v["first"]})
            d["count"] += v["count"]
    chk.hist["exhaustive_cases"] = chk.hist.get("exhaustive_cases", 0) + total
    chk.extra.setdefault("exhaustive_sweeps", []).append(
        [f"{e} over {''.join(a)} lengths {list(l)} grid={m}" for e, a, l, m in specs] + [f"{total} cases"])
    return total


def mono_sweep(chk, rng, n):
    """direct monotonicity / substring clauses on the real code"""
    cache = {}

    def impl_of(c):
        k = (c["enz"], c["seq"], c["mc"], c["lo"], c["hi"], c["clip"], c["semi"])
        if k not in cache:
            cache[k] = set(impl_digest(c))
        return cache[k]

    for _ in range(n):
        c = gen_multi_case(rng, 30) if rng.random() < 0.2 else gen_case(rng, 40)
        c.pop("call", None)   # the relaxed variants change single arguments: plain keyword calls
        c.pop("omit", None)
        chk.count("direct_clause_family", "any regex" if is_multi(c) else ("pattern" if is_pattern(c) else "class"))
        direct_clauses(chk, c, impl_of)
        cache.clear()


def corpus_cases():
    p = common.VERIF / "harness" / "corpus" / "C17.json"
    if p.exists():
        return json.loads(p.read_text())
    return []


# ----------------------------------------------------------------------------
# shrinking, search, main, replay
# ----------------------------------------------------------------------------
def minimise(chk):
    if not chk.spec_violations:
        return
    sig, info = chk.spec_violations[0]
    if "case" not in info or not sig.startswith("digest-vs-spec"):
        return
    c0 = dict(info["case"])
    c0.pop("again", None)
    long_budget = [600]

    def oracle_of(c):
        return "py" if len(c["seq"]) > 200 else "lean"

    def fails_case(c):
        if oracle_of(c) == "py":
            # long protein: no driver round trip, bounded effort (a size-dependent failure cannot shrink below its
            # threshold, and the one-by-one phase of the shrinker would take thousands of evaluations)
            if long_budget[0] <= 0:
                return False
            long_budget[0] -= 1
            try:
                return set(impl_digest(c)) != py_spec(c)
            except Exception:
                return False
        sub = common.Check(chk.prop, chk.tier, chk.seed)
        try:
            eval_cases(sub, [c], detail=False)
        except Exception:
            return False
        return any(s.startswith("digest-vs-spec") for s, _ in sub.spec_violations)

    seq = common.shrink_list(list(c0["seq"]), lambda s: fails_case(dict(c0, seq="".join(s))), min_len=0)
    c = dict(c0, seq="".join(seq), compiled=False)
    for field, vals in (("call", ["kw"]), ("semi", [False]), ("clip", [False]), ("mc", range(0, c["mc"])),
                        ("hi", [len(c["seq"])]), ("lo", [1])):
        for v in vals:
            c2 = dict(c, **{field: v})
            if c2 != c and fails_case(c2):
                c = c2
                break
    sub = common.Check(chk.prop, chk.tier, chk.seed)
    eval_cases(sub, [c], detail=False, oracle=oracle_of(c))
    for s, i in sub.spec_violations:
        if s.startswith("digest-vs-spec"):
            chk.spec_violations[0] = (s, dict(i, shrunk_from=c0 if len(c0["seq"]) <= 400 else
                                              dict(c0, seq=c0["seq"][:120] + f"... ({len(c0['seq'])} residues)")))
            break


def search(chk):
    """failing-input search used when a proof or the correspondence is broken"""
    rng = chk.rng
    cases = [gen_case(rng, 60) for _ in range(20000)] + [gen_multi_case(rng) for _ in range(6000)]
    for i in range(0, len(cases), 5000):
        eval_cases(chk, cases[i:i + 5000], detail=False)
        if chk.spec_violations:
            break
    if not chk.spec_violations:
        exhaustive(chk, [("[KR](?!P)", tuple("KPMA"), range(0, 6), "full"), ("K", tuple("KMA"), range(0, 7), "full"),
                         ("KK", tuple("KMA"), range(0, 7), "full"), (r"\w(?=D)", tuple("DMA"), range(0, 6), "full"),
                         ("[KR][^P]", tuple("KPMA"), range(0, 6), "full"),
                         (r"(?!P)", tuple("PMA"), range(0, 7), "full"), (r"(?<=K)", tuple("KMA"), range(0, 6), "full"),
                         (r"(?=D)", tuple("DMA"), range(0, 6), "full"), (r"", tuple("MA"), range(0, 7), "full"),
                         (r"[KR]|(?=D)", tuple("KDMA"), range(0, 6), "full"), (r"K*", tuple("KMA"), range(0, 6), "full")],
                   workers=4)
    if not chk.spec_violations:
        long_cases(chk, rng, 150, 400, 20000)
    if not chk.spec_violations:
        default_call_cases(chk, rng, 3000)
    if not chk.spec_violations:
        mono_sweep(chk, rng, 3000)
    minimise(chk)


def n_workers():
    try:
        avail = len(os.sched_getaffinity(0))
    except Exception:
        avail = os.cpu_count() or 1
    return max(1, min(8, avail // 2))


def main(chk, args):
    build = common.build_and_audit("C17")
    if not build.driver_ok:
        chk.finish(build, RULE)
    rng = chk.rng
    quick = chk.tier == "quick"
    import time as _t
    _T = [_t.time()]

    def lap(name):
        if os.environ.get("C17_TIMING"):
            print(f"  [timing] {name}: {_t.time() - _T[0]:.1f}s", flush=True)
        _T[0] = _t.time()

    lap("build")
    cases = [dict(c) for c in corpus_cases()]
    cases += [gen_case(rng, zero_share=0) for _ in range(12000 if quick else 120000)]
    cases += [gen_case(rng, zero_share=1) for _ in range(1500 if quick else 15000)]
    cases += [gen_multi_case(rng) for _ in range(2500 if quick else 25000)]
    for i in range(0, len(cases), 10000):
        eval_cases(chk, cases[i:i + 10000])
    lap("random")
    long_cases(chk, rng, 40 if quick else 250, 400, 6000 if quick else 15000)
    lap("long")
    default_call_cases(chk, rng, 400 if quick else 6000)
    lap("default")
    sites_cases(chk, rng, 500 if quick else 5000)
    mono_sweep(chk, rng, 1500 if quick else 15000)
    lap("sites+mono")
    if quick:
        exhaustive(chk, [("[KR](?!P)", tuple("KPMA"), range(0, 6), "full"),
                         ("[KR](?!K)", tuple("KRM"), range(0, 5), "full"),
                         ("KK", tuple("KMA"), range(0, 6), "full"),
                         (r"\w(?=D)", tuple("DMA"), range(0, 5), "full"),
                         (r"(?!P)", tuple("PMA"), range(0, 5), "full"),
                         (r"(?<=K)(?=.)", tuple("KMA"), range(0, 5), "full"),
                         (r"[KR]|(?=D)", tuple("KDMA"), range(0, 5), "full"),
                         (r"K*", tuple("KMA"), range(0, 5), "full")], workers=min(4, n_workers()))
    else:
        exhaustive(chk, [("[KR](?!P)", tuple("KPMA"), range(0, 7), "full"),
                         ("K", tuple("KMA"), range(0, 8), "full"),
                         ("[KR](?!K)", tuple("KRMA"), range(0, 6), "full"),
                         ("[FWY]", tuple("FWMA"), range(0, 6), "full"),
                         ("[KR](?!P)", tuple("KPM"), range(7, 11), "sampled"),
                         ("[KR]", tuple("KRM"), range(7, 10), "sampled"),
                         ("KK", tuple("KMA"), range(0, 8), "full"),
                         ("[KR][^P]", tuple("KRPM"), range(0, 6), "full"),
                         (r"\w(?=D)", tuple("DMA"), range(0, 7), "full"),
                         ("K.K", tuple("KMA"), range(0, 7), "full"),
                         ("[KR]K(?=[^P])", tuple("KRPM"), range(0, 6), "full"),
                         ("KK(?!K)", tuple("KM"), range(7, 12), "sampled"),
                         (r"(?!P)", tuple("PMA"), range(0, 8), "full"),
                         (r"(?<=[KR])(?!P)", tuple("KPMA"), range(0, 7), "full"),
                         (r"(?=D)", tuple("DMA"), range(0, 8), "full"),
                         (r"(?<!P)(?=[DM])", tuple("PDMA"), range(0, 6), "full"),
                         (r"", tuple("MA"), range(0, 9), "full"),
                         (r"(?<=[^P])(?=[KM])", tuple("KPM"), range(7, 11), "sampled"),
                         (r"[KR]|(?=D)", tuple("KDMA"), range(0, 7), "full"),
                         (r"K*", tuple("KMA"), range(0, 7), "full"),
                         (r"K|$", tuple("KMA"), range(0, 7), "full"),
                         (r"^M|K", tuple("KMA"), range(0, 7), "full"),
                         (r"[KR]{1,2}", tuple("KRM"), range(0, 7), "full"),
                         (r"(?=M)|(?<=K)", tuple("KM"), range(7, 11), "sampled")], workers=n_workers())
    lap("exhaustive")
    if "harness_py_spec_disagreements" in chk.extra:
        # the Python restatement of the specification (oracle of the long proteins) disagrees with the proved Lean
        # enumeration: the harness itself is wrong - a framework error, never a verdict
        raise RuntimeError("py_spec disagrees with the Lean specification: "
                           + json.dumps(chk.extra["harness_py_spec_disagreements"]["first"])[:1500])
    if "spec_function_matchAt_vs_re_disagreements" in chk.extra:
        raise RuntimeError("Lean `matchAt` disagrees with re.match: "
                           + json.dumps(chk.extra["spec_function_matchAt_vs_re_disagreements"]["first"])[:1500])
    minimise(chk)
    lc = None
    if chk.tier == "thorough":
        parts = [common.leanchecker(m) for m in ("C17", "C17Ext", "C17Zero", "C17Multi", "C17Src")]   # every property module of C17
        lc = (all(ok for ok, _ in parts), "\n".join(log for _, log in parts)[-2000:])
    chk.assumptions += [
        "the enzyme is a fixed-width pattern: one or more residue classes ([..], [^..], ., X) followed by an "
        "optional one-residue look-ahead of either polarity on such a class; for these patterns re.finditer is "
        "assumed to report the leftmost non-overlapping matches, scanned left to right (model `matchEnds` for "
        "width 1 with a negative look-ahead, `matchEndsP` in general; characterised by C17_finditer_leftmost / "
        "C17_finditer_unique); or a zero-width rule: a one-residue look-behind and/or look-ahead of either polarity "
        "(or nothing: the empty pattern), for which re.finditer is assumed to report every position 0..len(sequence) "
        "where the assertions hold (model `matchEndsZ`, C17_isEndZ_iff)",
        "any other enzyme regex (alternations, variable-width quantifiers, anchors, groups): the match ends are taken "
        "from CPython `re.finditer` (by the harness, not through mokapot) and are a parameter of the model `digestM`; "
        "the theorems assume only that they are weakly increasing and <= len(sequence) (C17_digestM_mem_iff_spec; "
        "checked on every generated case, a violation aborts the run); which positions a given regex matches is not "
        "modelled for these",
        "negative missed_cleavages / max_length give the empty set and a negative min_length acts like 0 "
        "(`digestInt`, a reading of the four comparisons of `_cleave`; tied by differential execution only)",
        "zero-width rules: the verdict specification is DigestSpecZ = the code as it is (C17_digestZ_mem_iff_spec); "
        "it equals the property text (DigestSpecZI) unless the rule matches at position 0 AND clipping is on "
        "(C17_digestZ_spec_intended); real results that differ from the property text there are counted in "
        "`clipped_form_skipped_after_empty_match_at_position_0` (C17_STRICT_NTERM_CLIP=1 makes them violations)",
        "proteins of 400 residues and more are checked against the Lean model and the Python restatement `py_spec` "
        "of the specification, which is itself compared with the proved Lean enumerations on every random case of "
        "at most 60 residues (a disagreement there is a framework error)",
        "sequences are str over letters (upper case, occasionally lower case / non-standard); missed_cleavages, "
        "min_length, max_length are non-negative ints; min_length = 0 is covered by the all-bounds theorems "
        "(C17_digest_mem_iff_spec_all, C17_digestP_mem_iff_spec: the empty peptide is returned exactly when "
        "len(sequence) is listed twice among the sites)",
        "omitted arguments take the documented defaults ([KR], 0, False, 6, 50, False), restated in the harness "
        "and in `digestDefault`, never read from the code under test",
        "the result is a Python set: compared as a set, the model's insertion order and repetitions are immaterial",
    ]
    chk.finish(build, RULE, search=search, lc=lc,
               trusted_extra=["CPython re (finditer on residue-class patterns with look-ahead), str slicing, set"])


def replay(chk, path):
    info = json.loads(open(path).read())
    if "case" not in info:
        print(json.dumps(info, indent=1)[:3000])
        return 0
    common.build_and_audit("C17")
    c = info["case"]
    if info.get("signature", "").startswith("mono") or info.get("signature") == "substring":
        direct_clauses(chk, c, lambda x: set(impl_digest(x)))
    else:
        eval_cases(chk, [c], oracle="py" if len(c["seq"]) > 200 else "lean")
    for sig, i in chk.spec_violations:
        print("REPRODUCED", sig, json.dumps(i)[:1500])
    return 1 if chk.spec_violations else 0
