"""C08 — fixed seed gives bit-identical results across runs and interpreter sessions."""
from __future__ import annotations

import copy
import itertools
import json
import os
import re
import subprocess
import sys
import threading
import time
from concurrent.futures import ThreadPoolExecutor
from pathlib import Path

import numpy as np

import common
import mkdata
import pipeline as P
import c08_child

RULE = (
    "pipeline case = (table seed, analysis seed, folds, worker count, format, roll-up level columns, 1-2 collections, "
    "protein level with a target-only FASTA and - in sampled cases - with a FASTA that holds decoys, with coarsely "
    "rounded (tied) scores, the fed-back models as an ensemble, the command line entry point); the complete analysis "
    "(read_pin, _split, brew with the default Percolator model, read_fasta, assign_confidence) "
    "is run twice in-process with different global numpy RNG states and in fresh interpreters under several "
    "PYTHONHASHSEED values and worker counts, and SHA-256 digests of fold assignments, coefficients, scores, generator "
    "states of the returned models and every result file are compared; the returned models are fed back in every "
    "permutation (folds <= 3) or sampled permutations. "
    "rng case = (1-2 small tables, folds, subset_max_train, int seed or Generator, worker count, per-fold delays): real "
    "brew() with a Model subclass that records the state of its generator around fit; compared (a) with a second run "
    "under another worker count / arrival order (spec: same seed, same draws) and (b) with the draw plan of the Lean "
    "model (`determplan`) replayed on an independent numpy Generator (fold sizes read from a separate _split call). "
    "fasta case = small FASTA (shared / nested / decoy proteins): key order of the real Proteins maps vs the Lean "
    "`determloop` applied to the enumerations of the digested peptide sets observed in this interpreter. "
    "distinct = distinct (case, comparison kind); non-trivial = every case"
)
HERE = Path(__file__).resolve().parent
DIMS = ("level_cols", "ncoll", "fasta_decoys", "ties", "ensemble", "cli")


def child(params, hashseed):
    env = dict(os.environ, PYTHONHASHSEED=str(hashseed))
    r = subprocess.run([sys.executable, "-W", "ignore", str(HERE / "c08_child.py"), json.dumps(params)],
                       capture_output=True, text=True, env=env, timeout=900, cwd=str(HERE))
    for line in r.stdout.splitlines():
        if line.startswith("DIGEST "):
            return json.loads(line[7:])
    last = (r.stderr.strip().splitlines() or ["?"])[-1]
    raise RuntimeError(f"child failed rc={r.returncode}: {last[:200]} || params={json.dumps(params)} hashseed={hashseed} "
                       f"|| {r.stderr[-1500:]}")


def diff(a, b):
    return sorted(k for k in set(a) | set(b) if a.get(k) != b.get(k))


def gen_case(rng, dims=None):
    """`dims`: which of the optional dimensions this case switches on (None: sampled)"""
    if dims is None:
        dims = [d for d in DIMS if rng.random() < 0.5]
    levels = [c for c in ("ModifiedPeptide", "Precursor", "PeptideGroup") if rng.random() < 0.6] or ["Precursor"]
    return dict(kind="pipeline", data_seed=rng.randrange(1 << 30), seed=rng.randrange(10000),
                n_spectra=rng.choice([150, 250]),
                n_pep=rng.choice([24, 40]), folds=rng.choice([2, 3, 3, 4]), workers=1,
                fmt=rng.choice(["pin", "parquet"]), peps=rng.choice(["qvality", "qvality", "kde_nnls"]),
                level_cols=levels if "level_cols" in dims else [], ncoll=2 if "ncoll" in dims else 1,
                fasta_decoys="fasta_decoys" in dims, ties="ties" in dims, ensemble="ensemble" in dims,
                cli="cli" in dims)


def run_case(chk, case, tier):
    def report(kind, what, d):
        chk.spec_violation("nondeterminism:" + kind + ":" + (d[0].split(":")[0] if d else ""),
                           dict(case=case, clause=f"{what}: artefacts differ: {d}"))

    for d in DIMS:
        chk.count("dim:" + d, bool(case.get(d)) if d != "ncoll" else case.get("ncoll", 1))
    # (c) fresh interpreters: hash seeds x worker counts — started first (they need nothing but the case), so that
    # their start-up time overlaps with the in-process runs; their digests are compared last, as before
    combos = [(0, 1), (2, 4), (3, 2)] if tier == "quick" else [(0, 1), (1, 4), (2, 16), (3, 2), (12345, 8), (7, 1)]
    ex = ThreadPoolExecutor(max_workers=len(combos))
    futs = [ex.submit(child, dict(case, workers=w, global_noise=h), h) for h, w in combos]
    try:
        _run_case_body(chk, case, tier, report, combos, futs)
    finally:
        ex.shutdown(wait=True)


def _run_case_body(chk, case, tier, report, combos, futs):
    with P.workdir() as wd:
        # (a) twice in the same process, with different global numpy RNG state
        try:
            keep = {}
            d1, models = c08_child.analysis(dict(case, global_noise=1), wd / "a", keep=keep)
            # second run in the same process, re-using the Proteins object of the first
            d2, _ = c08_child.analysis(dict(case, global_noise=2), wd / "b", proteins_in=keep.get("proteins"))
        except Exception as e:
            chk.reject("analysis-failed:" + type(e).__name__ + ":" + str(e)[:60])
            return
        chk.case(None, (case["data_seed"], "same-process"), sample=dict(case=case, digest=d1))
        chk.count("kind", "same-process")
        chk.count("result files per run", len([k for k in d1 if k.startswith(("file", "cli:"))]))
        for k_, v_ in d1.items():
            if k_.startswith("n_decoy_proteins:"):
                chk.count("protein pairs won by the decoy (per proteins file)", "0" if v_ == 0 else "1-2" if v_ < 3 else "3+")
        dd = diff(d1, d2)
        if dd:
            report("same-process", "two runs in one process (global numpy state differs)", dd)
            return
        if case.get("ties"):
            # is the tie-breaking path live?  the same tied scores under another seed (tallied, not required:
            # whether the shuffle can change a protein's best peptide depends on the table)
            other = {}
            c08_child.extra_run(other, "file_ties", dict(case, seed=case["seed"] + 1), keep["paths"],
                                c08_child.tied_scores(keep["scores"]), keep["descs"], wd / "ties_other_seed",
                                keep["proteins"])
            chk.count("tied scores: another seed changes a result file",
                      "refused" if "file_ties:raised" in other else any(other[k] != d1.get(k) for k in other))
        # (b) feeding the models back in any order (only meaningful when every fold model was trained: brew
        # refuses untrained models with an explicit error, and then falls back to the best feature anyway)
        perms = list(itertools.permutations(range(case["folds"])))
        if not all(m.is_trained for m in models):
            chk.reject("returned-models-untrained-feedback-skipped")
            perms = []
        if len(perms) > 6:
            perms = [perms[0]] + chk.rng.sample(perms[1:], 3 if tier == "quick" else 8)
        ens_ref = None
        for k, perm in enumerate(perms if tier != "quick" else perms[:4]):
            try:
                # the extra protein-level runs do not depend on the model order beyond `scores`, which is compared
                d3, _ = c08_child.analysis(dict(case, global_noise=3, fasta_decoys=False, ties=False), wd / f"p{k}",
                                           models_in=list(models), model_order=list(perm))
            except Exception as e:
                chk.spec_violation("model-feedback-failed", dict(case=case, perm=list(perm),
                                                                 clause=f"{type(e).__name__}: {e}"[:300]))
                return
            chk.case(None, (case["data_seed"], "perm", perm))
            chk.count("kind", "model-permutation")
            keys = [k_ for k_ in d1 if k_.startswith("file:") or k_ in ("scores", "descs", "folds")]
            bad = [k_ for k_ in keys if d1[k_] != d3.get(k_)]
            if bad:
                report("model-order", f"models fed back in order {perm}", bad)
                return
            if case.get("ensemble"):
                chk.count("kind", "model-permutation-ensemble")
                if ens_ref is None:
                    ens_ref = d3.get("scores_ensemble")
                elif d3.get("scores_ensemble") != ens_ref:
                    report("model-order", f"ensemble of the models fed back in order {perm} vs order {perms[0]}",
                           ["scores_ensemble"])
                    return
        # (c) fresh interpreters (started above)
        res = []
        for f in futs:
            try:
                res.append(f.result())
            except Exception as e:
                chk.reject("child-failed:" + str(e)[:160])
                chk.extra.setdefault("child_failures", []).append(str(e)[:4000])
                return
        for (h, w), dg in zip(combos, res):
            chk.case(None, (case["data_seed"], "fresh", h, w))
            chk.count("kind", f"fresh-interpreter hashseed={h} workers={w}")
            dd = diff(d1, dg)
            if dd:
                report("fresh-interpreter", f"fresh interpreter PYTHONHASHSEED={h} workers={w}", dd)
                return


# ----------------------------------------------------------------------------------------------------------------
# generator threading: real brew() with a state-recording Model vs the Lean draw plan replayed on numpy
# ----------------------------------------------------------------------------------------------------------------
SPY = {"log": [], "delay": {}, "lock": threading.Lock()}


def gen_state(g):
    return json.dumps(g.bit_generator.state, sort_keys=True, default=str)


def spy_model(seed):
    import mokapot
    from sklearn.base import BaseEstimator

    class FirstFeature(BaseEstimator):
        """learns nothing: the score is the first (informative) feature"""

        def fit(self, X, y):
            self.fitted_ = True
            return self

        def decision_function(self, X):
            return np.asarray(X)[:, 0]

    class SpyModel(mokapot.model.Model):
        def fit(self, psms):
            rec = dict(fold=self.fold, rows=len(psms.data), gen=id(self.rng), before=gen_state(self.rng))
            time.sleep(SPY["delay"].get(self.fold, 0.0))      # decides which worker reaches its draw first
            try:
                return super().fit(psms)
            finally:
                rec["after"] = gen_state(self.rng)
                with SPY["lock"]:
                    SPY["log"].append(rec)

    return SpyModel(FirstFeature(), train_fdr=0.5, max_iter=1, override=True, rng=seed + 12345)


def gen_rng_case(rng):
    ncoll = rng.choice([1, 1, 2])
    folds = rng.choice([2, 3, 3, 4])
    sizes = [rng.randrange(50, 110) for _ in range(ncoll)]
    order = list(range(1, folds + 1))
    rng.shuffle(order)
    return dict(kind="rng", data_seed=rng.randrange(1 << 30), seed=rng.randrange(1 << 31), ncoll=ncoll, folds=folds,
                n_spectra=sizes, subset=rng.choice([None, None, "small", "mid", "large"]),
                form=rng.choice(["int", "generator"]), workers=rng.choice([2, 3, 4, 8]),
                arrival=order)


def apply_draw(g, d):
    if d[0] == "sh":
        g.shuffle(np.arange(int(d[1])))
    elif d[0] == "ch":
        g.choice(list(range(int(d[1]))), int(d[2]), replace=False)
    elif d[0] == "pm":
        g.permutation(np.arange(int(d[1])))
    else:
        raise ValueError(d)


def run_rng_case(chk, case):
    import mokapot
    import random as pyrandom

    r = pyrandom.Random(case["data_seed"])
    chk.count("rng: collections", case["ncoll"])
    chk.count("rng: folds", case["folds"])
    chk.count("rng: subset_max_train", case["subset"] or "none")
    chk.count("rng: form", case["form"])
    chk.count("rng: workers", case["workers"])
    with P.workdir() as wd:
        paths = []
        for c in range(case["ncoll"]):
            df = mkdata.make_psm_table(r, n_spectra=case["n_spectra"][c], max_per_spectrum=2, n_feat=2, label_enc="pm1",
                                       optional=("ExpMass",), signal=5.0, rowid=False)
            paths.append(mkdata.write_table(df, wd / f"r{c}.pin"))
        # fold sizes: they do not depend on the generator (C02 checks the split itself)
        fold_sizes = [[len(x) for x in mkdata.read_dataset(p)._split(case["folds"], np.random.default_rng(0))]
                      for p in paths]
        total_train = min(sum(sum(fs) - fs[j] for fs in fold_sizes) for j in range(case["folds"]))
        subset = {None: None, "small": max(2, total_train // 4), "mid": max(2, total_train // 2),
                  "large": total_train + 5}[case["subset"]]

        def run(workers, delays):
            SPY["log"] = []
            SPY["delay"] = delays
            g = np.random.default_rng(case["seed"]) if case["form"] == "generator" else case["seed"]
            dsets = [mkdata.read_dataset(p) for p in paths]
            _, models, scores, _ = mokapot.brew(dsets if case["ncoll"] > 1 else dsets[0], spy_model(case["seed"]),
                                                test_fdr=0.5, folds=case["folds"], max_workers=workers, rng=g,
                                                subset_max_train=subset)
            log = sorted(SPY["log"], key=lambda x: x["fold"])
            return dict(log=log, caller=gen_state(g) if case["form"] == "generator" else None, caller_id=id(g),
                        models=[gen_state(m.rng) for m in models], model_ids=[id(m.rng) for m in models],
                        scores=[np.asarray(s, dtype=float).tobytes() for s in scores])

        plan = common.dec(common.driver_batch([common.req("determplan", False, subset, fold_sizes)])[0])
        real_err = None
        try:
            base = run(1, {})
            delays = {f: 0.015 * k for k, f in enumerate(case["arrival"])}
            var = run(case["workers"], delays)
        except Exception as e:
            real_err = e
        chk.case(None, ("rng", case["data_seed"], case["seed"]), sample=dict(case=case, plan=plan))
        if plan == "reject-choice" or real_err is not None:
            if plan == "reject-choice" and isinstance(real_err, ValueError):
                chk.reject("subset_max_train-larger-than-a-file:ValueError")     # numpy refuses the sample
            elif plan == "reject-choice":
                chk.corr_break("determplan", dict(case=case, impl=repr(real_err), model=plan))
            else:
                chk.reject("rng-case-failed:" + type(real_err).__name__ + ":" + str(real_err)[:60])
            return
        # (a) spec, stated directly: same seed => same draws, whatever the worker count and arrival order
        view = lambda o: ([(x["fold"], x["rows"], x["before"], x["after"]) for x in o["log"]], o["caller"],  # noqa: E731
                          o["models"], o["scores"])
        if view(base) != view(var):
            what = [n for n, a, b in zip(("per-fold generator states", "caller's generator", "returned models' generators",
                                          "scores"), view(base), view(var)) if a != b]
            chk.spec_violation("nondeterminism:rng-threading",
                               dict(case=case, clause=f"workers=1 vs workers={case['workers']} with arrival order "
                                    f"{case['arrival']}: {what} differ"))
            return
        # (b) the model's draw plan, replayed on an independent generator
        main, fits = plan
        o = np.random.default_rng(case["seed"])
        for d in main:
            apply_draw(o, d)
        s1 = gen_state(o)
        exp = []
        for reqs in fits:
            oj = copy.deepcopy(o)
            for d in reqs:
                apply_draw(oj, d)
            exp.append((int(reqs[0][1]), s1, gen_state(oj)))
        for obs in (base, var):
            got = [(x["rows"], x["before"], x["after"]) for x in obs["log"]]
            ids = [x["gen"] for x in obs["log"]]
            problems = []
            if got != exp:
                problems.append("per-fold (rows, state before fit, state after fit)")
            if obs["caller"] is not None and obs["caller"] != s1:
                problems.append("caller's generator after brew")
            if obs["models"] != [e[2] for e in exp]:
                problems.append("generators of the returned models")
            if len(set(ids)) != len(ids) or (obs["caller"] is not None and obs["caller_id"] in ids):
                problems.append("fold models share a generator object")
            if problems:
                chk.corr_break("determplan", dict(case=case, impl=dict(rows=[g[0] for g in got], problems=problems),
                                                  model=plan))
                return


# ----------------------------------------------------------------------------------------------------------------
# key order of the Proteins maps: real read_fasta vs `determloop` on the observed set enumerations
# ----------------------------------------------------------------------------------------------------------------
def gen_fasta_case(rng):
    n_pep = rng.randrange(5, 13)
    n_prot = rng.randrange(2, 7)
    prots = []
    for j in range(n_prot):
        k = rng.randrange(1, min(5, n_pep) + 1)
        prots.append(sorted(rng.sample(range(n_pep), k)))
    if n_prot > 2 and rng.random() < 0.6:        # a protein whose peptides are a subset of another's
        prots[-1] = prots[0][: max(1, len(prots[0]) - 1)]
    return dict(kind="fasta", prots=prots, decoys=rng.random() < 0.4, missed=rng.choice([0, 0, 1]))


def run_fasta_case(chk, case):
    import mokapot

    chk.count("fasta: decoys", case["decoys"])
    chk.count("fasta: missed cleavages", case["missed"])
    entries = [(f"sp|P{j}|x", "".join(mkdata.pep_letters(p) + "K" for p in peps)) for j, peps in enumerate(case["prots"])]
    if case["decoys"]:
        entries += [(f"decoy_sp|P{j}|x", "".join(mkdata.pep_letters(p)[::-1] + "K" for p in peps))
                    for j, peps in enumerate(case["prots"])]
    with P.workdir() as wd:
        path = wd / "k.fasta"
        path.write_text("".join(f">{n} test\n{s}\n" for n, s in entries))
        loops = []
        for n, s in entries:
            enum = list(mokapot.digest(s, enzyme_regex=re.compile("[KR]"), missed_cleavages=case["missed"], min_length=4))
            if enum:
                loops.append([enum, n])
        try:
            prot = mokapot.read_fasta(path, missed_cleavages=case["missed"], min_length=4)
        except Exception as e:
            chk.reject("read_fasta:" + type(e).__name__)
            return
    model = common.dec(common.driver_batch([common.req("determloop", [], loops)])[0])
    keys = [common.a_str(e[0]) for e in model]
    chk.case(None, ("fasta", json.dumps(case, sort_keys=True)), sample=dict(case=case, key_order=keys[:6]))
    chk.count("fasta: unique / shared keys", f"{len(prot.peptide_map)}/{len(prot.shared_peptides)}")
    uniq, shared = list(prot.peptide_map), list(prot.shared_peptides)
    if set(uniq) | set(shared) != set(keys) or set(uniq) & set(shared):
        chk.corr_break("determloop", dict(case=case, impl=dict(unique=uniq, shared=shared), model=keys,
                                          clause="key SETS differ"))
    elif uniq != [k for k in keys if k in prot.peptide_map] or shared != [k for k in keys if k in prot.shared_peptides]:
        chk.corr_break("determloop", dict(case=case, impl=dict(unique=uniq, shared=shared), model=keys,
                                          clause="key ORDER is not the enumeration order of the peptide sets"))


def search(chk):
    for _ in range(3 * chk.budget_mult):
        run_case(chk, gen_case(chk.rng), "thorough")
        if chk.spec_violations:
            return
    for _ in range(6 * chk.budget_mult):
        run_rng_case(chk, gen_rng_case(chk.rng))
        if chk.spec_violations:
            return


def main(chk, args):
    build = common.build_and_audit("C08")
    if not build.driver_ok:
        chk.finish(build, RULE)
    n = 2 if chk.tier == "quick" else 12
    # every optional dimension is switched on in at least one case of a run (a random split in the quick tier)
    dims = list(DIMS)
    chk.rng.shuffle(dims)
    forced = [dims[:3], dims[3:]] if chk.tier == "quick" else [None] * n
    forced += [None] * (n - len(forced))
    t0 = time.time()
    for i in range(n):
        run_case(chk, gen_case(chk.rng, forced[i]), chk.tier)
    t1 = time.time()
    for _ in range(8 if chk.tier == "quick" else 60):
        run_rng_case(chk, gen_rng_case(chk.rng))
    t2 = time.time()
    for _ in range(40 if chk.tier == "quick" else 400):
        run_fasta_case(chk, gen_fasta_case(chk.rng))
    chk.extra["phase_wall_s"] = dict(pipeline=round(t1 - t0, 1), rng=round(t2 - t1, 1), fasta=round(time.time() - t2, 1))
    lc = common.leanchecker("C08") if chk.tier == "thorough" else None
    chk.assumptions += [
        "PARTIAL: the theorems carry (i) the inventory obligation: every source of nondeterminism found by the AST "
        "walk of /repo/mokapot (global numpy RNG, stdlib random, unseeded DataFrame.sample, hash/id/time/uuid/getpid, "
        "iteration over sets - also sets passed to or returned by functions of the package -, containers whose order "
        "was fixed by such an iteration, directory listings, lists appended to by joblib workers) is accounted for by "
        "an explicit seeding or by a proved order-invariance, (ii) the order-invariance results, (iii) the threading of "
        "the seeded generator through brew (private copy per fold: no worker schedule reaches a draw); bit-identity "
        "itself (numpy/sklearn/BLAS/pandas internals) is established by differential execution only",
        "rng cases: the amount of generator state consumed by shuffle/choice/permutation depends only on the sizes "
        "(numpy), so the plan can be replayed on arrays of the same length",
    ]
    chk.finish(build, RULE, search=search, lc=lc,
               trusted_extra=["tools/gen_repo.py (AST walk -> Generated/Effects.lean)", "sklearn LinearSVC/GridSearchCV, BLAS"])


def replay(chk, path):
    info = json.loads(open(path).read())
    case = info.get("case")
    if not isinstance(case, dict) or "data_seed" not in case and case.get("kind") != "fasta":
        print(json.dumps(info, indent=1)[:3000])
        return 0
    common.build_and_audit("C08")
    kind = case.get("kind", "pipeline")
    if kind == "rng":
        run_rng_case(chk, case)
    elif kind == "fasta":
        run_fasta_case(chk, case)
    else:
        run_case(chk, case, "thorough")
    for sig, i in chk.spec_violations:
        print("REPRODUCED", sig, i.get("clause"))
    for op, i in chk.corr_breaks:
        print("REPRODUCED correspondence break", op, i.get("impl"))
    return 1 if chk.spec_violations or chk.corr_breaks else 0
