"""C08 — fixed seed gives bit-identical results across runs and interpreter sessions."""
from __future__ import annotations

import itertools
import json
import os
import subprocess
import sys
from concurrent.futures import ThreadPoolExecutor
from pathlib import Path

import numpy as np

import common
import pipeline as P
import c08_child

RULE = (
    "case = (table seed, analysis seed, folds, worker count, format); the complete analysis (read_pin, _split, brew "
    "with the default Percolator model, read_fasta, assign_confidence with protein level on a target-only FASTA) "
    "is run twice in-process with different global numpy RNG states and in fresh interpreters under several "
    "PYTHONHASHSEED values and worker counts, and SHA-256 digests of fold assignments, coefficients, scores and "
    "every result file are compared; the returned models are fed back in every permutation (folds <= 3) or sampled "
    "permutations; distinct = distinct (case, comparison kind); non-trivial = every case"
)
HERE = Path(__file__).resolve().parent


def child(params, hashseed):
    env = dict(os.environ, PYTHONHASHSEED=str(hashseed))
    r = subprocess.run([sys.executable, "-W", "ignore", str(HERE / "c08_child.py"), json.dumps(params)],
                       capture_output=True, text=True, env=env, timeout=900)
    for line in r.stdout.splitlines():
        if line.startswith("DIGEST "):
            return json.loads(line[7:])
    raise RuntimeError(f"child failed rc={r.returncode}: {r.stderr[-800:]}")


def diff(a, b):
    return sorted(k for k in set(a) | set(b) if a.get(k) != b.get(k))


def gen_case(rng):
    return dict(data_seed=rng.randrange(1 << 30), seed=rng.randrange(10000), n_spectra=rng.choice([150, 250]),
                n_pep=rng.choice([24, 40]), folds=rng.choice([2, 3, 3, 4]), workers=1,
                fmt=rng.choice(["pin", "parquet"]), peps=rng.choice(["qvality", "qvality", "kde_nnls"]))


def run_case(chk, case, tier):
    def report(kind, what, d):
        chk.spec_violation("nondeterminism:" + kind + ":" + (d[0].split(":")[0] if d else ""),
                           dict(case=case, clause=f"{what}: artefacts differ: {d}"))

    with P.workdir() as wd:
        # (a) twice in the same process, with different global numpy RNG state
        try:
            keep = {}
            d1, models = c08_child.analysis(dict(case, global_noise=1), wd / "a", keep=keep)
            # second run in the same process, re-using the Proteins object of the first
            d2, _ = c08_child.analysis(dict(case, global_noise=2), wd / "b", proteins_in=keep.get("proteins"))
        except Exception as e:
            chk.reject("analysis-failed:" + type(e).__name__ + ":" + str(e)[:60])
            return
        chk.case(None, (case["data_seed"], "same-process"), sample=dict(case=case, digest=d1))
        chk.count("kind", "same-process")
        dd = diff(d1, d2)
        if dd:
            report("same-process", "two runs in one process (global numpy state differs)", dd)
            return
        # (b) feeding the models back in any order (only meaningful when every fold model was trained: brew
        # refuses untrained models with an explicit error, and then falls back to the best feature anyway)
        perms = list(itertools.permutations(range(case["folds"])))
        if not all(m.is_trained for m in models):
            chk.reject("returned-models-untrained-feedback-skipped")
            perms = []
        if len(perms) > 6:
            perms = [perms[0]] + chk.rng.sample(perms[1:], 3 if tier == "quick" else 8)
        for k, perm in enumerate(perms if tier != "quick" else perms[:4]):
            try:
                d3, _ = c08_child.analysis(dict(case, global_noise=3), wd / f"p{k}", models_in=list(models),
                                           model_order=list(perm))
            except Exception as e:
                chk.spec_violation("model-feedback-failed", dict(case=case, perm=list(perm),
                                                                 clause=f"{type(e).__name__}: {e}"[:300]))
                return
            chk.case(None, (case["data_seed"], "perm", perm))
            chk.count("kind", "model-permutation")
            keys = [k_ for k_ in d1 if k_.startswith("file:") or k_ in ("scores", "descs", "folds")]
            bad = [k_ for k_ in keys if d1[k_] != d3.get(k_)]
            if bad:
                report("model-order", f"models fed back in order {perm}", bad)
                return
        # (c) fresh interpreters: hash seeds x worker counts
        combos = [(0, 1), (2, 4), (3, 2)] if tier == "quick" else [(0, 1), (1, 4), (2, 16), (3, 2), (12345, 8), (7, 1)]
        with ThreadPoolExecutor(max_workers=len(combos)) as ex:
            futs = [ex.submit(child, dict(case, workers=w, global_noise=h), h) for h, w in combos]
            res = []
            for f in futs:
                try:
                    res.append(f.result())
                except Exception as e:
                    chk.reject("child-failed:" + str(e)[:80])
                    return
        for (h, w), dg in zip(combos, res):
            chk.case(None, (case["data_seed"], "fresh", h, w))
            chk.count("kind", f"fresh-interpreter hashseed={h} workers={w}")
            dd = diff(d1, dg)
            if dd:
                report("fresh-interpreter", f"fresh interpreter PYTHONHASHSEED={h} workers={w}", dd)
                return


def search(chk):
    for _ in range(3 * chk.budget_mult):
        run_case(chk, gen_case(chk.rng), "thorough")
        if chk.spec_violations:
            return


def main(chk, args):
    build = common.build_and_audit("C08")
    if not build.driver_ok:
        chk.finish(build, RULE)
    n = 2 if chk.tier == "quick" else 12
    for _ in range(n):
        run_case(chk, gen_case(chk.rng), chk.tier)
    lc = common.leanchecker("C08") if chk.tier == "thorough" else None
    chk.assumptions += [
        "PARTIAL: the theorems carry (i) the inventory obligation: every source of nondeterminism found by the AST "
        "walk of /repo/mokapot (global numpy RNG, stdlib random, unseeded DataFrame.sample, hash/id/time/uuid/getpid, "
        "iteration over sets, unsorted glob) is accounted for by an explicit seeding or by a proved order-invariance, "
        "and (ii) the order-invariance results; bit-identity itself (numpy/sklearn/BLAS/pandas internals) is "
        "established by differential execution only",
    ]
    chk.finish(build, RULE, search=search, lc=lc,
               trusted_extra=["tools/gen_repo.py (AST walk -> Generated/Effects.lean)", "sklearn LinearSVC/GridSearchCV, BLAS"])


def replay(chk, path):
    info = json.loads(open(path).read())
    case = info.get("case")
    if not isinstance(case, dict) or "data_seed" not in case:
        print(json.dumps(info, indent=1)[:3000])
        return 0
    common.build_and_audit("C08")
    run_case(chk, case, "thorough")
    for sig, i in chk.spec_violations:
        print("REPRODUCED", sig, i.get("clause"))
    return 1 if chk.spec_violations else 0
