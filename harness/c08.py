"""C08 — fixed seed gives bit-identical results across runs and interpreter sessions."""
from __future__ import annotations

import copy
import itertools
import json
import os
import re
import subprocess
import sys
import threading
import time
from concurrent.futures import ThreadPoolExecutor
from pathlib import Path

import numpy as np

import common
import mkdata
import pipeline as P
import c08_child

RULE = (
    "pipeline case = (table seed, analysis seed, folds, worker count, format, roll-up level columns, 1-2 collections, "
    "protein level with a target-only FASTA and - in sampled cases - with a FASTA that holds decoys, with coarsely "
    "rounded (tied) scores, the fed-back models as an ensemble, the command line entry point); the complete analysis "
    "(read_pin, _split, brew with the default Percolator model, read_fasta, assign_confidence) "
    "is run twice in-process with different global numpy RNG states and in fresh interpreters under several "
    "PYTHONHASHSEED values and worker counts, and SHA-256 digests of fold assignments, coefficients, scores, generator "
    "states of the returned models and every result file are compared; the returned models are fed back in every "
    "permutation (folds <= 3) or sampled permutations. "
    "rng case = (1-2 small tables, folds, subset_max_train, int seed or Generator, worker count, per-fold delays): real "
    "brew() with a Model subclass that records the state of its generator around fit; compared (a) with a second run "
    "under another worker count / arrival order (spec: same seed, same draws) and (b) with the draw plan of the Lean "
    "model (`determplan`) replayed on an independent numpy Generator (fold sizes read from a separate _split call). "
    "fasta case = small FASTA (shared / nested / decoy proteins): key order of the real Proteins maps vs the Lean "
    "`determloop` applied to the enumerations of the digested peptide sets observed in this interpreter. "
    "SECOND PASS: pipeline cases also with subset_max_train and with the six streaming constants set to small primes "
    "(several chunks everywhere); the returned models fed back - scores only - in EVERY permutation for folds <= 4 "
    "(sampled in the quick tier for 4 folds) and once more after a save / load_model round trip; rng cases feed the "
    "models back with a Generator and compare the caller's generator with the pretrained draw plan; "
    "model-form case = (table, seed, folds, how brew gets its model: model=None | ONE PercolatorModel(rng=other seed) "
    "object for all runs | one Generator for model and brew | PercolatorModel() without rng [thorough tier, outside the "
    "quantifier: tallied as rejected]): brew three times in-process under "
    "different global numpy states and worker counts - cross-validation seed of every fold model (recorded by wrapping "
    "brew._fit_model), chosen hyper-parameters, coefficients and scores must agree, and the cross-validation seed is "
    "compared with the generator `determcv` names, the caller's generator with the draw sequence `mainDrawsOf`; "
    "confidence-seed case = (1-2 small collections, FASTA with / without decoys, tied or continuous scores, rng as int "
    "or Generator): real assign_confidence twice, every DataFrame/Series.sample call recorded (size, random_state, "
    "generator state before / after) and compared with `determconf` (which generator, after which earlier shuffles) "
    "replayed on an independent numpy Generator; result files of the two runs must agree. "
    "THIRD PASS: pipeline cases also with the optional `filename` column (a str as the FIRST spectrum-key column: the "
    "fold key of _split then holds a text); split-key case = (small table; optional spectrum columns filename / "
    "ExpMass / ret_time present or not; run names plain or with quotes, blanks, backslashes, non-ASCII letters; the "
    "same scan numbers in every run or not; whole or fractional masses; text or Parquet; 2-5 folds): real "
    "read_pin + OnDiskPsmDataset._split; fold membership compared with `determsplit` (Lean: crc32 of the UTF-8 text "
    "of the tuple of the first two key cells, argsort, cuts at group starts) fed with the repr texts of the key "
    "cells, the IndexError of _split with `reject-index`, the Lean crc32 with zlib's on the key texts; in sampled "
    "cases (every case with a text key in the thorough tier) the same table is split in two fresh interpreters "
    "under other PYTHONHASHSEED values and the returned index arrays must be identical, element by element; "
    "model form `unseeded_copy` = ONE PercolatorModel() built without a seed, a deep copy of it handed to each of "
    "the three runs: brew must be a function of the model object it is given (runs must agree). "
    "distinct = distinct (case, comparison kind); non-trivial = every case"
)
HERE = Path(__file__).resolve().parent
DIMS = ("level_cols", "ncoll", "fasta_decoys", "ties", "ensemble", "cli", "subset", "small_chunks", "text_key")


def child(params, hashseed):
    env = dict(os.environ, PYTHONHASHSEED=str(hashseed))
    r = subprocess.run([sys.executable, "-W", "ignore", str(HERE / "c08_child.py"), json.dumps(params)],
                       capture_output=True, text=True, env=env, timeout=900, cwd=str(HERE))
    for line in r.stdout.splitlines():
        if line.startswith("DIGEST "):
            return json.loads(line[7:])
    last = (r.stderr.strip().splitlines() or ["?"])[-1]
    raise RuntimeError(f"child failed rc={r.returncode}: {last[:200]} || params={json.dumps(params)} hashseed={hashseed} "
                       f"|| {r.stderr[-1500:]}")


def diff(a, b):
    return sorted(k for k in set(a) | set(b) if a.get(k) != b.get(k))


def gen_case(rng, dims=None):
    """`dims`: which of the optional dimensions this case switches on (None: sampled)"""
    if dims is None:
        dims = [d for d in DIMS if rng.random() < 0.5]
    levels = [c for c in ("ModifiedPeptide", "Precursor", "PeptideGroup") if rng.random() < 0.6] or ["Precursor"]
    folds = rng.choice([2, 3, 3, 4])
    if "ensemble" in dims and folds < 3:
        folds = 3       # (the mean over two models does not depend on their order: a + b = b + a)
    return dict(kind="pipeline", data_seed=rng.randrange(1 << 30), seed=rng.randrange(10000),
                n_spectra=rng.choice([150, 250]),
                n_pep=rng.choice([24, 40]), folds=folds, workers=1,
                fmt=rng.choice(["pin", "parquet"]), peps=rng.choice(["qvality", "qvality", "kde_nnls"]),
                level_cols=levels if "level_cols" in dims else [], ncoll=2 if "ncoll" in dims else 1,
                fasta_decoys="fasta_decoys" in dims, ties="ties" in dims, ensemble="ensemble" in dims,
                cli="cli" in dims, subset="subset" in dims, small_chunks="small_chunks" in dims,
                text_key="text_key" in dims)


def run_case(chk, case, tier):
    def report(kind, what, d):
        chk.spec_violation("nondeterminism:" + kind + ":" + (d[0].split(":")[0] if d else ""),
                           dict(case=case, clause=f"{what}: artefacts differ: {d}"))

    for d in DIMS:
        chk.count("dim:" + d, bool(case.get(d)) if d != "ncoll" else case.get("ncoll", 1))
    # (c) fresh interpreters: hash seeds x worker counts — started first (they need nothing but the case), so that
    # their start-up time overlaps with the in-process runs; their digests are compared last, as before
    combos = [(0, 1), (2, 4), (3, 2)] if tier == "quick" else [(0, 1), (1, 4), (2, 16), (3, 2), (12345, 8), (7, 1)]
    ex = ThreadPoolExecutor(max_workers=len(combos))
    futs = [ex.submit(child, dict(case, workers=w, global_noise=h), h) for h, w in combos]
    try:
        _run_case_body(chk, case, tier, report, combos, futs)
    finally:
        ex.shutdown(wait=True)


def feedback_scores(case, paths, given, ensemble=False):
    """brew with a list of trained models and the case's seed: (digest of the scores, fold tags of the returned models)"""
    import mokapot

    dsets = [mkdata.read_dataset(p) for p in paths]
    _, ms, sc, _ = mokapot.brew(dsets if len(paths) > 1 else dsets[0], list(given), test_fdr=0.25, folds=case["folds"],
                                max_workers=case["workers"], rng=case["seed"], ensemble=ensemble)
    return (c08_child.sha(b"".join(np.ascontiguousarray(np.asarray(x, dtype=float)).tobytes() for x in sc)),
            [int(m.fold) for m in ms])


def _run_case_body(chk, case, tier, report, combos, futs):
    import mokapot

    sec = chk.extra.setdefault("pipeline_sections_s", {})
    last = [time.time()]

    def lap(name):
        now = time.time()
        sec[name] = round(sec.get(name, 0.0) + now - last[0], 2)
        last[0] = now

    with P.workdir() as wd:
        # (a) twice in the same process, with different global numpy RNG state
        try:
            keep = {}
            d1, models = c08_child.analysis(dict(case, global_noise=1), wd / "a", keep=keep)
            # second run in the same process, re-using the Proteins object of the first
            d2, _ = c08_child.analysis(dict(case, global_noise=2), wd / "b", proteins_in=keep.get("proteins"))
        except Exception as e:
            chk.reject("analysis-failed:" + type(e).__name__ + ":" + str(e)[:60])
            return
        lap("two runs in-process")
        chk.case(None, (case["data_seed"], "same-process"), sample=dict(case=case, digest=d1))
        chk.count("kind", "same-process")
        chk.count("result files per run", len([k for k in d1 if k.startswith(("file", "cli:"))]))
        for k_, v_ in d1.items():
            if k_.startswith("n_decoy_proteins:"):
                chk.count("protein pairs won by the decoy (per proteins file)", "0" if v_ == 0 else "1-2" if v_ < 3 else "3+")
        dd = diff(d1, d2)
        if dd:
            report("same-process", "two runs in one process (global numpy state differs)", dd)
            return
        if case.get("ties"):
            # is the tie-breaking path live?  the same tied scores under another seed (tallied, not required:
            # whether the shuffle can change a protein's best peptide depends on the table)
            other = {}
            c08_child.extra_run(other, "file_ties", dict(case, seed=case["seed"] + 1), keep["paths"],
                                c08_child.tied_scores(keep["scores"]), keep["descs"], wd / "ties_other_seed",
                                keep["proteins"])
            chk.count("tied scores: another seed changes a result file",
                      "refused" if "file_ties:raised" in other else any(other[k] != d1.get(k) for k in other))
        # (b) feeding the models back in any order (only meaningful when every fold model was trained: brew
        # refuses untrained models with an explicit error, and then falls back to the best feature anyway)
        perms = list(itertools.permutations(range(case["folds"])))
        if not all(m.is_trained for m in models):
            chk.reject("returned-models-untrained-feedback-skipped")
            perms = []
        if len(perms) > 6:
            perms = [perms[0]] + chk.rng.sample(perms[1:], 3 if tier == "quick" else 8)
        ens_ref = None
        for k, perm in enumerate(perms if tier != "quick" else perms[:4]):
            try:
                # the extra protein-level runs do not depend on the model order beyond `scores`, which is compared
                d3, _ = c08_child.analysis(dict(case, global_noise=3, fasta_decoys=False, ties=False), wd / f"p{k}",
                                           models_in=list(models), model_order=list(perm))
            except Exception as e:
                chk.spec_violation("model-feedback-failed", dict(case=case, perm=list(perm),
                                                                 clause=f"{type(e).__name__}: {e}"[:300]))
                return
            chk.case(None, (case["data_seed"], "perm", perm))
            chk.count("kind", "model-permutation")
            keys = [k_ for k_ in d1 if k_.startswith("file:") or k_ in ("scores", "descs", "folds")]
            bad = [k_ for k_ in keys if d1[k_] != d3.get(k_)]
            if bad:
                report("model-order", f"models fed back in order {perm}", bad)
                return
            if case.get("ensemble"):
                chk.count("kind", "model-permutation-ensemble")
                if ens_ref is None:
                    ens_ref = d3.get("scores_ensemble")
                elif d3.get("scores_ensemble") != ens_ref:
                    report("model-order", f"ensemble of the models fed back in order {perm} vs order {perms[0]}",
                           ["scores_ensemble"])
                    return
        lap("models fed back, full analysis")
        # (b2) second pass: "in any order" in full — scores only (brew with the given models, nothing else), every
        # permutation for folds <= 4 (quick tier: 8 of the 24 orders of 4 folds), then once more with the models
        # saved and loaded again (what `--load_models` does)
        if perms:
            allp = list(itertools.permutations(range(case["folds"])))
            if tier == "quick" and len(allp) > 6:
                allp = [allp[0]] + chk.rng.sample(allp[1:], 7)
            ref_ens = None
            with P.chunk_sizes(**(c08_child.SMALL_CHUNKS if case.get("small_chunks") else {})):
                for perm in allp:
                    try:
                        dg, tags = feedback_scores(case, keep["paths"], [models[i] for i in perm])
                        ens = feedback_scores(case, keep["paths"], [models[i] for i in perm], True)[0] \
                            if case.get("ensemble") else None
                    except Exception as e:
                        chk.spec_violation("model-feedback-failed", dict(case=case, perm=list(perm),
                                                                         clause=f"{type(e).__name__}: {e}"[:300]))
                        return
                    chk.case(None, (case["data_seed"], "perm-scores", perm))
                    chk.count("kind", "model-permutation-scores-only")
                    chk.count("feedback: folds", case["folds"])
                    if dg != d1["scores"] or tags != list(range(1, case["folds"] + 1)):
                        report("model-order", f"scores of the models fed back in order {perm} (scores only)",
                               ["scores" if dg != d1["scores"] else "model_folds"])
                        return
                    ref_ens = ens if ref_ens is None else ref_ens
                    if ens != ref_ens:
                        report("model-order", f"ensemble of the models fed back in order {perm} vs {allp[0]}",
                               ["scores_ensemble"])
                        return
                loaded = []
                try:
                    for i, m in enumerate(models):
                        m.save(wd / f"model{i}.pkl")
                        loaded.append(mokapot.load_model(wd / f"model{i}.pkl"))
                    chk.rng.shuffle(loaded)
                    dg, tags = feedback_scores(case, keep["paths"], loaded)
                except Exception as e:
                    chk.spec_violation("model-feedback-failed", dict(case=case, clause="models saved, loaded and fed "
                                                                     f"back: {type(e).__name__}: {e}"[:300]))
                    return
                chk.case(None, (case["data_seed"], "perm-pickled"))
                chk.count("kind", "model-feedback-after-save/load")
                if dg != d1["scores"] or tags != list(range(1, case["folds"] + 1)):
                    report("model-order", "models saved, loaded and fed back in order "
                           f"{[int(m.fold) for m in loaded]}", ["scores" if dg != d1["scores"] else "model_folds"])
                    return
        lap("models fed back, scores only")
        # (c) fresh interpreters (started above)
        res = []
        for f in futs:
            try:
                res.append(f.result())
            except Exception as e:
                chk.reject("child-failed:" + str(e)[:160])
                chk.extra.setdefault("child_failures", []).append(str(e)[:4000])
                return
        lap("waiting for the fresh interpreters")
        for (h, w), dg in zip(combos, res):
            chk.case(None, (case["data_seed"], "fresh", h, w))
            chk.count("kind", f"fresh-interpreter hashseed={h} workers={w}")
            dd = diff(d1, dg)
            if dd:
                report("fresh-interpreter", f"fresh interpreter PYTHONHASHSEED={h} workers={w}", dd)
                return


# ----------------------------------------------------------------------------------------------------------------
# generator threading: real brew() with a state-recording Model vs the Lean draw plan replayed on numpy
# ----------------------------------------------------------------------------------------------------------------
SPY = {"log": [], "delay": {}, "lock": threading.Lock()}


def gen_state(g):
    return json.dumps(g.bit_generator.state, sort_keys=True, default=str)


def spy_model(seed):
    import mokapot
    from sklearn.base import BaseEstimator

    class FirstFeature(BaseEstimator):
        """learns nothing: the score is the first (informative) feature"""

        def fit(self, X, y):
            self.fitted_ = True
            return self

        def decision_function(self, X):
            return np.asarray(X)[:, 0]

    class SpyModel(mokapot.model.Model):
        def fit(self, psms):
            rec = dict(fold=self.fold, rows=len(psms.data), gen=id(self.rng), before=gen_state(self.rng))
            time.sleep(SPY["delay"].get(self.fold, 0.0))      # decides which worker reaches its draw first
            try:
                return super().fit(psms)
            finally:
                rec["after"] = gen_state(self.rng)
                with SPY["lock"]:
                    SPY["log"].append(rec)

    return SpyModel(FirstFeature(), train_fdr=0.5, max_iter=1, override=True, rng=seed + 12345)


def gen_rng_case(rng):
    ncoll = rng.choice([1, 1, 2])
    folds = rng.choice([2, 3, 3, 4])
    sizes = [rng.randrange(50, 110) for _ in range(ncoll)]
    order = list(range(1, folds + 1))
    rng.shuffle(order)
    return dict(kind="rng", data_seed=rng.randrange(1 << 30), seed=rng.randrange(1 << 31), ncoll=ncoll, folds=folds,
                n_spectra=sizes, subset=rng.choice([None, None, "small", "mid", "large"]),
                form=rng.choice(["int", "generator"]), workers=rng.choice([2, 3, 4, 8]),
                arrival=order)


def apply_draw(g, d):
    if d[0] == "sh":
        g.shuffle(np.arange(int(d[1])))
    elif d[0] == "ch":
        g.choice(list(range(int(d[1]))), int(d[2]), replace=False)
    elif d[0] == "pm":
        g.permutation(np.arange(int(d[1])))
    elif d[0] == "in":
        return g.integers(int(d[1]), float(d[2]))       # as model.py:436 calls it (`rng.integers(1, 1e6)`)
    else:
        raise ValueError(d)


def run_rng_case(chk, case):
    import mokapot
    import random as pyrandom

    r = pyrandom.Random(case["data_seed"])
    chk.count("rng: collections", case["ncoll"])
    chk.count("rng: folds", case["folds"])
    chk.count("rng: subset_max_train", case["subset"] or "none")
    chk.count("rng: form", case["form"])
    chk.count("rng: workers", case["workers"])
    with P.workdir() as wd:
        paths = []
        for c in range(case["ncoll"]):
            df = mkdata.make_psm_table(r, n_spectra=case["n_spectra"][c], max_per_spectrum=2, n_feat=2, label_enc="pm1",
                                       optional=("ExpMass",), signal=5.0, rowid=False)
            paths.append(mkdata.write_table(df, wd / f"r{c}.pin"))
        # fold sizes: they do not depend on the generator (C02 checks the split itself)
        fold_sizes = [[len(x) for x in mkdata.read_dataset(p)._split(case["folds"], np.random.default_rng(0))]
                      for p in paths]
        total_train = min(sum(sum(fs) - fs[j] for fs in fold_sizes) for j in range(case["folds"]))
        subset = {None: None, "small": max(2, total_train // 4), "mid": max(2, total_train // 2),
                  "large": total_train + 5}[case["subset"]]

        def run(workers, delays):
            SPY["log"] = []
            SPY["delay"] = delays
            g = np.random.default_rng(case["seed"]) if case["form"] == "generator" else case["seed"]
            dsets = [mkdata.read_dataset(p) for p in paths]
            _, models, scores, _ = mokapot.brew(dsets if case["ncoll"] > 1 else dsets[0], spy_model(case["seed"]),
                                                test_fdr=0.5, folds=case["folds"], max_workers=workers, rng=g,
                                                subset_max_train=subset)
            log = sorted(SPY["log"], key=lambda x: x["fold"])
            return dict(log=log, caller=gen_state(g) if case["form"] == "generator" else None, caller_id=id(g),
                        objs=list(models),
                        models=[gen_state(m.rng) for m in models], model_ids=[id(m.rng) for m in models],
                        scores=[np.asarray(s, dtype=float).tobytes() for s in scores])

        plan = common.dec(common.driver_batch([common.req("determplan", False, subset, fold_sizes)])[0])
        real_err = None
        try:
            base = run(1, {})
            delays = {f: 0.015 * k for k, f in enumerate(case["arrival"])}
            var = run(case["workers"], delays)
        except Exception as e:
            real_err = e
        chk.case(None, ("rng", case["data_seed"], case["seed"]), sample=dict(case=case, plan=plan))
        if plan == "reject-choice" or real_err is not None:
            if plan == "reject-choice" and isinstance(real_err, ValueError):
                chk.reject("subset_max_train-larger-than-a-file:ValueError")     # numpy refuses the sample
            elif plan == "reject-choice":
                chk.corr_break("determplan", dict(case=case, impl=repr(real_err), model=plan))
            else:
                chk.reject("rng-case-failed:" + type(real_err).__name__ + ":" + str(real_err)[:60])
            return
        # (a) spec, stated directly: same seed => same draws, whatever the worker count and arrival order
        view = lambda o: ([(x["fold"], x["rows"], x["before"], x["after"]) for x in o["log"]], o["caller"],  # noqa: E731
                          o["models"], o["scores"])
        if view(base) != view(var):
            what = [n for n, a, b in zip(("per-fold generator states", "caller's generator", "returned models' generators",
                                          "scores"), view(base), view(var)) if a != b]
            chk.spec_violation("nondeterminism:rng-threading",
                               dict(case=case, clause=f"workers=1 vs workers={case['workers']} with arrival order "
                                    f"{case['arrival']}: {what} differ"))
            return
        # (b) the model's draw plan, replayed on an independent generator
        main, fits = plan
        o = np.random.default_rng(case["seed"])
        for d in main:
            apply_draw(o, d)
        s1 = gen_state(o)
        exp = []
        for reqs in fits:
            oj = copy.deepcopy(o)
            for d in reqs:
                apply_draw(oj, d)
            exp.append((int(reqs[0][1]), s1, gen_state(oj)))
        for obs in (base, var):
            got = [(x["rows"], x["before"], x["after"]) for x in obs["log"]]
            ids = [x["gen"] for x in obs["log"]]
            problems = []
            if got != exp:
                problems.append("per-fold (rows, state before fit, state after fit)")
            if obs["caller"] is not None and obs["caller"] != s1:
                problems.append("caller's generator after brew")
            if obs["models"] != [e[2] for e in exp]:
                problems.append("generators of the returned models")
            if len(set(ids)) != len(ids) or (obs["caller"] is not None and obs["caller_id"] in ids):
                problems.append("fold models share a generator object")
            if problems:
                chk.corr_break("determplan", dict(case=case, impl=dict(rows=[g[0] for g in got], problems=problems),
                                                  model=plan))
                return
        # (c) second pass: the trained models fed back, in the arrival order, with a Generator — the model says that
        # brew then draws the fold shuffles and nothing else (`mainDraws true`), fits nothing, and returns the given
        # models in fold order; the scores are those of the run that trained them
        if not all(m.is_trained for m in base["objs"]):
            chk.reject("rng-case-models-untrained-feedback-skipped")
            return
        plan_p = common.dec(common.driver_batch([common.req("determplan", True, subset, fold_sizes)])[0])
        given = [base["objs"][f - 1] for f in case["arrival"]]
        before = [gen_state(m.rng) for m in given]
        g = np.random.default_rng(case["seed"])
        SPY["log"], SPY["delay"] = [], {}
        dsets = [mkdata.read_dataset(p) for p in paths]
        try:
            _, ms2, sc2, _ = mokapot.brew(dsets if case["ncoll"] > 1 else dsets[0], given, test_fdr=0.5,
                                          folds=case["folds"], max_workers=case["workers"], rng=g,
                                          subset_max_train=subset)
        except Exception as e:
            chk.spec_violation("model-feedback-failed", dict(case=case, clause=f"{type(e).__name__}: {e}"[:300]))
            return
        chk.count("rng: fed back with a Generator", True)
        if [np.asarray(x, dtype=float).tobytes() for x in sc2] != base["scores"]:
            chk.spec_violation("nondeterminism:model-order:scores",
                               dict(case=case, clause=f"models fed back in fold order {case['arrival']} with the same "
                                    "seed: scores differ from the run that trained them"))
            return
        o = np.random.default_rng(case["seed"])
        for d in plan_p[0]:
            apply_draw(o, d)
        problems = []
        if plan_p[1] != []:
            problems.append("the model plans fits for a feed-back run")
        if gen_state(g) != gen_state(o):
            problems.append("caller's generator after a feed-back run is not the state after the fold shuffles")
        if SPY["log"]:
            problems.append("a fit ran although trained models were given")
        if [gen_state(m.rng) for m in given] != before:
            problems.append("the generator of a fed-back model was advanced")
        if [id(m) for m in ms2] != [id(m) for m in base["objs"]]:
            problems.append("the returned models are not the given objects in fold order")
        if problems:
            chk.corr_break("determplan", dict(case=case, impl=dict(problems=problems), model=plan_p))


# ----------------------------------------------------------------------------------------------------------------
# key order of the Proteins maps: real read_fasta vs `determloop` on the observed set enumerations
# ----------------------------------------------------------------------------------------------------------------
def gen_fasta_case(rng):
    n_pep = rng.randrange(5, 13)
    n_prot = rng.randrange(2, 7)
    prots = []
    for j in range(n_prot):
        k = rng.randrange(1, min(5, n_pep) + 1)
        prots.append(sorted(rng.sample(range(n_pep), k)))
    if n_prot > 2 and rng.random() < 0.6:        # a protein whose peptides are a subset of another's
        prots[-1] = prots[0][: max(1, len(prots[0]) - 1)]
    return dict(kind="fasta", prots=prots, decoys=rng.random() < 0.4, missed=rng.choice([0, 0, 1]))


def run_fasta_case(chk, case):
    import mokapot

    chk.count("fasta: decoys", case["decoys"])
    chk.count("fasta: missed cleavages", case["missed"])
    entries = [(f"sp|P{j}|x", "".join(mkdata.pep_letters(p) + "K" for p in peps)) for j, peps in enumerate(case["prots"])]
    if case["decoys"]:
        entries += [(f"decoy_sp|P{j}|x", "".join(mkdata.pep_letters(p)[::-1] + "K" for p in peps))
                    for j, peps in enumerate(case["prots"])]
    with P.workdir() as wd:
        path = wd / "k.fasta"
        path.write_text("".join(f">{n} test\n{s}\n" for n, s in entries))
        loops = []
        for n, s in entries:
            enum = list(mokapot.digest(s, enzyme_regex=re.compile("[KR]"), missed_cleavages=case["missed"], min_length=4))
            if enum:
                loops.append([enum, n])
        try:
            prot = mokapot.read_fasta(path, missed_cleavages=case["missed"], min_length=4)
        except Exception as e:
            chk.reject("read_fasta:" + type(e).__name__)
            return
    model = common.dec(common.driver_batch([common.req("determloop", [], loops)])[0])
    keys = [common.a_str(e[0]) for e in model]
    chk.case(None, ("fasta", json.dumps(case, sort_keys=True)), sample=dict(case=case, key_order=keys[:6]))
    chk.count("fasta: unique / shared keys", f"{len(prot.peptide_map)}/{len(prot.shared_peptides)}")
    uniq, shared = list(prot.peptide_map), list(prot.shared_peptides)
    if set(uniq) | set(shared) != set(keys) or set(uniq) & set(shared):
        chk.corr_break("determloop", dict(case=case, impl=dict(unique=uniq, shared=shared), model=keys,
                                          clause="key SETS differ"))
    elif uniq != [k for k in keys if k in prot.peptide_map] or shared != [k for k in keys if k in prot.shared_peptides]:
        chk.corr_break("determloop", dict(case=case, impl=dict(unique=uniq, shared=shared), model=keys,
                                          clause="key ORDER is not the enumeration order of the peptide sets"))



# ----------------------------------------------------------------------------------------------------------------
# second pass: how brew gets its model (model=None / a model built on a seed / one Generator for both)
# ----------------------------------------------------------------------------------------------------------------
FITLOG = {"log": [], "lock": threading.Lock()}
MODEL_FORMS = ("none", "built", "shared", "unseeded", "unseeded_copy")


def gen_modelform_case(rng, form=None, quick=False):
    return dict(kind="modelform", data_seed=rng.randrange(1 << 30), seed=rng.randrange(1 << 31),
                folds=rng.choice([2, 3, 3]), form=form or rng.choice(MODEL_FORMS),
                n_spectra=600 if quick else rng.choice([600, 900]), workers=rng.choice([2, 3]))


def run_modelform_case(chk, case):
    """brew three times in one process with the same seed: the cross-validation seed that every fold model carries
    into its fit, the hyper-parameters chosen, the coefficients and the scores must agree"""
    import mokapot
    import random as pyrandom

    brew_mod = P.mod("mokapot.brew")       # the module (NOT `import mokapot.brew`, which is the function)

    r = pyrandom.Random(case["data_seed"])
    chk.count("model form", case["form"])
    chk.count("model form: folds", case["folds"])
    orig_fit = brew_mod._fit_model

    def recording_fit(train_set, psms, model, fold):
        rs = getattr(getattr(getattr(model, "estimator", None), "cv", None), "random_state", None)
        with FITLOG["lock"]:
            FITLOG["log"].append((fold, int(rs) if isinstance(rs, (int, np.integer)) else rs))
        return orig_fit(train_set, psms, model, fold)

    shared_model = {}

    def once(k, workers):
        FITLOG["log"] = []
        np.random.seed(1000 + k)                       # the global numpy state must not matter
        ds = mkdata.read_dataset(path)
        g = None
        if case["form"] == "none":
            g = np.random.default_rng(case["seed"])      # a Generator, so that its state after brew can be observed
            model, rng_arg = None, g
        elif case["form"] == "built":
            # ONE model object for the three runs (object re-use: brew must train copies and leave it as it was)
            if "built" not in shared_model:
                shared_model["built"] = mokapot.PercolatorModel(rng=case["seed"] + 7)
            model, rng_arg = shared_model["built"], case["seed"]
        elif case["form"] == "shared":
            g = np.random.default_rng(case["seed"])
            model, rng_arg = mokapot.PercolatorModel(rng=g), g
        elif case["form"] == "unseeded_copy":
            # third pass: ONE model built without a seed (its cross-validation seed comes from OS entropy and is part
            # of the OBJECT, `estimator.cv.random_state`); every run gets a deep copy of that object: same inputs
            if "unseeded" not in shared_model:
                shared_model["unseeded"] = mokapot.PercolatorModel()
            model, rng_arg = copy.deepcopy(shared_model["unseeded"]), case["seed"]
        else:
            model, rng_arg = mokapot.PercolatorModel(), case["seed"]
        _, models, scores, descs = mokapot.brew(ds, model, test_fdr=0.05, folds=case["folds"], max_workers=workers,
                                                rng=rng_arg)
        ests = [m.estimator for m in models]
        return dict(cv=[x[1] for x in sorted(FITLOG["log"])],
                    params=[json.dumps(e.get_params().get("class_weight"), sort_keys=True, default=str)
                            if hasattr(e, "get_params") else None for e in ests],
                    coefs=c08_child.sha(b"".join(np.asarray(getattr(e, "coef_", [0.0]), dtype=float).tobytes()
                                                 for e in ests)),
                    scores=c08_child.sha(b"".join(np.asarray(x, dtype=float).tobytes() for x in scores)),
                    descs=[bool(x) for x in descs], caller=gen_state(g) if g is not None else None)

    with P.workdir() as wd:
        df = mkdata.make_psm_table(r, n_spectra=case["n_spectra"], max_per_spectrum=2, n_feat=3, label_enc="pm1",
                                   optional=("ExpMass",), signal=3.0 if case["n_spectra"] < 800 else 2.5,
                                   integer_scores=False, good_feats=(0, 1), rowid=False, target_frac=0.75)
        path = mkdata.write_table(df, wd / "mf.pin")
        fold_sizes = [[len(x) for x in mkdata.read_dataset(path)._split(case["folds"], np.random.default_rng(0))]]
        brew_mod._fit_model = recording_fit
        try:
            runs = [once(k, w) for k, w in enumerate((1, case["workers"], 1))]
        except Exception as e:
            chk.reject("modelform-case-failed:" + type(e).__name__ + ":" + str(e)[:60])
            return
        finally:
            brew_mod._fit_model = orig_fit
    chk.case(None, ("modelform", case["data_seed"], case["seed"], case["form"]), sample=dict(case=case, run=runs[0]))
    differing = sorted({k for a in runs[1:] for k in a if a[k] != runs[0][k]})
    if case["form"] == "unseeded":
        # the caller built PercolatorModel() and left ITS `rng` parameter (documented as the seed of its training)
        # open: one generator unseeded, outside "with a fixed seed" — an input outside the quantifier, tallied
        chk.reject("model-built-without-rng:outside-the-quantifier (runs differ: %s)" % bool(differing))
        return
    if case["form"] == "unseeded_copy":
        # no seed to compare the cross-validation seed with (it is the object's own): agreement is all that is asked
        if differing:
            chk.spec_violation("nondeterminism:model-form:unseeded_copy",
                               dict(case=case, clause="three runs of brew, each on a deep copy of ONE PercolatorModel() "
                                    f"object, with rng={case['seed']} differ in {differing}: cross-validation seeds "
                                    f"{[a['cv'] for a in runs]}"))
        elif len(set(runs[0]["cv"])) != 1 or len(runs[0]["cv"]) != case["folds"]:
            chk.corr_break("determcv", dict(case=case, impl=dict(cv=runs[0]["cv"]), model="one seed per model object",
                                            clause="the fold models do not all carry the cross-validation seed of "
                                                   "the object handed to brew"))
        return
    if differing:
        chk.spec_violation("nondeterminism:default-model" if case["form"] == "none"
                           else "nondeterminism:model-form:" + case["form"],
                           dict(case=case, clause=f"three runs of brew in one process with rng={case['seed']} and the model "
                                f"given as '{case['form']}' differ in {differing}: cross-validation seeds "
                                f"{[a['cv'] for a in runs]}, hyper-parameters {[a['params'] for a in runs]}"))
        return
    # the model: on which generator the cross-validation seed is drawn, and what brew's generator has drawn before
    # its fold shuffles
    src = common.dec(common.driver_batch([common.req("determcv", "default" if case["form"] == "none" else "built")])[0])
    where, draw, prefix = src[0], src[1], src[2]
    if where == "entropy":
        # the model says the seed comes from an unseeded generator, yet three runs agreed
        chk.corr_break("determcv", dict(case=case, impl=dict(cv=runs[0]["cv"]), model=where,
                                        clause="the model derives the cross-validation seed from OS entropy, the real "
                                               "code reproduced it three times"))
        return
    o = np.random.default_rng(case["seed"] + 7 if case["form"] == "built" else case["seed"])
    exp = int(apply_draw(o, draw))
    problems = []
    if any(c != exp for c in runs[0]["cv"]) or len(runs[0]["cv"]) != case["folds"]:
        problems.append(f"cross-validation seed of the fold models {runs[0]['cv']} != first draw of the generator "
                        f"named by the model ({where}): {exp}")
    if runs[0]["caller"] is not None:
        # one Generator for model and brew ('shared'; 'none' once the default model is built on brew's generator): the
        # constructor's draw first, then brew's own draws (C08_shared_generator_order)
        o = np.random.default_rng(case["seed"])
        if case["form"] == "shared":
            apply_draw(o, draw)
        # `mainDrawsOf`: for model=None the constructor's draw is part of brew's own sequence
        plan = common.dec(common.driver_batch([common.req("determplan", case["form"] == "none", False, None,
                                                           fold_sizes)])[0])
        if case["form"] == "none" and plan[0][:len(prefix)] != prefix:
            problems.append("`brewStart` and `mainDrawsOf` disagree about the draws before the fold shuffles")
        for d in plan[0]:
            apply_draw(o, d)
        if runs[0]["caller"] != gen_state(o):
            problems.append("caller's generator after brew != the draws the model lists (constructor draw, fold shuffles)")
    if problems:
        chk.corr_break("determcv", dict(case=case, impl=dict(cv=runs[0]["cv"], problems=problems), model=src))


# ----------------------------------------------------------------------------------------------------------------
# second pass: the seed argument of assign_confidence on its way to the two shuffles of the protein level
# ----------------------------------------------------------------------------------------------------------------
def gen_confseed_case(rng, form=None):
    return dict(kind="confseed", data_seed=rng.randrange(1 << 30), seed=rng.randrange(1 << 31),
                form=form or rng.choice(["int", "int", "generator", "generator", "omitted"]), ncoll=rng.choice([1, 2, 2]),
                fasta_decoys=rng.random() < 0.4,
                ties=rng.random() < 0.5, n_spectra=rng.choice([70, 110]), n_pep=rng.choice([18, 24]),
                workers=rng.choice([1, 2]))


def run_confseed_case(chk, case):
    import mokapot
    import pandas as pd
    import random as pyrandom
    from pandas.core.generic import NDFrame

    r = pyrandom.Random(case["data_seed"])
    for k in ("form", "ncoll", "fasta_decoys", "ties"):
        chk.count("confseed: " + k, case[k])
    log = []
    orig_sample = NDFrame.sample
    # `rng` left out: the documented default of assign_confidence is the int 0 (confidence.py:507)
    seed_eff = 0 if case["form"] == "omitted" else case["seed"]

    def spy_sample(self, *a, **kw):
        rs = kw.get("random_state")
        rec = dict(what=type(self).__name__, n=len(self), rs_type=type(rs).__name__,
                   rs=int(rs) if isinstance(rs, (int, np.integer)) else id(rs) if rs is not None else None,
                   before=gen_state(rs) if isinstance(rs, np.random.Generator) else None)
        try:
            out = orig_sample(self, *a, **kw)
            rec["order"] = [int(x) for x in out.index] if isinstance(self, pd.Series) else None
            return out
        finally:
            rec["after"] = gen_state(rs) if isinstance(rs, np.random.Generator) else None
            log.append(rec)

    with P.workdir() as wd:
        paths, scores = [], []
        params = dict(n_pep=case["n_pep"], level_cols=[])
        for c in range(case["ncoll"]):
            df = c08_child.make_table(params, r, case["n_spectra"] if c == 0 else max(50, case["n_spectra"] // 2))
            paths.append(mkdata.write_table(df, wd / f"cs{c}.pin"))
            sc = df["feat0"].to_numpy(dtype=float)
            scores.append(np.round(sc * 1.5) if case["ties"] else sc)
        n_prot = max(3, (3 * case["n_pep"]) // 4)
        if case["fasta_decoys"]:
            fasta = c08_child.make_fasta_with_decoys(case["n_pep"], n_prot, wd / "cs.fasta", shared_every=7)
        else:
            fasta = mkdata.make_fasta(case["n_pep"], n_prot, wd / "cs.fasta", shared_every=7)
        prot = mokapot.read_fasta(fasta, missed_cleavages=0, min_length=4)
        runs = []
        try:
            NDFrame.sample = spy_sample
            for k in range(2):
                del log[:]
                np.random.seed(500 + k)
                g = np.random.default_rng(case["seed"]) if case["form"] == "generator" else case["seed"]
                out = wd / f"cs_out{k}"
                out.mkdir()
                dsets = [mkdata.read_dataset(p_) for p_ in paths]
                err = None
                try:
                    kw = {} if case["form"] == "omitted" else dict(rng=g)
                    mokapot.assign_confidence(dsets, max_workers=case["workers"], scores=[x.copy() for x in scores],
                                              descs=[True] * len(paths), dest_dir=out,
                                              prefixes=[None] if len(paths) == 1 else ["a", "b"][:len(paths)],
                                              decoys=True, proteins=prot, **kw)
                except Exception as e:      # a deterministic refusal must be the same refusal in both runs
                    err = f"{type(e).__name__}: {str(e)[:100]}"
                runs.append(dict(files={f.name: c08_child.sha(f.read_bytes()) for f in sorted(out.iterdir())}, err=err,
                                 log=[dict(x) for x in log], caller=g, caller_state=gen_state(g)
                                 if case["form"] == "generator" else None))
        finally:
            NDFrame.sample = orig_sample
    chk.case(None, ("confseed", case["data_seed"], case["seed"], case["form"]),
             sample=dict(case=case, shuffles=[(x["what"], x["n"]) for x in runs[0]["log"]], err=runs[0]["err"]))
    view = lambda o: (o["files"], o["err"], [(x["what"], x["n"], x["before"], x["after"], x["order"]) for x in o["log"]],  # noqa: E731
                      o["caller_state"])
    if view(runs[0]) != view(runs[1]):
        what = [n for n, a, b in zip(("result files", "exception", "shuffles", "caller's generator"), view(runs[0]),
                                     view(runs[1])) if a != b]
        chk.spec_violation("nondeterminism:confidence-seed:" + case["form"],
                           dict(case=case, clause=f"assign_confidence twice with rng={case['form']}({case['seed']}): {what} differ"))
        return
    # correspondence with the model: which generator every shuffle draws from, after which earlier shuffles
    obs = runs[0]
    if obs["err"] is not None:
        chk.reject("confseed:" + obs["err"].split(":")[0])
        return
    frames = [x for x in obs["log"] if x["what"] == "DataFrame"]
    rows = [x["n"] for x in frames]
    chk.count("confseed: shuffles per run", len(obs["log"]))
    model = common.dec(common.driver_batch([common.req(
        "determconf", case["fasta_decoys"], "gen" if case["form"] == "generator" else "seed", len(prot.peptide_map),
        rows)])[0])
    reqs, final = model
    problems = []
    if len(rows) != case["ncoll"]:
        problems.append(f"{len(rows)} tie-breaking shuffles for {case['ncoll']} collections")
    if [(("Series" if i % 2 == 0 else "DataFrame") if not case["fasta_decoys"] else "DataFrame", int(q[0][1]))
            for i, q in enumerate(reqs)] != [(x["what"], x["n"]) for x in obs["log"]]:
        problems.append("sequence of shuffles (pairing / tie-breaking, sizes)")
    else:
        for q, x in zip(reqs, obs["log"]):
            o = np.random.default_rng(case["seed"])
            for d in q[1]:
                apply_draw(o, d)
            if case["form"] == "generator":
                if x["rs"] != id(obs["caller"]) or x["before"] != gen_state(o):
                    problems.append(f"shuffle of {x['n']}: not the caller's generator in the state after {len(q[1])} earlier shuffles")
                apply_draw(o, q[0])
                if x["after"] != gen_state(o):
                    problems.append(f"shuffle of {x['n']}: state after the draw")
            else:
                if x["rs_type"] != "int" or x["rs"] != seed_eff or q[1] != []:
                    problems.append(f"shuffle of {x['n']}: random_state is not the int seed itself (a new generator per call)")
                elif x["order"] is not None and x["order"] != [int(v) for v in
                                                               np.random.RandomState(seed_eff).choice(x["n"], size=x["n"], replace=False)]:
                    problems.append("pairing shuffle is not the first draw of a generator made from the seed")
        if case["form"] == "generator":
            o = np.random.default_rng(case["seed"])
            for d in final:
                apply_draw(o, d)
            if obs["caller_state"] != gen_state(o):
                problems.append("caller's generator after assign_confidence")
    if problems:
        chk.corr_break("determconf", dict(case=case, impl=dict(shuffles=[(x["what"], x["n"], x["rs_type"]) for x in obs["log"]],
                                                               problems=problems[:4]), model=model))


# ----------------------------------------------------------------------------------------------------------------
# third pass: the fold key of _split (dataset.py:654-699) vs `determsplit`, and across interpreter sessions
# ----------------------------------------------------------------------------------------------------------------
def gen_splitkey_case(rng, text=None, children=False):
    text = rng.random() < 0.6 if text is None else text
    optional = (["filename"] if text else []) + [c for c in ("ExpMass", "ret_time") if rng.random() < 0.5]
    n_spectra = rng.choice([6, 12, 25, 40, 70])
    return dict(kind="splitkey", data_seed=rng.randrange(1 << 30), seed=rng.randrange(1 << 31), n_spectra=n_spectra,
                per_spectrum=rng.choice([1, 2, 3]), optional=optional, names=rng.choice(["plain", "odd"]),
                n_files=rng.choice([1, 2, 3, 9]), dup_scans=rng.random() < 0.5, fractional=rng.random() < 0.5,
                fmt=rng.choice(["pin", "parquet"]), folds=rng.choice([2, 3, 3, 4, 5]), children=children,
                narrow=rng.choice([None, ["int32", "float32"], ["uint16", "float64"], ["int16", "float32"]]))


def start_splitkey_children(case, ex):
    return [(h, ex.submit(child, dict(case), h)) for h in ((1, 2) if case.get("children") else ())]


def run_splitkey_case(chk, case, futs=None):
    from zlib import crc32

    with P.workdir() as wd:
        try:
            obs = c08_child.split_only(case, wd / "k")
        except Exception as e:
            chk.reject("splitkey-case-failed:" + type(e).__name__ + ":" + str(e)[:60])
            return
    cells, folds = obs["cells"], obs["folds"]
    chk.count("splitkey: key columns", ",".join(obs["columns"][:2]))
    chk.count("splitkey: first key cell", "str" if cells and cells[0][0].startswith(("'", '"')) else
              "numpy scalar" if cells and cells[0][0].startswith("np.") else "python number")
    chk.count("splitkey: folds", case["folds"])
    chk.count("splitkey: storage width", "64 bit" if not (case.get("narrow") and case["fmt"] == "parquet")
              else "/".join(case["narrow"]))
    texts = sorted({"(" + ", ".join(c[:2]) + ("," if len(c[:2]) == 1 else "") + ")" for c in cells})[:3]
    out = common.driver_batch([common.req("determsplit", cells, case["folds"])] +
                              [common.req("determcrc", t) for t in texts])
    model = common.dec(out[0])
    chk.case(None, ("splitkey", case["data_seed"], case["seed"]),
             sample=dict(case=case, columns=obs["columns"], first_row=cells[:1],
                         sizes=folds if isinstance(folds, str) else [len(f) for f in folds]))
    for t, o in zip(texts, out[1:]):
        if common.a_int(common.dec(o)) != crc32(t.encode()):
            chk.corr_break("determcrc", dict(case=case, impl=crc32(t.encode()), model=common.dec(o), text=t))
            return
    # (a) spec, stated directly: the same table split in fresh interpreters under other hash seeds gives the same
    # index arrays (the generator is seeded, numpy's argsort is a function of the key column)
    for h, f in (futs if futs is not None else []):
        try:
            other = f.result()
        except Exception as e:
            chk.reject("child-failed:" + str(e)[:160])
            continue
        chk.case(None, ("splitkey-fresh", case["data_seed"], h))
        chk.count("kind", f"split-key fresh-interpreter hashseed={h}")
        if other["folds"] != folds or other["cells"] != cells:
            what = "key cells" if other["cells"] != cells else "fold assignments"
            moved = None
            if what == "fold assignments" and not isinstance(folds, str) and not isinstance(other["folds"], str):
                moved = sum(len(set(a) ^ set(b)) for a, b in zip(folds, other["folds"])) // 2
            chk.spec_violation("nondeterminism:fold-key:fresh-interpreter",
                               dict(case=case, clause=f"_split(folds={case['folds']}, rng={case['seed']}) of the same "
                                    f"table (spectrum columns {obs['columns']}) in a fresh interpreter with "
                                    f"PYTHONHASHSEED={h}: {what} differ from this process' "
                                    f"(PYTHONHASHSEED={os.environ.get('PYTHONHASHSEED')}); rows in another fold: {moved}"))
            return
    # (b) the model
    keys, mf = model
    if mf == "reject-index" or folds == "IndexError":
        if mf == "reject-index" and folds == "IndexError":
            chk.reject("split-point-behind-the-last-spectrum:IndexError")
        else:
            chk.corr_break("determsplit", dict(case=case, impl=folds if isinstance(folds, str) else [len(f) for f in folds],
                                               model=mf if isinstance(mf, str) else [len(f) for f in mf]))
        return
    got = [sorted(f) for f in folds]
    exp = [sorted(common.a_int(i) for i in f) for f in mf]
    if got != exp:
        chk.corr_break("determsplit", dict(case=case, impl=[f[:8] for f in got], model=[f[:8] for f in exp],
                                           clause="fold membership is not the one the crc32 keys of the first two "
                                                  "key cells determine"))


def search(chk):
    # third pass: the cheapest probe of all first — the fold key across interpreter sessions
    with ThreadPoolExecutor(max_workers=4) as ex:
        cases = [gen_splitkey_case(chk.rng, text=k % 3 != 2, children=True) for k in range(6 * chk.budget_mult)]
        started = [(c, start_splitkey_children(c, ex)) for c in cases]
        for c, futs in started:
            run_splitkey_case(chk, c, futs)
    if chk.spec_violations:
        return
    # second pass: the cheapest probes first (how brew gets its model, the seed argument of assign_confidence)
    for form in ("none", "built", "shared") * chk.budget_mult:
        run_modelform_case(chk, gen_modelform_case(chk.rng, form))
        if chk.spec_violations:
            return
    for _ in range(4 * chk.budget_mult):
        run_confseed_case(chk, gen_confseed_case(chk.rng))
        if chk.spec_violations:
            return
    for _ in range(3 * chk.budget_mult):
        run_case(chk, gen_case(chk.rng), "thorough")
        if chk.spec_violations:
            return
    for _ in range(6 * chk.budget_mult):
        run_rng_case(chk, gen_rng_case(chk.rng))
        if chk.spec_violations:
            return


def main(chk, args):
    build = common.build_and_audit("C08")
    if not build.driver_ok:
        chk.finish(build, RULE)
    n = 2 if chk.tier == "quick" else 12
    # every optional dimension is switched on in at least one case of a run (a random split in the quick tier)
    dims = list(DIMS[:6])
    chk.rng.shuffle(dims)
    new = list(DIMS[6:])
    chk.rng.shuffle(new)
    # quick tier: the six dimensions of the first pass split 3 + 3 as before, one second-pass dimension added to each case
    forced = [dims[:3] + new[:1], dims[3:] + new[1:]] if chk.tier == "quick" else [None] * n
    forced += [None] * (n - len(forced))
    t0 = time.time()
    # third pass: the split-key cases; those with fresh interpreters are started now and collected after the pipeline
    # cases (their start-up overlaps)
    n_key = 16 if chk.tier == "quick" else 150
    key_cases = [gen_splitkey_case(chk.rng, text=True if k < 2 else None,
                                   children=(k < 2 if chk.tier == "quick" else None)) for k in range(n_key)]
    for c in key_cases:
        if c["children"] is None:
            c["children"] = "filename" in c["optional"] and chk.rng.random() < 0.25
    key_ex = ThreadPoolExecutor(max_workers=2)
    key_futs = [start_splitkey_children(c, key_ex) for c in key_cases]
    for i in range(n):
        run_case(chk, gen_case(chk.rng, forced[i]), chk.tier)
    t1 = time.time()
    for c, f in zip(key_cases, key_futs):
        run_splitkey_case(chk, c, f)
    key_ex.shutdown(wait=True)
    t_key = time.time() - t1
    t1 = time.time()
    for _ in range(8 if chk.tier == "quick" else 60):
        run_rng_case(chk, gen_rng_case(chk.rng))
    t2 = time.time()
    for _ in range(40 if chk.tier == "quick" else 400):
        run_fasta_case(chk, gen_fasta_case(chk.rng))
    t3 = time.time()
    # second pass: model=None in every run, the other forms sampled
    # (a model built WITHOUT rng is outside the quantifier: generated in the thorough tier only, and tallied as rejected)
    forms = ["none", chk.rng.choice(["built", "shared", "unseeded_copy"])] if chk.tier == "quick" else list(MODEL_FORMS) * 3
    for form in forms:
        run_modelform_case(chk, gen_modelform_case(chk.rng, form, quick=chk.tier == "quick"))
    t4 = time.time()
    # quick tier: each form of the seed argument once (int, Generator, left out)
    for form in (["int", "generator", "omitted"] if chk.tier == "quick" else [None] * 40):
        run_confseed_case(chk, gen_confseed_case(chk.rng, form))
    chk.extra["phase_wall_s"] = dict(pipeline=round(t1 - t0, 1), rng=round(t2 - t1, 1), fasta=round(t3 - t2, 1),
                                     modelform=round(t4 - t3, 1), confseed=round(time.time() - t4, 1),
                                     splitkey=round(t_key, 1))
    lc = common.leanchecker("C08") if chk.tier == "thorough" else None
    chk.assumptions += [
        "PARTIAL: the theorems carry (i) the inventory obligation: every source of nondeterminism found by the AST "
        "walk of /repo/mokapot (global numpy RNG, stdlib random, unseeded DataFrame.sample, hash/id/time/uuid/getpid, "
        "iteration over sets - also sets passed to or returned by functions of the package -, containers whose order "
        "was fixed by such an iteration, directory listings, lists appended to by joblib workers) is accounted for by "
        "an explicit seeding or by a proved order-invariance, (ii) the order-invariance results, (iii) the threading of "
        "the seeded generator through brew (private copy per fold: no worker schedule reaches a draw); bit-identity "
        "itself (numpy/sklearn/BLAS/pandas internals) is established by differential execution only",
        "rng cases: the amount of generator state consumed by shuffle/choice/permutation depends only on the sizes "
        "(numpy), so the plan can be replayed on arrays of the same length",
        "'with a fixed seed' = every seed the API lets the caller fix is fixed: brew(rng=seed) with model=None, with a "
        "model built as PercolatorModel(rng=seed'), or with one Generator for both. A user-built PercolatorModel() "
        "whose own rng parameter (documented as the seed of its training) is left at None is outside the quantifier: "
        "its hyper-parameter search is seeded from OS entropy by the caller's choice; such cases are generated in the "
        "thorough tier only and tallied under rejected_inputs",
        "split-key cases: the `repr` texts of the key cells are taken from `spectra_dataframe[spectrum_columns].values` "
        "row by row, as `np.apply_along_axis` hands them to the key function (CPython / numpy `repr` and `str(tuple)` "
        "trusted; the model joins the texts as `str(tuple(..))` does); zlib.crc32 is compared with the Lean crc32 on the "
        "key texts of every case",
        "a PercolatorModel() the caller builds WITHOUT a seed carries a cross-validation seed drawn from OS entropy in "
        "its constructor (`estimator.cv.random_state`, model.py:430-436): two such objects are two different inputs; "
        "brew is required to be a function of the object it is given (form `unseeded_copy`: deep copies of one object "
        "must give identical runs), not to make two differently seeded objects agree",
        "confidence-seed cases: pandas turns an int random_state into a new RandomState per sample() call and uses a "
        "Generator as it is (pandas.core.common.random_state); DataFrame/Series.sample is observed by wrapping "
        "NDFrame.sample for the duration of the call",
    ]
    chk.finish(build, RULE, search=search, lc=lc,
               trusted_extra=["tools/gen_repo.py (AST walk -> Generated/Effects.lean)", "sklearn LinearSVC/GridSearchCV, BLAS",
                              "CPython / numpy repr of the spectrum-key cells, str(tuple), numpy argsort/unique/searchsorted/split"])


def replay(chk, path):
    info = json.loads(open(path).read())
    case = info.get("case")
    if not isinstance(case, dict) or "data_seed" not in case and case.get("kind") != "fasta":
        print(json.dumps(info, indent=1)[:3000])
        return 0
    common.build_and_audit("C08")
    kind = case.get("kind", "pipeline")
    if kind == "rng":
        run_rng_case(chk, case)
    elif kind == "fasta":
        run_fasta_case(chk, case)
    elif kind == "modelform":
        run_modelform_case(chk, case)
    elif kind == "confseed":
        run_confseed_case(chk, case)
    elif kind == "splitkey":
        with ThreadPoolExecutor(max_workers=2) as ex:
            run_splitkey_case(chk, case, start_splitkey_children(dict(case, children=True), ex))
    else:
        run_case(chk, case, "thorough")
    for sig, i in chk.spec_violations:
        print("REPRODUCED", sig, i.get("clause"))
    for op, i in chk.corr_breaks:
        print("REPRODUCED correspondence break", op, i.get("impl"))
    return 1 if chk.spec_violations or chk.corr_breaks else 0
