"""C19 — PIN -> rectangular TSV conversion is lossless, order-preserving and idempotent
(correspondence harness).

Observed at the public functions `mokapot.parsers.pin_to_tsv.pin_to_valid_tsv` / `is_valid_tsv`
(on `StringIO` objects), `convert_line_pin_to_tsv` (small-scope sweep) and the verify step of the
CLI (`mokapot.mokapot.main`, stopped right after the step by a sentinel in place of `read_pin`).

Three families of cases:
  * documents  — abstract well-formed PIN documents (header columns, optional DefaultDirection line,
                 rows = fields before / proteins / fields after the protein column, whitespace padding,
                 trailing newline or not) rendered to text; implementation vs. SPEC (expected table,
                 output valid, idempotent, validity criterion) vs. MODEL;
  * raw texts  — arbitrary token soups (also malformed: short rows, no Proteins column, header only,
                 several DefaultDirection lines); implementation vs. MODEL, validity criterion as SPEC;
                 refusals (StopIteration / AssertionError) are tallied and must agree with the model;
  * verify step — files on disk through the real CLI code.
"""
from __future__ import annotations

import io
import itertools
import json
import os
import shutil
import tempfile

import common
from common import a_bool, a_str, deep, dec, req

RULE = (
    "cases = (a) well-formed PIN documents: 0..6 columns before and after the Proteins column (first, middle, "
    "last, duplicated name), 0..8 rows with 1..5 proteins each, optional DefaultDirection line, whitespace "
    "padding of any line, trailing newline or not, column separator in {tab , ; space}, protein separator in "
    "{: ; | :: empty}; (b) raw token soups incl. malformed files; (c) files through the CLI verify step; "
    "distinct = distinct (layout, protein counts per row, DefaultDirection, padding pattern, trailing newline, "
    "separators) resp. distinct raw text; non-trivial = some row with >= 2 proteins, or a DefaultDirection "
    "line, or padding (documents) / text with >= 2 lines (raw); thorough adds the exhaustive sweeps: all "
    "layouts with <=2 columns on either side x <=3 rows x <=3 proteins x DD x trailing newline x padding, all token "
    "strings of length <= 7 over {tab, newline, a, space, Proteins, DefaultDirection}, and "
    "convert_line_pin_to_tsv for all (fields <= 10, n_col <= 10, idx < n_col)"
)

PADS = [" ", "\t", "\r", "\x0b", "\x0c", " ", " ", "\x1f", "  "]
FIELD_CHARS = list("abcXYZ019|._-:;, ") + ["é", "β", " ", "中", "\U0001f600", "\r"]
NAMES = ["SpecId", "Label", "ScanNr", "ExpMass", "f1", "f2", "lnrSp", "Peptide", "Charge 2", "Proteins"]


# ----------------------------------------------------------------------------
# the real code
# ----------------------------------------------------------------------------
def impl_convert(text, sep_c, sep_p):
    from mokapot.parsers.pin_to_tsv import pin_to_valid_tsv

    out = io.StringIO()
    try:
        pin_to_valid_tsv(io.StringIO(text), out, sep_column=sep_c, sep_protein=sep_p)
    except StopIteration:
        return "reject-stop"
    except AssertionError:
        return "reject-assert"
    return ("ok", out.getvalue())


def impl_valid(text, sep_c):
    from mokapot.parsers.pin_to_tsv import is_valid_tsv

    try:
        return bool(is_valid_tsv(io.StringIO(text), sep_column=sep_c))
    except StopIteration:
        return "reject-stop"


class _StopAfterVerify(Exception):
    pass


def impl_cli_verify(text, tmpdir, k):
    """write `text` to a file, run the real CLI up to (and including) the verify step, read it back"""
    import mokapot.mokapot as M

    def stop(*a, **kw):
        raise _StopAfterVerify()

    path = os.path.join(tmpdir, f"case{k}.pin")
    with open(path, "w", newline="", encoding="utf-8") as f:
        f.write(text)
    saved = M.read_pin
    M.read_pin = stop
    try:
        M.main([path, "--dest_dir", tmpdir, "--verbosity", "0"])
        return "no-stop"
    except _StopAfterVerify:
        with open(path, "r", newline="", encoding="utf-8") as f:
            return ("ok", f.read())
    except StopIteration:
        return "reject-stop"
    except AssertionError:
        return "reject-assert"
    finally:
        M.read_pin = saved
        for fn in (path, path + ".tsv"):
            if os.path.exists(fn):
                os.unlink(fn)


# ----------------------------------------------------------------------------
# documents
# ----------------------------------------------------------------------------
def rand_field(rng, sep_c, edge=False, allow_empty=True):
    chars = [c for c in FIELD_CHARS if c != sep_c]
    n = rng.choice([0, 1, 1, 2, 3, 5, 9]) if (allow_empty and not edge) else rng.choice([1, 1, 2, 3, 5, 9])
    s = "".join(rng.choice(chars) for _ in range(n))
    if edge:
        s = s.strip()
        if not s:
            s = rng.choice("abXY01|")
    return s


def rand_pad(rng, p):
    if rng.random() >= p:
        return ""
    return "".join(rng.choice(PADS) for _ in range(rng.choice([1, 1, 2, 3])))


def fix_edges(rng, fields, sep_c):
    """first field must start, last field must end, with a non-space character"""
    f = list(fields)
    if not f[0] or f[0][0].isspace():
        f[0] = rng.choice("abXY01|") + f[0].strip()
    if not f[-1] or f[-1][-1].isspace():
        f[-1] = f[-1].strip() + rng.choice("abXY01|")
    return f


def gen_doc(rng, big=False):
    sep_c = rng.choice(["\t"] * 6 + [",", ";", " "])
    sep_p = rng.choice([":"] * 5 + [";", "|", "::", "", ": "])
    if sep_c in sep_p:
        sep_p = ":"
    layout = rng.choice(["last", "last", "middle", "middle", "first", "only", "dup"])
    hi = 6 if not big else 12
    if layout == "last":
        n_pre, n_post = rng.randint(0, hi), 0
    elif layout == "first":
        n_pre, n_post = 0, rng.randint(1, hi)
    elif layout == "only":
        n_pre, n_post = 0, 0
    else:
        n_pre, n_post = rng.randint(1, hi), rng.randint(1, hi)
    pool = [n for n in NAMES if n != "Proteins" and sep_c not in n]
    pre_names = [rng.choice(pool) if rng.random() < 0.7 else rand_field(rng, sep_c, edge=True) for _ in range(n_pre)]
    post_names = [rng.choice(pool) if rng.random() < 0.7 else rand_field(rng, sep_c, edge=True) for _ in range(n_post)]
    pre_names = [x for x in pre_names]
    # "Proteins" must not occur before the intended index (first occurrence wins in the code)
    pre_names = [x if x != "Proteins" else "Prot" for x in pre_names]
    if layout == "dup" and n_post:
        post_names[rng.randrange(n_post)] = "Proteins"
    cols = fix_edges(rng, pre_names + ["Proteins"] + post_names, sep_c)
    if cols[n_pre] != "Proteins":  # cannot happen: "Proteins" has good edges
        raise AssertionError
    pad_p = rng.choice([0.0, 0.0, 0.3, 0.8])
    n_rows = rng.choice([1, 1, 2, 3, 4, 8]) if not big else rng.randint(1, 40)
    dd = None
    if rng.random() < 0.4:
        tail = "".join(sep_c + rng.choice(["-", "0.5", "1", ""]) for _ in range(rng.randint(0, n_pre + n_post + 2)))
        dd = rand_pad(rng, pad_p) + "DefaultDirection" + rng.choice(["", "", "s", " x"]) + tail + rand_pad(rng, pad_p)
        if rng.random() < 0.15:
            n_rows = 0
    rows = []
    kmax = rng.choice([1, 2, 3, 5]) if not big else 12
    for _ in range(n_rows):
        pre = [rand_field(rng, sep_c) for _ in range(n_pre)]
        k = rng.randint(1, kmax)
        prots = [rand_field(rng, sep_c, allow_empty=rng.random() < 0.2) for _ in range(k)]
        post = [rand_field(rng, sep_c) for _ in range(n_post)]
        fs = fix_edges(rng, pre + prots + post, sep_c)
        pre, prots, post = fs[:n_pre], fs[n_pre:n_pre + k], fs[n_pre + k:]
        rows.append([rand_pad(rng, pad_p), pre, prots, post, rand_pad(rng, pad_p)])
    if rows and rng.random() < 0.02:
        # a PSM id that looks like a DefaultDirection line: outside the hypotheses (see eval_docs)
        if n_pre:
            rows[0][1][0] = "DefaultDirection_" + rows[0][1][0].strip()
        else:
            rows[0][2][0] = "DefaultDirection_" + rows[0][2][0].strip()
        rows[0][1:4] = [x for x in (lambda fs: (fs[:n_pre], fs[n_pre:len(fs) - n_post], fs[len(fs) - n_post:]))(
            fix_edges(rng, rows[0][1] + rows[0][2] + rows[0][3], sep_c))]
    doc = dict(hpadL=rand_pad(rng, pad_p), cols=cols, hpadR=rand_pad(rng, pad_p), dd=dd, rows=rows,
               trailing=rng.random() < 0.6, sepC=sep_c, sepP=sep_p, layout=layout)
    return doc


def doc_wire(d):
    return [d["hpadL"], d["cols"], d["hpadR"], None if d["dd"] is None else [d["dd"]], d["rows"], bool(d["trailing"])]


def render_pin(d):
    """python rendering of the document (independent of the Lean `renderPin`)"""
    s = d["sepC"]
    lines = [d["hpadL"] + s.join(d["cols"]) + d["hpadR"]]
    if d["dd"] is not None:
        lines.append(d["dd"])
    for padl, pre, prots, post, padr in d["rows"]:
        lines.append(padl + s.join(pre + prots + post) + padr)
    return "\n".join(lines) + ("\n" if d["trailing"] else "")


def expected_table(d):
    """direct re-statement of the specification"""
    return [list(d["cols"])] + [pre + [d["sepP"].join(prots)] + post for _, pre, prots, post, _ in d["rows"]]


def expected_text(d):
    return "".join(d["sepC"].join(r) + "\n" for r in expected_table(d))


def valid_criterion(text, sep_c):
    """direct re-statement of the validity criterion on the lines a file object yields"""
    lines = text.split("\n")
    lines = [l + "\n" for l in lines[:-1]] + ([lines[-1]] if lines[-1] else [])
    if len(lines) < 2:
        return "reject-stop"
    if lines[1].startswith("DefaultDirection"):
        return False
    return all(l.count(sep_c) == lines[0].count(sep_c) for l in lines[1:])


def doc_key(d):
    pads = (bool(d["hpadL"] or d["hpadR"]), tuple(bool(r[0] or r[4]) for r in d["rows"]))
    return (len(d["cols"]), d["cols"].index("Proteins"), tuple(len(r[2]) for r in d["rows"]), d["dd"] is not None,
            pads, d["trailing"], d["sepC"], d["sepP"], d["cols"].count("Proteins"))


def doc_nontrivial(d):
    return any(len(r[2]) >= 2 for r in d["rows"]) or d["dd"] is not None or any(r[0] or r[4] for r in d["rows"])


def eval_docs(chk, docs, cli=False, tmpdir=None):
    """documents generated as well-formed: implementation vs spec vs model"""
    lines = []
    for d in docs:
        text = render_pin(d)
        lines.append(req("spec-C19", d["sepC"], d["sepP"], doc_wire(d)))
        lines.append(req("pin2tsv", d["sepC"], d["sepP"], text))
        lines.append(req("validtsv", d["sepC"], text))
        lines.append(req("validspec", d["sepC"], text))
    resp = common.driver_batch(lines)
    later = []
    for k, d in enumerate(docs):
        text = render_pin(d)
        sp = dec(resp[4 * k])
        wf, sep_ok, first_ok = a_bool(sp[0]), a_bool(sp[1]), a_bool(sp[2])
        lean_pin, lean_exp = a_str(sp[3]), a_str(sp[4])
        lean_table = deep(a_str, sp[5])
        m_conv = resp[4 * k + 1].strip()
        m_conv = m_conv if m_conv.startswith("reject") else ("ok", a_str(m_conv))
        m_valid = resp[4 * k + 2].strip()
        m_valid = m_valid if m_valid.startswith("reject") else a_bool(m_valid)
        s_valid = a_bool(resp[4 * k + 3].strip())
        if lean_pin != text:
            raise RuntimeError(f"harness/driver rendering mismatch: {text!r} vs {lean_pin!r}")
        if not wf:
            # not inside the theorem's hypotheses (e.g. a PSM id that starts with DefaultDirection):
            # model correspondence only
            chk.count("doc-not-wf")
            eval_raw(chk, [(text, d["sepC"], d["sepP"])], family="doc-not-wf")
            continue
        exp = expected_text(d)
        if lean_exp != exp or lean_table != expected_table(d):
            raise RuntimeError(f"spec restatement mismatch (python vs Lean): {exp!r} vs {lean_exp!r}")
        jd = jsonable(d)
        got = impl_convert(text, d["sepC"], d["sepP"])
        v_in = impl_valid(text, d["sepC"])
        chk.case(None, doc_key(d) if doc_nontrivial(d) else None,
                 sample=dict(input=text, impl=got[1] if isinstance(got, tuple) else got, expected=exp,
                             impl_valid_input=v_in))
        chk.count("layout", d["layout"])
        chk.count("n_cols", len(d["cols"]))
        chk.count("n_rows", min(len(d["rows"]), 10))
        chk.count("max_proteins", max([len(r[2]) for r in d["rows"]] or [0]))
        chk.count("dd", d["dd"] is not None)
        chk.count("trailing_newline", d["trailing"])
        chk.count("padding", any(r[0] or r[4] for r in d["rows"]) or bool(d["hpadL"] or d["hpadR"]))
        chk.count("sepC", repr(d["sepC"]))
        chk.count("sepP", repr(d["sepP"]))
        if not isinstance(got, tuple):
            chk.spec_violation("convert-raised", dict(case=jd, input=text, impl=got, expected=exp,
                                                      clause="conversion of a well-formed PIN raised"))
            continue
        out = got[1]
        bad = False
        if out != exp:
            bad = True
            clause = "output differs from the rectangular table of the document"
            il, el = out.split("\n"), exp.split("\n")
            if il[:1] != el[:1]:
                clause = "header not preserved"
            elif len(il) != len(el):
                clause = "line count differs (one line per PSM, DefaultDirection dropped)"
            chk.spec_violation("convert-spec", dict(case=jd, input=text, impl=out, expected=exp, clause=clause))
        if not bad and sep_ok and first_ok:
            v_out = impl_valid(out, d["sepC"])
            if v_out is not True:
                bad = True
                chk.spec_violation("output-valid", dict(case=jd, input=text, impl=out, impl_valid=v_out,
                                                        expected=True, clause="output not recognised as valid"))
            again = impl_convert(out, d["sepC"], d["sepP"])
            if again != ("ok", out):
                bad = True
                chk.spec_violation("idempotent", dict(case=jd, input=text, impl=again, expected=out,
                                                      clause="converting the output again changes it"))
        elif not bad:
            chk.count("valid/idempotence-not-promised")
        crit = valid_criterion(text, d["sepC"])
        if crit != s_valid and not (crit == "reject-stop" and s_valid is False):
            raise RuntimeError(f"validity criterion restatement mismatch on {text!r}: {crit} vs {s_valid}")
        if v_in != crit and crit != "reject-stop":
            bad = True
            chk.spec_violation("valid-iff", dict(case=jd, input=text, impl=v_in, expected=crit,
                                                 clause="is_valid_tsv differs from: rectangular and no DefaultDirection line"))
        if not bad:
            if got != m_conv:
                chk.corr_break("pin2tsv", dict(case=jd, input=text, impl=got, model=m_conv))
            if v_in != m_valid:
                chk.corr_break("validtsv", dict(case=jd, input=text, impl=v_in, model=m_valid))
        if cli and d["sepC"] == "\t" and d["sepP"] == ":" and "\r" not in text:
            later.append((d, text, exp, v_in))
    if later:
        eval_cli(chk, later, tmpdir)


def eval_cli(chk, items, tmpdir):
    resp = common.driver_batch([req("verifystep", text) for _, text, _, _ in items])
    for k, ((d, text, exp, v_in), r) in enumerate(zip(items, resp)):
        r = r.strip()
        model = r if r.startswith("reject") else ("ok", a_str(r))
        got = impl_cli_verify(text, tmpdir, k)
        chk.case(None, ("cli",) + doc_key(d))
        chk.count("cli-verify", "already-valid" if v_in is True else "converted")
        want = ("ok", text if v_in is True else exp)
        if got != want:
            chk.spec_violation("cli-verify", dict(case=jsonable(d), input=text, impl=got, expected=want,
                                                  clause="file after the verify step is not (input if valid else conversion)"))
        elif got != model:
            chk.corr_break("verifystep", dict(case=jsonable(d), input=text, impl=got, model=model))


# ----------------------------------------------------------------------------
# raw texts
# ----------------------------------------------------------------------------
TOKENS = ["\t", "\t", "\t", "\n", "\n", " ", "a", "b", ":", "Proteins", "DefaultDirection", "\r", "\x0b",
          " ", "x", ",", "P", "é"]


def gen_raw(rng):
    n = rng.choice([0, 1, 2, 3, 5, 8, 12, 16, 24])
    t = "".join(rng.choice(TOKENS) for _ in range(n))
    r = rng.random()
    if r < 0.35:
        t = "a\tProteins\tb\n" + t
    elif r < 0.5:
        t = "Proteins\n" + t
    elif r < 0.6:
        t = " id\tProteins \nDefaultDirection\t-\n" + t
    sep_c = rng.choice(["\t", "\t", "\t", ",", "a", " "])
    sep_p = rng.choice([":", ":", ";", "", "::", "\t"])
    return (t, sep_c, sep_p)


def eval_raw(chk, cases, family="raw"):
    lines = []
    for t, sc, sp in cases:
        lines.append(req("pin2tsv", sc, sp, t))
        lines.append(req("validtsv", sc, t))
        lines.append(req("validspec", sc, t))
    resp = common.driver_batch(lines)
    for k, (t, sc, sp) in enumerate(cases):
        m = resp[3 * k].strip()
        m = m if m.startswith("reject") else ("ok", a_str(m))
        mv = resp[3 * k + 1].strip()
        mv = mv if mv.startswith("reject") else a_bool(mv)
        sv = a_bool(resp[3 * k + 2].strip())
        got = impl_convert(t, sc, sp)
        v = impl_valid(t, sc)
        crit = valid_criterion(t, sc)
        if crit != sv and not (crit == "reject-stop" and sv is False):
            raise RuntimeError(f"validity criterion restatement mismatch on {t!r}: {crit} vs {sv}")
        nlines = t.count("\n") + (0 if t.endswith("\n") or not t else 1)
        chk.case(None, (family, t, sc, sp) if nlines >= 2 else None,
                 sample=dict(input=t, sepC=sc, sepP=sp, impl=got, impl_valid=v) if nlines >= 3 else None)
        chk.count(family + "-lines", min(nlines, 6))
        chk.count(family + "-convert", got if isinstance(got, str) else "ok")
        chk.count(family + "-valid", str(v))
        if isinstance(got, str):
            chk.reject("pin_to_valid_tsv:" + got)
        if isinstance(v, str):
            chk.reject("is_valid_tsv:" + v)
        info = dict(input=t, sepC=sc, sepP=sp)
        if v != crit and crit != "reject-stop":  # fewer than two lines: nothing is promised (the code raises)
            chk.spec_violation("valid-iff", dict(info, impl=v, expected=crit,
                                                 clause="is_valid_tsv differs from: rectangular and no DefaultDirection line"))
            continue
        if got != m:
            chk.corr_break("pin2tsv", dict(info, impl=got, model=m))
        if v != mv:
            chk.corr_break("validtsv", dict(info, impl=v, model=mv))


# ----------------------------------------------------------------------------
# exhaustive small-scope sweeps
# ----------------------------------------------------------------------------
def sweep_docs(chk, max_side, max_rows, max_prot, tmpdir):
    docs = []
    for n_pre in range(max_side + 1):
        for n_post in range(max_side + 1):
            cols = [f"c{i}" for i in range(n_pre)] + ["Proteins"] + [f"d{i}" for i in range(n_post)]
            for dd in (None, "DefaultDirection\t-"):
                for n_rows in range(0 if dd else 1, max_rows + 1):
                    for ks in itertools.product(range(1, max_prot + 1), repeat=n_rows):
                        for trailing in (True, False):
                            for pad in (False, True):
                                rows = []
                                for i, k in enumerate(ks):
                                    rows.append([" " if pad and i % 2 == 0 else "",
                                                 [f"a{i}{j}" for j in range(n_pre)],
                                                 [f"p{i}{j}" for j in range(k)],
                                                 [f"b{i}{j}" for j in range(n_post)],
                                                 "\t " if pad else ""])
                                docs.append(dict(hpadL="", cols=cols, hpadR=" " if pad else "", dd=dd, rows=rows,
                                                 trailing=trailing, sepC="\t", sepP=":", layout="sweep"))
    for i in range(0, len(docs), 4000):
        eval_docs(chk, docs[i:i + 4000], cli=(i == 0), tmpdir=tmpdir)
    return len(docs)


def sweep_raw(chk, max_len):
    toks = ["\t", "\n", "a", " ", "Proteins", "DefaultDirection"]
    cases = []
    for n in range(max_len + 1):
        for tup in itertools.product(toks, repeat=n):
            cases.append(("".join(tup), "\t", ":"))
    for i in range(0, len(cases), 20000):
        eval_raw(chk, cases[i:i + 20000], family="sweep-raw")
    return len(cases)


def sweep_convert_line(chk, nmax):
    """convert_line_pin_to_tsv vs model (all shapes, also fewer fields than columns) and vs spec"""
    from mokapot.parsers.pin_to_tsv import convert_line_pin_to_tsv

    cases = []
    for n_fields in range(1, nmax + 1):
        for n_col in range(1, nmax + 1):
            for idx in range(n_col):
                cases.append(([f"f{i}" for i in range(n_fields)], idx, n_col))
    resp = common.driver_batch([req("convfields", ":", fs, idx, n_col) for fs, idx, n_col in cases])
    for (fs, idx, n_col), r in zip(cases, resp):
        model = deep(a_str, dec(r))
        model = model if isinstance(model, list) else [model]
        got = convert_line_pin_to_tsv("\t".join(fs), idx_protein_col=idx, n_col=n_col).split("\t")
        chk.case(None, ("convert_line", len(fs), idx, n_col))
        chk.count("convert_line", "surplus" if len(fs) > n_col else ("exact" if len(fs) == n_col else "short"))
        info = dict(fields=fs, idx=idx, n_col=n_col)
        if len(fs) >= n_col:
            k = len(fs) - n_col + 1
            want = fs[:idx] + [":".join(fs[idx:idx + k])] + fs[idx + k:]
            if got != want:
                chk.spec_violation("convert-line-spec", dict(info, impl=got, expected=want,
                                                             clause="row != pre ++ [join proteins] ++ post"))
                continue
        if got != model:
            chk.corr_break("convfields", dict(info, impl=got, model=model))
    return len(cases)


def check_isspace(chk):
    """the model's whitespace set is CPython's (str.isspace / str.strip)"""
    ws = [int(x) for x in dec(common.driver_batch(["pyspaces"])[0])]
    py = [i for i in range(0x110000) if chr(i).isspace()]
    strip = [i for i in range(0x110000) if not (0xD800 <= i <= 0xDFFF) and ("a" + chr(i)).strip() == "a"]
    chk.case(None, ("isspace-table",))
    if ws != py or ws != strip:
        chk.corr_break("pyspaces", dict(model=ws, impl=py, impl_strip=strip))


# ----------------------------------------------------------------------------
# corpus, shrinking, replay
# ----------------------------------------------------------------------------
def jsonable(d):
    return dict(d)


def corpus_docs():
    p = common.VERIF / "harness" / "corpus" / "C19.json"
    if p.exists():
        return json.loads(p.read_text())
    return []


def minimise(chk):
    """shrink the first document-level violation: drop rows, then proteins, then padding"""
    if not chk.spec_violations:
        return
    sig, info = chk.spec_violations[0]
    if "case" not in info or "rows" not in info["case"]:
        return
    d0 = info["case"]

    def fails_doc(d):
        sub = common.Check(chk.prop, chk.tier, chk.seed)
        try:
            eval_docs(sub, [d])
        except Exception:
            return False
        return any(s == sig for s, _ in sub.spec_violations)

    min_rows = 0 if d0["dd"] is not None else 1
    rows = common.shrink_list(d0["rows"], lambda rs: fails_doc(dict(d0, rows=rs)), min_len=min_rows)
    d = dict(d0, rows=rows)
    for cand in (dict(d, hpadL="", hpadR="", rows=[["", r[1], r[2], r[3], ""] for r in d["rows"]]),
                 dict(d, dd=None) if d["rows"] else d,
                 dict(d, rows=[[r[0], r[1], r[2][:2], r[3], r[4]] for r in d["rows"]]),
                 dict(d, rows=[[r[0], r[1], r[2][:1], r[3], r[4]] for r in d["rows"]])):
        if cand != d and fails_doc(cand):
            d = cand
    sub = common.Check(chk.prop, chk.tier, chk.seed)
    eval_docs(sub, [d])
    for s, i in sub.spec_violations:
        if s == sig:
            chk.spec_violations[0] = (s, dict(i, shrunk_from_rows=len(d0["rows"])))
            break


def search(chk):
    """failing-input search used when a proof or the correspondence is broken"""
    rng = chk.rng
    tmpdir = tempfile.mkdtemp(prefix="c19-")
    try:
        eval_docs(chk, [gen_doc(rng, big=(i % 4 == 0)) for i in range(4000)], cli=True, tmpdir=tmpdir)
        eval_raw(chk, [gen_raw(rng) for _ in range(20000)])
        if not chk.spec_violations:
            sweep_docs(chk, 2, 2, 3, tmpdir)
            sweep_raw(chk, 6)
            sweep_convert_line(chk, 8)
    finally:
        shutil.rmtree(tmpdir, ignore_errors=True)
    minimise(chk)


def main(chk, args):
    build = common.build_and_audit("C19")
    if not build.driver_ok:
        chk.finish(build, RULE)
    rng = chk.rng
    quick = chk.tier == "quick"
    tmpdir = tempfile.mkdtemp(prefix="c19-")
    try:
        check_isspace(chk)
        docs = corpus_docs()
        docs += [gen_doc(rng, big=(i % 10 == 0)) for i in range(1500 if quick else 60000)]
        for i in range(0, len(docs), 2000):
            eval_docs(chk, docs[i:i + 2000], cli=(i < 4000), tmpdir=tmpdir)
        raws = [gen_raw(rng) for _ in range(6000 if quick else 200000)]
        for i in range(0, len(raws), 20000):
            eval_raw(chk, raws[i:i + 20000])
        if quick:
            n1 = sweep_docs(chk, 1, 2, 2, tmpdir)
            n2 = sweep_raw(chk, 4)
            n3 = sweep_convert_line(chk, 6)
        else:
            n1 = sweep_docs(chk, 2, 3, 3, tmpdir)
            n2 = sweep_raw(chk, 7)
            n3 = sweep_convert_line(chk, 10)
        chk.extra["exhaustive_sweep"] = (
            f"{n1} documents (all layouts/rows/protein counts/DD/trailing/padding in the small scope), "
            f"{n2} token strings, {n3} convert_line shapes")
    finally:
        shutil.rmtree(tmpdir, ignore_errors=True)
    minimise(chk)
    lc = common.leanchecker("C19") if chk.tier == "thorough" else None
    chk.assumptions += [
        "CPython str.split/join/strip/startswith, list slicing and StringIO line iteration behave as modelled "
        "(split on '\\n' only; the whitespace table is compared with str.isspace/str.strip for every code point)",
        "the column separator is a single character; text is valid Unicode without surrogates",
        "theorem hypotheses (PinDoc.wf): fields contain no separator/newline, the first and last field of every "
        "line start/end with a non-whitespace character, >= 1 protein per row, the line after the header that is "
        "taken as first PSM row does not start with 'DefaultDirection'; outside them (short rows, empty edge "
        "fields, header-only files, two DefaultDirection-like lines) only implementation = model is checked",
        "CLI verify step: files are read in text mode (universal newlines), so cases with '\\r' are excluded there; "
        "a stale <pin>.tsv (append mode, finding D7 of C09) is not part of this property",
    ]
    chk.finish(build, RULE, search=search, lc=lc,
               trusted_extra=["CPython str/list/StringIO primitives", "argparse/logging part of mokapot.mokapot.main "
                              "executed before the verify step; read_pin replaced by a sentinel"])


def replay(chk, path):
    info = json.loads(open(path).read())
    common.build_and_audit("C19")
    if "case" in info and isinstance(info["case"], dict) and "rows" in info["case"]:
        tmpdir = tempfile.mkdtemp(prefix="c19-")
        try:
            eval_docs(chk, [info["case"]], cli=True, tmpdir=tmpdir)
        finally:
            shutil.rmtree(tmpdir, ignore_errors=True)
    elif "input" in info and "sepC" in info:
        eval_raw(chk, [(info["input"], info["sepC"], info.get("sepP", ":"))])
    elif "fields" in info:
        from mokapot.parsers.pin_to_tsv import convert_line_pin_to_tsv
        got = convert_line_pin_to_tsv("\t".join(info["fields"]), idx_protein_col=info["idx"], n_col=info["n_col"])
        print("impl:", got.split("\t"), "expected:", info.get("expected"))
        return 1 if got.split("\t") != info.get("expected") else 0
    else:
        print(json.dumps(info, indent=1)[:3000])
        return 0
    for sig, i in chk.spec_violations:
        print("REPRODUCED", sig, json.dumps(i, default=str)[:1500])
    return 1 if chk.spec_violations else 0
