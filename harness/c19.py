"""C19 — PIN -> rectangular TSV conversion is lossless, order-preserving and idempotent
(correspondence harness).

Observed at the public functions `mokapot.parsers.pin_to_tsv.pin_to_valid_tsv` / `is_valid_tsv`
(on `StringIO` objects), `convert_line_pin_to_tsv` (small-scope sweep) and the verify step of the
CLI (`mokapot.mokapot.main`, stopped right after the step by a sentinel in place of `read_pin`).

Three families of cases:
  * documents  — abstract well-formed PIN documents (header columns, optional DefaultDirection line,
                 rows = fields before / proteins / fields after the protein column, whitespace padding,
                 trailing newline or not) rendered to text; implementation vs. SPEC (expected table,
                 output valid, idempotent, validity criterion) vs. MODEL;
  * raw texts  — arbitrary token soups (also malformed: short rows, no Proteins column, header only,
                 several DefaultDirection lines); implementation vs. MODEL, validity criterion as SPEC;
                 refusals (StopIteration / AssertionError) are tallied and must agree with the model;
  * verify step — files on disk through the real CLI code.

Extension (stored files and further entry points of the anchored code):
  * `parse_pin_header_columns` called directly (padded headers, default / explicit separator);
  * the command line tool `mokapot.parsers.pin_to_tsv.main()` (sys.argv patched): input file stored with
    "\n" / "\r\n" / "\r" line ends, `--sep_column` / `--sep_protein` given or left to their defaults,
    output file absent / empty / holding old content;
  * the CLI verify step with 1..4 PSM files in one call and the `--verify_pin` option (absent, on, off),
    files stored with any of the three line ends (also with carriage returns inside: model only).

Second extension (GAPS-C19.md, "Second pass"):
  * every call of `pin_to_valid_tsv` writes into a recording object: the sequence of `write` calls (also the
    ones made before an exception) is compared with the model `pinToTsvWrites`; the public functions are called
    by keyword, positionally and with their defaults omitted;
  * document-level validity: `is_valid_tsv` on a document vs "no DefaultDirection line and one protein per row"
    computed from the document; losslessness read backwards (protein column of the output split again);
  * what is on disk when the command line tool / the CLI verify step raise (output file, PIN file, `<pin>.tsv`),
    next to a stale `<pin>.tsv`;
  * size: documents whose only ragged row comes late (after 300 / 4 200 lines; thorough: up to 66 000), rows with thousands of
    proteins, fields longer than 64 KiB, hundreds of columns; line-break-like characters inside fields;
  * `convert_line_pin_to_tsv` called directly with other separators, positionally, on fields holding the other
    separator characters.

Third extension (GAPS-C19.md, "Third pass"; /repo 750c44b replaced `str.strip()` by `rstrip("\\r\\n")`, finding D49):
  * empty and blank fields at every position of a line, also first and last; carriage returns before the line end are
    the only "padding"; a regression to whitespace stripping is the spec violation `edge-field-lost`;
  * csv-dialect characters and quote spans in fields (seeded C19e); exceptions other than StopIteration/AssertionError
    of the functions under test are results (`raised-<Type>`), not harness crashes;
  * the line normalisation on arbitrary lines: model `chomp` vs `str.rstrip("\\r\\n")`, first write of
    `pin_to_valid_tsv` vs `rewriteLine`;
  * a valid, plainly stored document is reported valid and converted to itself (`C19_valid_input_unchanged`).
"""
from __future__ import annotations

import io
import itertools
import json
import os
import shutil
import tempfile

import common
from common import a_bool, a_str, deep, dec, req

RULE = (
    "cases = (a) well-formed PIN documents: 0..6 columns before and after the Proteins column (first, middle, "
    "last, duplicated name), 0..8 rows with 1..5 proteins each, optional DefaultDirection line, whitespace "
    "padding of any line, trailing newline or not, column separator in {tab , ; space}, protein separator in "
    "{: ; | :: empty}; (b) raw token soups incl. malformed files; (c) files through the CLI verify step; "
    "distinct = distinct (layout, protein counts per row, DefaultDirection, padding pattern, trailing newline, "
    "separators) resp. distinct raw text; non-trivial = some row with >= 2 proteins, or a DefaultDirection "
    "line, or padding (documents) / text with >= 2 lines (raw); thorough adds the exhaustive sweeps: all "
    "layouts with <=2 columns on either side x <=3 rows x <=3 proteins x DD x trailing newline x padding, all token "
    "strings of length <= 7 over {tab, newline, a, space, Proteins, DefaultDirection}, and "
    "convert_line_pin_to_tsv for all (fields <= 10, n_col <= 10, idx < n_col); extension: (d) every document "
    "also stored as a file with line ends in {LF, CRLF, CR} and converted by the command line tool "
    "pin_to_tsv.main() with/without --sep_column/--sep_protein and an absent/empty/non-empty output file, its "
    "header line given to parse_pin_header_columns; (e) groups of 1..4 files (documents and raw texts) through "
    "one call of the CLI verify step with --verify_pin absent/on/off; second extension: (f) every call of "
    "pin_to_valid_tsv writes into a recording object (sequence of write() calls, also before an exception, vs the "
    "model), public functions called by keyword / by position / with defaults omitted; (g) is_valid_tsv on a document "
    "vs 'no DefaultDirection line and one protein per row' computed from the document, protein column of the output "
    "split again vs the PIN fields; (h) files and <pin>.tsv on disk after the tool / the CLI step also when they raise, "
    "next to a stale <pin>.tsv; (i) documents whose only ragged row comes after 300 / 4 200 lines (thorough: up to "
    "66 000), long rectangular documents, rows with 3 000 proteins, a field of 70 000 characters, 600 columns "
    "(thorough: 20 000 proteins, 1.1 M characters, 5 000 columns); line-break-like characters (VT, FS, RS, NEL, "
    "U+2028) inside fields; (j) convert_line_pin_to_tsv called directly with other separators, positionally, on "
    "fields holding the other separator characters; third pass (after fix D49, rstrip(\"\\r\\n\") instead of strip()): "
    "(k) fields may be EMPTY or BLANK at every position incl. the first and last field of a line (25 % of the documents "
    "get such edges explicitly; the exhaustive sweep has an empty-first-field and an empty/blank-last-field variant of "
    "every document), lines end with 0..2 carriage returns instead of whitespace padding; (l) csv-dialect characters in "
    "fields (double/single quote, backslash, comma, blanks, tab-free control characters), quote forms (opened and never "
    "closed, doubled, escaped) and quote spans over several fields of a row; (m) the line normalisation itself: model "
    "chomp vs str.rstrip and the first write of pin_to_valid_tsv on ~800 arbitrary first lines (blank/tab/CR edges) vs "
    "the model; (n) a valid, plainly stored document must be converted to itself"
)

PADS = ["\r"]   # all that rstrip("\r\n") removes besides the newline (third pass: the code no longer strips blanks)
FIELD_CHARS = list("abcXYZ019|._-:;, ") + ["é", "β", " ", "中", "\U0001f600", "\r",
                                          "\x0b", "\x1c", "\x1e", "\x85", "\u2028",  # str.splitlines() breaks at these
                                          '"', "'", "\\", '"', " ", "\t", "\x0c", "\xa0"]  # csv dialect characters, blanks
# third pass: shapes of a field a csv-dialect aware reader treats specially (quotes that open and never close,
# doubled quotes, escapes, blanks at either end) — see seeded/C19e
QUOTE_FORMS = ['"{}', '{}"', '"{}"', "'{}", "{}'", '""{}', '"{}""', "\\{}", "{}\\", '"', '""', " {}", "{} ", " {} ",
               '" {}', '{},"', '"{},']
NAMES = ["SpecId", "Label", "ScanNr", "ExpMass", "f1", "f2", "lnrSp", "Peptide", "Charge 2", "Proteins"]


# ----------------------------------------------------------------------------
# the real code
# ----------------------------------------------------------------------------
class _Recorder:
    """an output object that only records the `write` calls (all the real function uses)"""

    def __init__(self):
        self.writes = []

    def write(self, x):
        self.writes.append(x)
        return len(x)


CALL_STYLES = ["kw", "kw", "pos", "default"]
UNFOLD_LEAN_ROWS = 60      # larger documents: `unfold_text` (python) only, it has been validated on the small ones
FS_MODEL_CHARS = 150000    # stored files larger than this: the on-disk state is compared with the spec only


def impl_convert_w(text, sep_c, sep_p, style="kw"):
    """-> (result as before, list of the strings written until the function returned or raised)"""
    from mokapot.parsers.pin_to_tsv import pin_to_valid_tsv

    out = _Recorder()
    fin = io.StringIO(text)
    try:
        if style == "default" and sep_c == "\t" and sep_p == ":":
            pin_to_valid_tsv(fin, out)
        elif style == "pos":
            pin_to_valid_tsv(fin, out, sep_c, sep_p)
        else:
            pin_to_valid_tsv(fin, out, sep_column=sep_c, sep_protein=sep_p)
    except StopIteration:
        return "reject-stop", out.writes
    except AssertionError:
        return "reject-assert", out.writes
    except Exception as e:  # noqa: BLE001 — any other exception is a behaviour of the code under test, not of the harness
        return "raised-" + type(e).__name__, out.writes
    return ("ok", "".join(out.writes)), out.writes


def impl_convert(text, sep_c, sep_p, style="kw"):
    return impl_convert_w(text, sep_c, sep_p, style)[0]


def impl_valid(text, sep_c, style="kw"):
    from mokapot.parsers.pin_to_tsv import is_valid_tsv

    try:
        if style == "default" and sep_c == "\t":
            return bool(is_valid_tsv(io.StringIO(text)))
        if style == "pos":
            return bool(is_valid_tsv(io.StringIO(text), sep_c))
        return bool(is_valid_tsv(io.StringIO(text), sep_column=sep_c))
    except StopIteration:
        return "reject-stop"
    except Exception as e:  # noqa: BLE001 — see impl_convert_w
        return "raised-" + type(e).__name__


def compare_writes(chk, info, got, writes, r):
    """the sequence of write() calls vs the model `pinToTsvWrites` (only called when the implementation's result
    equals the model's `pin2tsv`, so for a call that returned the concatenation is known to agree: the lengths of
    the single writes are compared; for a call that raised also what had been written)"""
    v = dec(r)
    m_len = [int(x) for x in (v[0] if isinstance(v[0], list) else [v[0]])]
    m_err, m_text = v[1], a_str(v[2])
    err = got if isinstance(got, str) else "none"
    chk.count("writes", ("raised-after-%d" % len(writes)) if isinstance(got, str) else "returned")
    impl = [[len(w) for w in writes], err, "" if err == "none" else "".join(writes)]
    if impl != [m_len, m_err, m_text]:
        chk.corr_break("pin2tsvwrites", dict(info, impl=impl, model=[m_len, m_err, m_text],
                                             impl_writes=writes[:5]))


class _StopAfterVerify(Exception):
    pass


def impl_cli_verify(text, tmpdir, k):
    """write `text` to a file, run the real CLI up to (and including) the verify step, read it back"""
    import mokapot.mokapot as M

    def stop(*a, **kw):
        raise _StopAfterVerify()

    path = os.path.join(tmpdir, f"case{k}.pin")
    with open(path, "w", newline="", encoding="utf-8") as f:
        f.write(text)
    saved = M.read_pin
    M.read_pin = stop
    try:
        M.main([path, "--dest_dir", tmpdir, "--verbosity", "0"])
        return "no-stop"
    except _StopAfterVerify:
        with open(path, "r", newline="", encoding="utf-8") as f:
            return ("ok", f.read())
    except StopIteration:
        return "reject-stop"
    except AssertionError:
        return "reject-assert"
    finally:
        M.read_pin = saved
        for fn in (path, path + ".tsv"):
            if os.path.exists(fn):
                os.unlink(fn)


def impl_header_cols(header, sep_c, default_sep):
    from mokapot.parsers.pin_to_tsv import parse_pin_header_columns

    try:
        if default_sep:
            n, i = parse_pin_header_columns(header)
        else:
            n, i = parse_pin_header_columns(header, sep_column=sep_c)
    except AssertionError:
        return "reject-assert"
    return [int(n), int(i)]


def _write_raw(path, raw):
    with open(path, "w", newline="", encoding="utf-8") as f:
        f.write(raw)


def _read_raw(path):
    with open(path, "r", newline="", encoding="utf-8") as f:
        return f.read()


def impl_tool_main_fs(raw, opt_c, opt_p, old, tmpdir, k):
    """the command line tool of pin_to_tsv.py: `main()` with sys.argv = path_in path_out [--sep_column c]
    [--sep_protein p]; `old` = previous content of the output file (None: the file does not exist).
    -> (status 'ok' | 'reject-…', content of the output file afterwards or None when it does not exist)"""
    import sys
    import mokapot.parsers.pin_to_tsv as T

    p_in = os.path.join(tmpdir, f"tool{k}.pin")
    p_out = os.path.join(tmpdir, f"tool{k}.out.tsv")
    _write_raw(p_in, raw)
    if old is not None:
        _write_raw(p_out, old)
    argv = ["pin_to_tsv", p_in, p_out]
    if opt_c is not None:
        argv += ["--sep_column", opt_c]
    if opt_p is not None:
        argv += ["--sep_protein", opt_p]
    saved = sys.argv
    sys.argv = argv
    status = "ok"
    try:
        try:
            T.main()
        except StopIteration:
            status = "reject-stop"
        except AssertionError:
            status = "reject-assert"
        return status, (_read_raw(p_out) if os.path.exists(p_out) else None)
    finally:
        sys.argv = saved
        for fn in (p_in, p_out):
            if os.path.exists(fn):
                os.unlink(fn)


def tool_result(fs):
    """the result form of the first extension: ("ok", content) or the refusal"""
    return ("ok", fs[1]) if fs[0] == "ok" else fs[0]


def impl_tool_main(raw, opt_c, opt_p, old, tmpdir, k):
    return tool_result(impl_tool_main_fs(raw, opt_c, opt_p, old, tmpdir, k))


def compare_tool_fs(chk, info, fs, r):
    """output file of the tool afterwards (also when it raised) vs `toolMainFs`"""
    v = dec(r)
    model = [a_str(v[0]), "ok" if v[1] == "none" else v[1]]
    chk.count("tool-fs", fs[0] if fs[0] != "ok" else "returned")
    if [fs[1], fs[0]] != model:
        chk.corr_break("toolmainfs", dict(info, impl=[fs[1], fs[0]], model=model))


def impl_cli_verify_fs(raws, flag, tmpdir, k, stales=None):
    """several PSM files through ONE call of the real CLI, stopped right after the verify step;
    flag: None = option absent, otherwise the value given to --verify_pin (argparse type=bool: "" is off);
    stales[j]: content of a `<pin>.tsv` that exists before the call (None: absent).
    -> (status 'ok' | 'reject-…' | 'no-stop', [content of every PIN file], [content of every <pin>.tsv or None])"""
    import mokapot.mokapot as M

    def stop(*a, **kw):
        raise _StopAfterVerify()

    stales = list(stales) if stales is not None else [None] * len(raws)
    paths = [os.path.join(tmpdir, f"multi{k}_{j}.pin") for j in range(len(raws))]
    for pth, raw, st in zip(paths, raws, stales):
        _write_raw(pth, raw)
        if st is not None:
            _write_raw(pth + ".tsv", st)
    argv = list(paths) + ["--dest_dir", tmpdir, "--verbosity", "0"]
    if flag is not None:
        argv += ["--verify_pin", flag]
    saved = M.read_pin
    M.read_pin = stop
    status = "no-stop"
    try:
        try:
            M.main(argv)
        except _StopAfterVerify:
            status = "ok"
        except StopIteration:
            status = "reject-stop"
        except AssertionError:
            status = "reject-assert"
        return (status, [_read_raw(pth) if os.path.exists(pth) else None for pth in paths],
                [_read_raw(pth + ".tsv") if os.path.exists(pth + ".tsv") else None for pth in paths])
    finally:
        M.read_pin = saved
        for pth in paths:
            for fn in (pth, pth + ".tsv"):
                if os.path.exists(fn):
                    os.unlink(fn)


def cli_result(fs):
    """the result form of the first extension"""
    return ("ok", fs[1]) if fs[0] == "ok" else fs[0]


def impl_cli_verify_files(raws, flag, tmpdir, k):
    return cli_result(impl_cli_verify_fs(raws, flag, tmpdir, k))


def _mkdtemp():
    """scratch directory for the stored files; a memory file system when there is one (thousands of small files
    are created and removed)"""
    shm = "/dev/shm"
    if os.path.isdir(shm) and os.access(shm, os.W_OK | os.X_OK):
        try:
            return tempfile.mkdtemp(prefix="c19-", dir=shm)
        except OSError:
            pass
    return tempfile.mkdtemp(prefix="c19-")


def py_univnl(raw):
    """CPython's universal-newline reading of the stored characters (no file involved)"""
    return io.TextIOWrapper(io.BytesIO(raw.encode("utf-8")), encoding="utf-8", newline=None).read()


# ----------------------------------------------------------------------------
# documents
# ----------------------------------------------------------------------------
def rand_field(rng, sep_c, edge=False, allow_empty=True):
    """a field: any characters but the column separator and the newline; EMPTY and BLANK fields, blanks at either end
    are generated at every position of a line (third pass), `edge=True` (header names) only makes them rarer"""
    chars = [c for c in FIELD_CHARS if c != sep_c]
    n = rng.choice([0, 1, 1, 2, 3, 5, 9]) if (allow_empty and (not edge or rng.random() < 0.3)) \
        else rng.choice([1, 1, 2, 3, 5, 9])
    s = "".join(rng.choice(chars) for _ in range(n))
    if rng.random() < 0.12:
        s = rng.choice(QUOTE_FORMS).replace("{}", s).replace(sep_c, "")
    return s


def rand_pad(rng, p, left=False):
    """what may stand between the last field and the newline: carriage returns (nothing before the first field)"""
    if left or rng.random() >= p:
        return ""
    return "\r" * rng.choice([1, 1, 1, 2])


def fix_edges(rng, fields, sep_c):
    """the last field of a line must not end with a carriage return (it would be taken for the line terminator);
    nothing else is required of the first and last field: they may be empty or blank"""
    f = list(fields)
    if f[-1].endswith("\r"):
        f[-1] = f[-1] + rng.choice(["a", " ", '"', "\x0c"])
    return f


def quote_span(rng, rows, sep_c):
    """csv-style quoting across fields (the shape of seeded C19e): some field of a row starts with a double quote and
    a LATER field of the same row — or of a later row — ends with one, so that a quote-aware reader swallows the
    separators (and newlines) in between"""
    for r in rows:
        if rng.random() < 0.5:
            fs = [(1, i) for i in range(len(r[1]))] + [(2, i) for i in range(len(r[2]))] + [(3, i) for i in range(len(r[3]))]
            if rng.random() < 0.6 and len(r[2]) >= 2:
                a, b = (2, 0), (2, len(r[2]) - 1)
            else:
                a = rng.choice(fs)
                b = rng.choice(fs[fs.index(a):])
            r[a[0]][a[1]] = '"' + r[a[0]][a[1]]
            if rng.random() < 0.8:
                r[b[0]][b[1]] = r[b[0]][b[1]] + '"'


def gen_doc(rng, big=False, n_rows_forced=None):
    sep_c = rng.choice(["\t"] * 6 + [",", ";", " "])
    sep_p = rng.choice([":"] * 5 + [";", "|", "::", "", ": "])
    if sep_c in sep_p:
        sep_p = ":"
    layout = rng.choice(["last", "last", "middle", "middle", "first", "only", "dup"])
    hi = 6 if not big else 12
    if layout == "last":
        n_pre, n_post = rng.randint(0, hi), 0
    elif layout == "first":
        n_pre, n_post = 0, rng.randint(1, hi)
    elif layout == "only":
        n_pre, n_post = 0, 0
    else:
        n_pre, n_post = rng.randint(1, hi), rng.randint(1, hi)
    pool = [n for n in NAMES if n != "Proteins" and sep_c not in n]
    pre_names = [rng.choice(pool) if rng.random() < 0.7 else rand_field(rng, sep_c, edge=True) for _ in range(n_pre)]
    post_names = [rng.choice(pool) if rng.random() < 0.7 else rand_field(rng, sep_c, edge=True) for _ in range(n_post)]
    pre_names = [x for x in pre_names]
    # "Proteins" must not occur before the intended index (first occurrence wins in the code)
    pre_names = [x if x != "Proteins" else "Prot" for x in pre_names]
    if layout == "dup" and n_post:
        post_names[rng.randrange(n_post)] = "Proteins"
    cols = fix_edges(rng, pre_names + ["Proteins"] + post_names, sep_c)
    if cols[n_pre] != "Proteins":  # cannot happen: "Proteins" has good edges
        raise AssertionError
    pad_p = rng.choice([0.0, 0.0, 0.3, 0.8])
    n_rows = rng.choice([1, 1, 2, 3, 4, 8]) if not big else rng.randint(1, 40)
    dd = None
    if rng.random() < 0.4:
        tail = "".join(sep_c + rng.choice(["-", "0.5", "1", ""]) for _ in range(rng.randint(0, n_pre + n_post + 2)))
        dd = "DefaultDirection" + rng.choice(["", "", "s", " x"]) + tail
        if dd.endswith("\r"):
            dd += "-"
        dd += rand_pad(rng, pad_p)
        if rng.random() < 0.15:
            n_rows = 0
    if n_rows_forced is not None:
        n_rows = n_rows_forced
    rows = []
    kmax = rng.choice([1, 2, 3, 5]) if not big else 12
    for _ in range(n_rows):
        pre = [rand_field(rng, sep_c) for _ in range(n_pre)]
        k = rng.randint(1, kmax)
        prots = [rand_field(rng, sep_c, allow_empty=rng.random() < 0.2) for _ in range(k)]
        post = [rand_field(rng, sep_c) for _ in range(n_post)]
        fs = fix_edges(rng, pre + prots + post, sep_c)
        pre, prots, post = fs[:n_pre], fs[n_pre:n_pre + k], fs[n_pre + k:]
        rows.append(["", pre, prots, post, rand_pad(rng, pad_p)])
    if rows and rng.random() < 0.15:
        quote_span(rng, rows, sep_c)
        for r in rows:
            fs = fix_edges(rng, r[1] + r[2] + r[3], sep_c)
            r[1], r[2], r[3] = fs[:n_pre], fs[n_pre:len(fs) - n_post], fs[len(fs) - n_post:]
    if rows and rng.random() < 0.25:
        # third pass: empty / blank FIRST and LAST fields of a line, explicitly (the shapes str.strip() destroyed)
        for r in rows:
            if rng.random() < 0.6:
                which = rng.choice(["first", "last", "both"])
                fs = r[1] + r[2] + r[3]
                if which in ("first", "both"):
                    fs[0] = rng.choice(["", "", " ", "\x0c", " a", "\xa0"])
                if which in ("last", "both"):
                    fs[-1] = rng.choice(["", "", " ", "\x0c", "a ", "\xa0", "b\x0b"])
                r[1], r[2], r[3] = fs[:n_pre], fs[n_pre:len(fs) - n_post], fs[len(fs) - n_post:]
    if rows and rng.random() < 0.02:
        # a PSM id that looks like a DefaultDirection line: outside the hypotheses (see eval_docs)
        if n_pre:
            rows[0][1][0] = "DefaultDirection_" + rows[0][1][0]
        else:
            rows[0][2][0] = "DefaultDirection_" + rows[0][2][0]
        rows[0][1:4] = [x for x in (lambda fs: (fs[:n_pre], fs[n_pre:len(fs) - n_post], fs[len(fs) - n_post:]))(
            fix_edges(rng, rows[0][1] + rows[0][2] + rows[0][3], sep_c))]
    doc = dict(hpadL="", cols=cols, hpadR=rand_pad(rng, pad_p), dd=dd, rows=rows,
               trailing=rng.random() < 0.6, sepC=sep_c, sepP=sep_p, layout=layout)
    # how the document is stored / given to the file entry points (kept in the document: replayable)
    doc["term"] = rng.choice(TERMS)
    doc["tool"] = dict(pass_c=(sep_c != "\t" or rng.random() < 0.5), pass_p=(sep_p != ":" or rng.random() < 0.5),
                       old=rng.choice([None, None, "", "old\tcontent\nof an earlier run\n"]))
    doc["hdr_default"] = sep_c == "\t" and rng.random() < 0.5
    doc["keep_cr"] = rng.random() < 0.25
    # second extension: how the public functions are called, a stale <pin>.tsv next to the stored file
    doc["call"] = rng.choice(CALL_STYLES)
    doc["stale"] = rng.choice([None, None, None, "", "STALE\tleft over\nby an interrupted run\n"])
    return doc


# long documents whose number of lines sits at and around round numbers (block / buffer sizes a writer might use)
LONG_SIZES = [255, 256, 257, 999, 1000, 1001, 1999, 2000, 4095, 4096, 4097, 9999]


def gen_long_docs(rng, sizes=LONG_SIZES):
    return [gen_doc(rng, big=False, n_rows_forced=n) for n in sizes]


def gen_shape_docs(rng, quick=True):
    """second extension — sizes no random document reaches (all tab / ":" so that they also go through the CLI):
      late:   compact documents that are rectangular except for ONE row with several proteins which comes last
              (or last but one), after 300 / 4 200 lines (thorough: up to 66 000) — a validity test that only samples the beginning of a
              file, or a converter that treats the tail differently, is only seen here;
      rect:   long rectangular documents (valid: must be left alone), with and without a late DefaultDirection-like id;
      wide:   one row with thousands of proteins, one field longer than 64 KiB, hundreds of columns."""
    def base(n_pre, n_post, rows, dd=None, layout="shape"):
        cols = [f"c{i}" for i in range(n_pre)] + ["Proteins"] + [f"d{i}" for i in range(n_post)]
        return dict(hpadL="", cols=cols, hpadR="", dd=dd, rows=rows, trailing=rng.random() < 0.5, sepC="\t", sepP=":",
                    layout=layout, term=rng.choice(TERMS), tool=dict(pass_c=rng.random() < 0.5, pass_p=rng.random() < 0.5,
                                                                       old=rng.choice([None, "", "old\n"])),
                    hdr_default=rng.random() < 0.5, keep_cr=False, call=rng.choice(CALL_STYLES),
                    stale=rng.choice([None, None, "stale\n"]))

    def row(i, n_pre, n_post, k, flen=2):
        tok = lambda: "".join(rng.choice("abcXYZ019|._-") for _ in range(rng.randint(1, flen)))
        return ["", [f"{i}{tok()}" for _ in range(n_pre)], [f"P{tok()}" for _ in range(k)],
                [f"{tok()}x" for _ in range(n_post)], ""]

    docs = []
    for n, back in ([(300, 0), (4200, 0)] if quick else
                    [(130, 0), (1001, 0), (1025, 1), (1500, 0), (4097, 0), (4100, 3), (8193, 0), (12000, 0), (12000, 1),
                     (20001, 0), (66000, 0)]):
        n_pre, n_post = rng.choice([(1, 0), (0, 1), (2, 1), (0, 0)])
        rows = [row(i, n_pre, n_post, 1) for i in range(n)]
        rows[n - 1 - back] = row(n - 1 - back, n_pre, n_post, rng.choice([2, 3]))
        docs.append(base(n_pre, n_post, rows, layout="late-ragged"))
    for n in ([1200] if quick else [1000, 2500, 4096, 10000, 30000]):
        n_pre, n_post = rng.choice([(1, 0), (1, 1), (2, 0)])
        docs.append(base(n_pre, n_post, [row(i, n_pre, n_post, 1) for i in range(n)], layout="long-rectangular"))
    # wide rows / long fields / many columns
    ks = [3000] if quick else [300, 3000, 20000]
    for k in ks:
        n_pre, n_post = rng.choice([(1, 1), (0, 2), (2, 0)])
        rows = [row(0, n_pre, n_post, 1), row(1, n_pre, n_post, k, flen=6), row(2, n_pre, n_post, 2)]
        docs.append(base(n_pre, n_post, rows, dd=rng.choice([None, "DefaultDirection\t-"]), layout="many-proteins"))
    for flen in ([70000] if quick else [8200, 70000, 1100000]):
        n_pre, n_post = 1, 1
        rows = [row(0, n_pre, n_post, 2), row(1, n_pre, n_post, 2)]
        rows[1][rng.choice([1, 2, 3])][0] = "L" + "".join(rng.choice("abcXYZ019|._- ") for _ in range(flen)) + "e"
        docs.append(base(n_pre, n_post, rows, layout="long-field"))
    for nc in ([600] if quick else [70, 600, 5000]):
        n_pre, n_post = nc // 2, nc - nc // 2
        docs.append(base(n_pre, n_post, [row(i, n_pre, n_post, rng.choice([1, 2, 4])) for i in range(3)],
                         layout="many-columns"))
    return docs


TERMS = ["\n", "\n", "\r\n", "\r\n", "\r"]
TERM_NAME = {"\n": "LF", "\r\n": "CRLF", "\r": "CR"}


def doc_lines(d):
    s = d["sepC"]
    lines = [d["hpadL"] + s.join(d["cols"]) + d["hpadR"]]
    if d["dd"] is not None:
        lines.append(d["dd"])
    for padl, pre, prots, post, padr in d["rows"]:
        lines.append(padl + s.join(pre + prots + post) + padr)
    return lines


def no_cr_doc(d):
    f = lambda x: x.replace("\r", "\x0c")  # another control character, never a column separator here
    g = lambda x: x.replace("\r", "")      # carriage returns before the line end: dropped (the terminator is chosen by `term`)
    nd = dict(d, hpadL=g(d["hpadL"]), hpadR=g(d["hpadR"]), cols=[f(c) for c in d["cols"]],
              dd=None if d["dd"] is None else f(d["dd"].rstrip("\r")),
              rows=[[g(r[0]), [f(x) for x in r[1]], [f(x) for x in r[2]], [f(x) for x in r[3]], g(r[4])]
                    for r in d["rows"]])
    if not nd["trailing"] and doc_lines(nd)[-1] == "":
        nd["trailing"] = True   # an empty last line only exists when it is terminated (lastLineOk)
    return nd


def render_pin_t(d, term):
    """the characters stored in a file that holds the document with line terminator `term`"""
    return term.join(doc_lines(d)) + (term if d["trailing"] else "")


def doc_wire(d):
    return [d["hpadL"], d["cols"], d["hpadR"], None if d["dd"] is None else [d["dd"]], d["rows"], bool(d["trailing"])]


def render_pin(d):
    """python rendering of the document (independent of the Lean `renderPin`)"""
    s = d["sepC"]
    lines = [d["hpadL"] + s.join(d["cols"]) + d["hpadR"]]
    if d["dd"] is not None:
        lines.append(d["dd"])
    for padl, pre, prots, post, padr in d["rows"]:
        lines.append(padl + s.join(pre + prots + post) + padr)
    return "\n".join(lines) + ("\n" if d["trailing"] else "")


def expected_table(d):
    """direct re-statement of the specification"""
    return [list(d["cols"])] + [pre + [d["sepP"].join(prots)] + post for _, pre, prots, post, _ in d["rows"]]


def expected_text(d):
    return "".join(d["sepC"].join(r) + "\n" for r in expected_table(d))


def valid_criterion(text, sep_c):
    """direct re-statement of the validity criterion on the lines a file object yields"""
    lines = text.split("\n")
    lines = [l + "\n" for l in lines[:-1]] + ([lines[-1]] if lines[-1] else [])
    if len(lines) < 2:
        return "reject-stop"
    if lines[1].startswith("DefaultDirection"):
        return False
    return all(l.count(sep_c) == lines[0].count(sep_c) for l in lines[1:])


def doc_pads_free(d):
    s = d["sepC"]
    return s not in d["hpadL"] and s not in d["hpadR"] and all(s not in r[0] and s not in r[4] for r in d["rows"])


def doc_dd_plain(d):
    return d["dd"] is None or d["dd"].startswith("DefaultDirection")


def doc_valid_spec(d):
    """the validity clause of the statement, read off the document: no DefaultDirection line, all lines as many
    fields as the header (= one protein per row)"""
    return d["dd"] is None and all(len(r[2]) == 1 for r in d["rows"])


def doc_prots_free(d):
    p = d["sepP"]
    return len(p) == 1 and all(p not in x for r in d["rows"] for x in r[2])


def doc_plain(d):
    """stored plainly: no carriage return before a line end, last line terminated (`PinDoc.plain`)"""
    return not d["hpadR"] and all(not r[4] for r in d["rows"]) and bool(d["trailing"])


def doc_tsv_edge_ok(d):
    """no converted row ends with a carriage return (`tsvEdgeOk`): what the second conversion needs"""
    return all((pre + [d["sepP"].join(prots)] + post)[-1][-1:] != "\r" for _, pre, prots, post, _ in d["rows"])


def edge_sensitive_lines(d):
    """indices (in the OUTPUT) of the lines whose first field is empty / starts with a blank or whose last field is empty /
    ends with a blank: the lines a `str.strip()` in the converter would damage (finding D49)"""
    def sens(fs):
        return (not fs[0]) or fs[0][0].isspace() or (not fs[-1]) or fs[-1][-1].isspace()
    idx = [0] if sens(d["cols"]) else []
    return idx + [i + 1 for i, (_, pre, prots, post, _) in enumerate(d["rows"]) if sens(pre + prots + post)]


def unfold_text(text, sep_c, sep_p, idx):
    """the data rows of a rectangular text with the protein column split again at the protein separator"""
    rows = [l.split(sep_c) for l in text.split("\n")[1:-1]] if text.endswith("\n") else None
    if rows is None:
        return None
    return [r[:idx] + (r[idx].split(sep_p) if idx < len(r) else [""]) + r[idx + 1:] for r in rows]


def doc_key(d):
    pads = (bool(d["hpadL"] or d["hpadR"]), tuple(bool(r[0] or r[4]) for r in d["rows"]))
    return (len(d["cols"]), d["cols"].index("Proteins"), tuple(len(r[2]) for r in d["rows"]), d["dd"] is not None,
            pads, d["trailing"], d["sepC"], d["sepP"], d["cols"].count("Proteins"))


def doc_nontrivial(d):
    return any(len(r[2]) >= 2 for r in d["rows"]) or d["dd"] is not None or any(r[0] or r[4] for r in d["rows"])


def eval_docs(chk, docs, cli=False, tmpdir=None, files=0):
    """documents generated as well-formed: implementation vs spec vs model
    (files = n > 0: every n-th document also goes through the file entry points, see eval_files)"""
    lines = []
    for d in docs:
        text = render_pin(d)
        lines.append(req("spec-C19-all", d["sepC"], d["sepP"], doc_wire(d)))  # = spec-C19 ++ spec-C19-doc
        lines.append(req("pin2tsv", d["sepC"], d["sepP"], text))
        lines.append(req("validtsv", d["sepC"], text))
        lines.append(req("validspec", d["sepC"], text))
        lines.append(req("pin2tsvwrites", d["sepC"], d["sepP"], text))
        # the Lean unfolding of the expected text only validates the python restatement `unfold_text`: small documents
        lines.append(req("unfoldtable", d["sepC"], d["sepP"], d["cols"].index("Proteins"), expected_text(d))
                     if (doc_prots_free(d) and len(d["rows"]) <= UNFOLD_LEAN_ROWS) else req("validspec", "\t", ""))
        lines.append(req("spec-C19-edge", d["sepC"], d["sepP"], doc_wire(d)))
    resp = common.driver_batch(lines)
    later = []
    file_items = []
    NREQ = 7
    for k, d in enumerate(docs):
        text = render_pin(d)
        sp = dec(resp[NREQ * k])
        wf, sep_ok, first_ok = a_bool(sp[0]), a_bool(sp[1]), a_bool(sp[2])
        lean_pin, lean_exp = a_str(sp[3]), a_str(sp[4])
        lean_table = deep(a_str, sp[5])
        m_conv = resp[NREQ * k + 1].strip()
        m_conv = m_conv if m_conv.startswith("reject") else ("ok", a_str(m_conv))
        m_valid = resp[NREQ * k + 2].strip()
        m_valid = m_valid if m_valid.startswith("reject") else a_bool(m_valid)
        s_valid = a_bool(resp[NREQ * k + 3].strip())
        sd = [a_bool(x) for x in sp[6:12]]
        style = d.get("call", "kw")
        if lean_pin != text:
            raise RuntimeError(f"harness/driver rendering mismatch: {text!r} vs {lean_pin!r}")
        if not wf:
            # not inside the theorem's hypotheses (e.g. a PSM id that starts with DefaultDirection):
            # model correspondence only
            chk.count("doc-not-wf")
            eval_raw(chk, [(text, d["sepC"], d["sepP"])], family="doc-not-wf")
            continue
        exp = expected_text(d)
        if lean_exp != exp or lean_table != expected_table(d):
            raise RuntimeError(f"spec restatement mismatch (python vs Lean): {exp!r} vs {lean_exp!r}")
        jd = jsonable(d)
        # python restatements of the document-level predicates vs Lean
        if sd[:4] != [True, doc_pads_free(d), doc_dd_plain(d), doc_valid_spec(d)] or sd[5] != doc_prots_free(d):
            raise RuntimeError(f"document-level restatement mismatch (python vs Lean) on {text!r}: {sd}")
        # third pass: python restatements of the edge predicates vs Lean (tsvEdgeOk, plain, edgeSensitive)
        se = [a_bool(x) for x in dec(resp[NREQ * k + 6])]
        if se[:3] != [doc_tsv_edge_ok(d), doc_plain(d), bool(edge_sensitive_lines(d))]:
            raise RuntimeError(f"edge predicate restatement mismatch (python vs Lean) on {text!r}: {se}")
        got, writes = impl_convert_w(text, d["sepC"], d["sepP"], style)
        v_in = impl_valid(text, d["sepC"], style)
        chk.count("call-style", style if (style != "default" or (d["sepC"] == "\t" and d["sepP"] == ":")) else "kw")
        chk.case(None, doc_key(d) if doc_nontrivial(d) else None,
                 sample=dict(input=text, impl=got[1] if isinstance(got, tuple) else got, expected=exp,
                             impl_valid_input=v_in))
        chk.count("layout", d["layout"])
        chk.count("n_cols", len(d["cols"]))
        chk.count("n_rows", min(len(d["rows"]), 10))
        chk.count("max_proteins", max([len(r[2]) for r in d["rows"]] or [0]))
        chk.count("dd", d["dd"] is not None)
        chk.count("trailing_newline", d["trailing"])
        chk.count("padding", any(r[0] or r[4] for r in d["rows"]) or bool(d["hpadL"] or d["hpadR"]))
        es = edge_sensitive_lines(d)
        chk.count("edge-fields", "none" if not es else ("header" if es == [0] else "rows"))
        chk.count("csv-quote-chars", any(c in text for c in "\"'\\"))
        chk.count("sepC", repr(d["sepC"]))
        chk.count("sepP", repr(d["sepP"]))
        if not isinstance(got, tuple):
            chk.spec_violation("convert-raised", dict(case=jd, input=text, impl=got, expected=exp,
                                                      clause="conversion of a well-formed PIN raised"))
            continue
        out = got[1]
        bad = False
        if out != exp:
            bad = True
            clause = "output differs from the rectangular table of the document"
            il, el = out.split("\n"), exp.split("\n")
            if il[:1] != el[:1]:
                clause = "header not preserved"
            elif len(il) != len(el):
                clause = "line count differs (one line per PSM, DefaultDirection dropped)"
            sig = "convert-spec"
            diff = [i for i, (a, b) in enumerate(zip(il, el)) if a != b]
            if len(il) == len(el) and diff and set(diff) <= set(edge_sensitive_lines(d)):
                sig = "edge-field-lost"
                clause = ("a line whose first / last field is empty or blank is not converted to its row of the table "
                          "(every non-protein field unchanged, wherever the protein column stands)")
            chk.spec_violation(sig, dict(case=jd, input=text, impl=out, expected=exp, clause=clause))
        # -- C19_valid_input_unchanged: a file that is already valid (and stored plainly) is converted to itself
        if doc_plain(d) and doc_valid_spec(d):
            chk.count("valid-input-fixed-point", "edge-sensitive" if edge_sensitive_lines(d) else "plain")
            if exp != text:
                raise RuntimeError(f"valid-input restatement mismatch on {text!r}")
            if not bad and (out != text or v_in is not True):
                bad = True
                chk.spec_violation("valid-input-changed", dict(case=jd, input=text, impl=out, impl_valid=v_in, expected=text,
                                                               clause="a valid file is not reported valid / is changed by the conversion"))
        # -- lossless, read backwards: the protein column of the output split again gives the PIN fields
        if sd[5]:
            idx_p = d["cols"].index("Proteins")
            want_fields = [pre + prots + post for _, pre, prots, post, _ in d["rows"]]
            if len(d["rows"]) <= UNFOLD_LEAN_ROWS and (unfold_text(exp, d["sepC"], d["sepP"], idx_p) != want_fields
                                                       or deep(a_str, dec(resp[NREQ * k + 5])) != want_fields):
                raise RuntimeError(f"unfold restatement mismatch (python vs Lean) on {text!r}")
            chk.count("lossless-unfold", "checked")
            if not bad and unfold_text(out, d["sepC"], d["sepP"], idx_p) != want_fields:
                bad = True
                chk.spec_violation("lossless", dict(case=jd, input=text, impl=out, expected=want_fields,
                                                    clause="splitting the protein column of the output again does "
                                                           "not give back the fields of the PIN rows"))
        else:
            chk.count("lossless-unfold", "not promised (separator inside a protein name / not one character)")
        if not bad and sep_ok and first_ok:
            v_out = impl_valid(out, d["sepC"])
            if v_out is not True:
                bad = True
                chk.spec_violation("output-valid", dict(case=jd, input=text, impl=out, impl_valid=v_out,
                                                        expected=True, clause="output not recognised as valid"))
            again = impl_convert(out, d["sepC"], d["sepP"]) if doc_tsv_edge_ok(d) else ("ok", out)
            chk.count("idempotence", "checked" if doc_tsv_edge_ok(d) else "not promised: a converted row ends with CR")
            if again != ("ok", out):
                bad = True
                chk.spec_violation("idempotent", dict(case=jd, input=text, impl=again, expected=out,
                                                      clause="converting the output again changes it"))
        elif not bad:
            chk.count("valid/idempotence-not-promised")
        crit = valid_criterion(text, d["sepC"])
        if crit != s_valid and not (crit == "reject-stop" and s_valid is False):
            raise RuntimeError(f"validity criterion restatement mismatch on {text!r}: {crit} vs {s_valid}")
        if v_in != crit and crit != "reject-stop":
            bad = True
            chk.spec_violation("valid-iff", dict(case=jd, input=text, impl=v_in, expected=crit,
                                                 clause="is_valid_tsv differs from: rectangular and no DefaultDirection line"))
        # -- the same clause at document level (C19_valid_doc_iff): computed from the document, not from the text
        if not sd[1]:
            chk.count("valid-doc", "not promised: padding holds the column separator")
        elif not sd[2]:
            chk.count("valid-doc", "not promised: whitespace before DefaultDirection")
            if v_in is True:
                chk.count("observation", "file with a (padded) DefaultDirection line reported valid")
            if v_in != sd[4] and not bad:
                chk.corr_break("docvalid", dict(case=jd, input=text, impl=v_in, model=sd[4]))
        else:
            chk.count("valid-doc", "valid" if sd[3] else ("DD line" if d["dd"] is not None else "ragged"))
            if v_in != sd[3]:
                bad = True
                chk.spec_violation("valid-doc", dict(case=jd, input=text, impl=v_in, expected=sd[3],
                                                     clause="is_valid_tsv(document) differs from: no DefaultDirection "
                                                            "line and one protein in every row"))
        if not bad:
            if got != m_conv:
                chk.corr_break("pin2tsv", dict(case=jd, input=text, impl=got, model=m_conv))
            if v_in != m_valid:
                chk.corr_break("validtsv", dict(case=jd, input=text, impl=v_in, model=m_valid))
            compare_writes(chk, dict(case=jd, input=text), got, writes, resp[NREQ * k + 4])
        if cli and d["sepC"] == "\t" and d["sepP"] == ":" and "\r" not in text:
            later.append((d, text, exp, v_in))
        if tmpdir is not None and files and k % files == 0:
            file_items.append(dict(doc=d))
    if later:
        eval_cli(chk, later, tmpdir)
    if file_items:
        eval_files(chk, file_items, tmpdir, groups=cli)


def eval_cli(chk, items, tmpdir):
    resp = common.driver_batch([req("verifystep", text) for _, text, _, _ in items])
    for k, ((d, text, exp, v_in), r) in enumerate(zip(items, resp)):
        r = r.strip()
        model = r if r.startswith("reject") else ("ok", a_str(r))
        got = impl_cli_verify(text, tmpdir, k)
        chk.case(None, ("cli",) + doc_key(d))
        chk.count("cli-verify", "already-valid" if v_in is True else "converted")
        want = ("ok", text if v_in is True else exp)
        if got != want:
            chk.spec_violation("cli-verify", dict(case=jsonable(d), input=text, impl=got, expected=want,
                                                  clause="file after the verify step is not (input if valid else conversion)"))
        elif doc_pads_free(d) and doc_dd_plain(d) and got != ("ok", text if doc_valid_spec(d) else exp):
            # C19_verify_step_doc: the decision read off the document, not taken from is_valid_tsv
            chk.spec_violation("cli-verify-doc", dict(case=jsonable(d), input=text, impl=got,
                                                      expected=("ok", text if doc_valid_spec(d) else exp),
                                                      clause="file after the verify step is not (input if the document has no "
                                                             "DefaultDirection line and one protein per row, else its table)"))
        elif got != model:
            chk.corr_break("verifystep", dict(case=jsonable(d), input=text, impl=got, model=model))


# ----------------------------------------------------------------------------
# extension: the header helper, the command line tool, several stored files through the CLI
# ----------------------------------------------------------------------------
def _model_text(r):
    r = r.strip()
    return r if r.startswith("reject") else ("ok", a_str(r))


def eval_files(chk, items, tmpdir, groups=False):
    """well-formed documents as stored files: parse_pin_header_columns, pin_to_tsv.main(), and (groups=True)
    groups of files through one CLI call.  items: dict(doc, exp, first_ok, sep_ok)"""
    lines = []
    for it in items:
        d = it["doc"]
        if not d.get("keep_cr"):
            # the stored variant of the document: carriage returns inside lines become form feeds (both are
            # whitespace for str.strip, so the structure of the document is the same)
            d = it["doc"] = no_cr_doc(d)
        term = d.get("term", "\n")
        tool = d.get("tool") or dict(pass_c=True, pass_p=True, old=None)
        it["term"], it["tool"] = term, tool
        it["raw"] = render_pin_t(d, term)
        it["header"] = doc_lines(d)[0]
        it["opt_c"] = d["sepC"] if (tool["pass_c"] or d["sepC"] != "\t") else None
        it["opt_p"] = d["sepP"] if (tool["pass_p"] or d["sepP"] != ":") else None
        it["hdr_default"] = bool(d.get("hdr_default")) and d["sepC"] == "\t"
        lines.append(req("spec-C19-file", d["sepC"], d["sepP"], term, doc_wire(d)))
        lines.append(req("headercols", d["sepC"], it["header"]))
        lines.append(req("toolmain", None if it["opt_c"] is None else [it["opt_c"]],
                         None if it["opt_p"] is None else [it["opt_p"]], it["raw"], tool["old"] or ""))
        lines.append(req("toolmainfs", None if it["opt_c"] is None else [it["opt_c"]],
                         None if it["opt_p"] is None else [it["opt_p"]], it["raw"],
                         None if tool["old"] is None else [tool["old"]])
                     if len(it["raw"]) <= FS_MODEL_CHARS else req("validspec", "\t", ""))
    resp = common.driver_batch(lines)
    eligible = []
    FREQ = 4
    for k, it in enumerate(items):
        d = it["doc"]
        jd = jsonable(d)
        sp = dec(resp[FREQ * k])
        wf, nocr, term_ok = a_bool(sp[0]), a_bool(sp[1]), a_bool(sp[2])
        lean_raw, lean_pin = a_str(sp[3]), a_str(sp[4])
        it["first_ok"], it["exp"] = a_bool(sp[5]), expected_text(d)
        text = render_pin(d)
        if lean_raw != it["raw"] or lean_pin != text or not wf or not term_ok:
            raise RuntimeError(f"harness/driver rendering mismatch (stored file): {it['raw']!r} vs {lean_raw!r}")
        if a_str(sp[6]) != it["exp"]:
            raise RuntimeError(f"spec restatement mismatch (python vs Lean): {it['exp']!r} vs {a_str(sp[6])!r}")
        if nocr != ("\r" not in text):
            raise RuntimeError(f"noCR restatement mismatch on {text!r}")
        it["nocr"] = nocr
        # -- text-mode reading: model vs CPython, and the theorem's instance
        m_read = a_str(sp[7])
        py_read = py_univnl(it["raw"])
        chk.count("file-terminator", TERM_NAME[it["term"]] + ("" if nocr else "+inner-CR"))
        if m_read != py_read:
            chk.corr_break("univnl", dict(kind="univnl", raw=it["raw"], impl=py_read, model=m_read))
        elif nocr and py_read != text:
            raise RuntimeError(f"universal-newline restatement mismatch: {it['raw']!r} read as {py_read!r}")
        # -- parse_pin_header_columns
        m_hdr = resp[FREQ * k + 1].strip()
        m_hdr = m_hdr if m_hdr.startswith("reject") else [int(x) for x in dec(m_hdr)]
        got_hdr = impl_header_cols(it["header"], d["sepC"], it["hdr_default"])
        want_hdr = [len(d["cols"]), d["cols"].index("Proteins")]
        chk.case(None, ("header", len(d["cols"]), want_hdr[1], d["cols"].count("Proteins"), bool(d["hpadL"]),
                        bool(d["hpadR"]), d["sepC"], it["hdr_default"]))
        chk.count("header-cols", "default-sep" if it["hdr_default"] else "explicit-sep")
        hinfo = dict(kind="header", header=it["header"], sepC=d["sepC"], default_sep=it["hdr_default"])
        if got_hdr != want_hdr:
            chk.spec_violation("header-cols", dict(hinfo, impl=got_hdr, expected=want_hdr,
                                                   clause="parse_pin_header_columns != (number of header columns, "
                                                          "first position of Proteins)"))
        elif got_hdr != m_hdr:
            chk.corr_break("headercols", dict(hinfo, impl=got_hdr, model=m_hdr))
        # -- the command line tool
        m_tool = _model_text(resp[FREQ * k + 2])
        tool_fs = impl_tool_main_fs(it["raw"], it["opt_c"], it["opt_p"], it["tool"]["old"], tmpdir, k)
        got = tool_result(tool_fs)
        chk.case(None, ("tool",) + doc_key(d) + (it["term"], it["opt_c"] is None, it["opt_p"] is None,
                                                 it["tool"]["old"] is None))
        chk.count("tool-main", "spec" if nocr else "model-only(inner CR)")
        chk.count("tool-opts", ("c" if it["opt_c"] is not None else "-") + ("p" if it["opt_p"] is not None else "-"))
        chk.count("tool-old-output", "absent" if it["tool"]["old"] is None else ("empty" if not it["tool"]["old"] else "non-empty"))
        tinfo = dict(kind="tool", case=jd, raw=it["raw"], opt_c=it["opt_c"], opt_p=it["opt_p"], old=it["tool"]["old"])
        if nocr and got != ("ok", it["exp"]):
            chk.spec_violation("tool-main", dict(tinfo, impl=got, expected=it["exp"],
                                                 clause="output file of pin_to_tsv.main() is not the rectangular table "
                                                        "of the stored document"))
        elif got != m_tool:
            chk.corr_break("toolmain", dict(tinfo, impl=got, model=m_tool))
        elif len(it["raw"]) <= FS_MODEL_CHARS:
            compare_tool_fs(chk, tinfo, tool_fs, resp[FREQ * k + 3])
        if d["sepC"] == "\t" and d["sepP"] == ":":
            eligible.append(it)
    if groups and eligible:
        grp, i = [], 0
        while i < len(eligible):
            n = chk.rng.choice([1, 2, 2, 3, 4])
            flag = chk.rng.choice([None, None, None, "1", "False", "", ""])
            part = eligible[i:i + n]
            i += n
            known = all(it["nocr"] and it["first_ok"] for it in part)
            expected = None
            if known:
                expected = [it["raw"] if valid_criterion(render_pin(it["doc"]), "\t") is True else it["exp"] for it in part]
            grp.append(dict(kind="files", files=[it["raw"] for it in part], flag=flag, expected=expected,
                            family="docs", stales=[it["doc"].get("stale") for it in part]))
        eval_cli_files(chk, grp, tmpdir)


def eval_cli_files(chk, groups, tmpdir):
    """groups of stored files through ONE call of the real CLI verify step vs spec vs model; second extension:
    a stale `<pin>.tsv` may exist next to a file (g["stales"]), and the state of all paths afterwards — also when
    the step raised — is compared with `verifyFilesFs`"""
    lines = []
    for g in groups:
        stales = list(g.get("stales") or [None] * len(g["files"]))
        g["stales"] = stales
        lines.append(req("verifyfiles", g["flag"] != "", list(g["files"])))
        g["fs_model"] = sum(len(f) for f in g["files"]) <= FS_MODEL_CHARS
        lines.append(req("verifyfilesfs", g["flag"] != "",
                         [[f, None if st is None else [st]] for f, st in zip(g["files"], stales)])
                     if g["fs_model"] else req("validspec", "\t", ""))
    resp = common.driver_batch(lines)
    for k, g in enumerate(groups):
        r = resp[2 * k].strip()
        model = r if r.startswith("reject") else ("ok", deep(a_str, dec(r)))
        if isinstance(model, tuple) and not isinstance(model[1], list):
            model = ("ok", [model[1]])
        m_fs = None
        if g["fs_model"]:
            mv = dec(resp[2 * k + 1])
            m_state = mv[0] if isinstance(mv[0], list) else [mv[0]]
            m_fs = ["ok" if mv[1] == "none" else mv[1], [a_str(x[0]) for x in m_state],
                    [None if x[1] == "none" else a_str(x[1][0]) for x in m_state]]
        on = g["flag"] != ""
        fs = impl_cli_verify_fs(g["files"], g["flag"], tmpdir, k, g["stales"])
        got = cli_result(fs)
        terms = tuple(sorted({("CRLF" if "\r\n" in f else "CR" if "\r" in f else "LF") for f in g["files"]}))
        chk.case(None, ("cli-files", g.get("family"), tuple(g["files"]), g["flag"], tuple(g["stales"])))
        chk.count("cli-files", f"{g.get('family')}:{len(g['files'])}")
        chk.count("cli-verify-flag", {None: "absent", "": "off"}.get(g["flag"], "on(" + str(g["flag"]) + ")"))
        chk.count("cli-files-line-ends", "+".join(terms))
        chk.count("cli-stale-tsv", sum(st is not None for st in g["stales"]))
        info = dict(kind="files", files=list(g["files"]), flag=g["flag"], expected=g.get("expected"),
                    family=g.get("family"), stales=list(g["stales"]))
        if isinstance(got, str):
            chk.reject("cli-verify-files:" + got)
            if not on:
                chk.spec_violation("cli-verify-off", dict(info, impl=got, expected=list(g["files"]),
                                                          clause="--verify_pin off: the step must not touch (or read) the files"))
            elif g.get("expected") is not None:
                chk.spec_violation("cli-verify-files", dict(info, impl=got,
                                                            clause="verify step raised on well-formed PIN files"))
            elif got != model:
                chk.corr_break("verifyfiles", dict(info, impl=got, model=model))
            else:
                # what the aborted step left on disk: PIN files, <pin>.tsv files
                chk.count("cli-fs-after-raise", fs[0])
                if m_fs is not None and list(fs) != m_fs:
                    chk.corr_break("verifyfilesfs", dict(info, impl=list(fs), model=m_fs))
            continue
        if not on:
            if got[1] != list(g["files"]) or fs[2] != list(g["stales"]):
                chk.spec_violation("cli-verify-off", dict(info, impl=[got[1], fs[2]], expected=list(g["files"]),
                                                          clause="--verify_pin off: a file was changed"))
                continue
        elif g.get("expected") is not None and got[1] != g["expected"]:
            bad = [j for j, (a, b) in enumerate(zip(got[1], g["expected"])) if a != b]
            chk.spec_violation("cli-verify-files", dict(info, impl=got[1], differing_files=bad,
                                                        clause="after the verify step some file is not (itself if valid "
                                                               "else its conversion)"))
            continue
        elif g.get("expected") is not None and any(t is not None for t, f, e in zip(fs[2], g["files"], g["expected"])
                                                   if f != e):
            chk.spec_violation("cli-temp-left", dict(info, impl=list(fs),
                                                     clause="<pin>.tsv remains after a file was converted"))
            continue
        if got != model:
            chk.corr_break("verifyfiles", dict(info, impl=got, model=model))
        elif m_fs is not None and list(fs) != m_fs:
            chk.corr_break("verifyfilesfs", dict(info, impl=list(fs), model=m_fs))


def eval_raw_files(chk, cases, tmpdir):
    """arbitrary texts as stored files: header helper, command line tool, CLI groups — implementation vs MODEL
    (refusals must agree); spec only where it speaks about every input (--verify_pin off)"""
    lines = []
    items = []
    for t, sc, sp in cases:
        first = t.split("\n")[0] + ("\n" if "\n" in t else "")
        opt_c = sc if (sc != "\t" or chk.rng.random() < 0.5) else None
        opt_p = sp if (sp != ":" or chk.rng.random() < 0.5) else None
        old = chk.rng.choice([None, "", "x\n"])
        items.append((t, sc, sp, first, opt_c, opt_p, old))
        lines.append(req("headercols", sc, first))
        lines.append(req("toolmain", None if opt_c is None else [opt_c], None if opt_p is None else [opt_p], t, old or ""))
        lines.append(req("univnl", t))
        lines.append(req("toolmainfs", None if opt_c is None else [opt_c], None if opt_p is None else [opt_p], t,
                         None if old is None else [old]))
    resp = common.driver_batch(lines)
    tabs = []
    RREQ = 4
    for k, (t, sc, sp, first, opt_c, opt_p, old) in enumerate(items):
        m_hdr = resp[RREQ * k].strip()
        m_hdr = m_hdr if m_hdr.startswith("reject") else [int(x) for x in dec(m_hdr)]
        got_hdr = impl_header_cols(first, sc, False)
        chk.case(None, ("raw-header", first, sc))
        chk.count("raw-header-cols", "ok" if isinstance(got_hdr, list) else got_hdr)
        if isinstance(got_hdr, str):
            chk.reject("parse_pin_header_columns:" + got_hdr)
        if got_hdr != m_hdr:
            chk.corr_break("headercols", dict(kind="header", header=first, sepC=sc, default_sep=False,
                                              impl=got_hdr, model=m_hdr))
        m_read = a_str(resp[RREQ * k + 2].strip())
        if m_read != py_univnl(t):
            chk.corr_break("univnl", dict(kind="univnl", raw=t, impl=py_univnl(t), model=m_read))
        m_tool = _model_text(resp[RREQ * k + 1])
        tool_fs = impl_tool_main_fs(t, opt_c, opt_p, old, tmpdir, k)
        got = tool_result(tool_fs)
        chk.case(None, ("raw-tool", t, opt_c, opt_p, old))
        chk.count("raw-tool-main", got if isinstance(got, str) else "ok")
        if isinstance(got, str):
            chk.reject("pin_to_tsv.main:" + got)
        if got != m_tool:
            chk.corr_break("toolmain", dict(kind="tool", raw=t, opt_c=opt_c, opt_p=opt_p, old=old, impl=got, model=m_tool))
        else:
            compare_tool_fs(chk, dict(kind="tool", raw=t, opt_c=opt_c, opt_p=opt_p, old=old), tool_fs, resp[RREQ * k + 3])
        if sc == "\t":
            tabs.append(t)
    grp, i = [], 0
    while i < len(tabs):
        n = chk.rng.choice([1, 2, 3])
        grp.append(dict(kind="files", files=tabs[i:i + n], flag=chk.rng.choice([None, None, "x", ""]), expected=None,
                        family="raw", stales=[chk.rng.choice([None, None, "", "stale\n"]) for _ in tabs[i:i + n]]))
        i += n
    if grp:
        eval_cli_files(chk, grp, tmpdir)


# ----------------------------------------------------------------------------
# raw texts
# ----------------------------------------------------------------------------
TOKENS = ["\t", "\t", "\t", "\n", "\n", " ", "a", "b", ":", "Proteins", "DefaultDirection", "\r", "\x0b",
          " ", "x", ",", "P", "é"]


def gen_raw(rng):
    n = rng.choice([0, 1, 2, 3, 5, 8, 12, 16, 24])
    t = "".join(rng.choice(TOKENS) for _ in range(n))
    r = rng.random()
    if r < 0.35:
        t = "a\tProteins\tb\n" + t
    elif r < 0.5:
        t = "Proteins\n" + t
    elif r < 0.6:
        t = " id\tProteins \nDefaultDirection\t-\n" + t
    sep_c = rng.choice(["\t", "\t", "\t", ",", "a", " "])
    sep_p = rng.choice([":", ":", ";", "", "::", "\t"])
    return (t, sep_c, sep_p)


def eval_raw(chk, cases, family="raw"):
    lines = []
    for t, sc, sp in cases:
        lines.append(req("pin2tsv", sc, sp, t))
        lines.append(req("validtsv", sc, t))
        lines.append(req("validspec", sc, t))
        lines.append(req("pin2tsvwrites", sc, sp, t))
    resp = common.driver_batch(lines)
    for k, (t, sc, sp) in enumerate(cases):
        m = resp[4 * k].strip()
        m = m if m.startswith("reject") else ("ok", a_str(m))
        mv = resp[4 * k + 1].strip()
        mv = mv if mv.startswith("reject") else a_bool(mv)
        sv = a_bool(resp[4 * k + 2].strip())
        style = CALL_STYLES[(len(t) + t.count("\t")) % len(CALL_STYLES)]  # a function of the case: replays exactly
        got, writes = impl_convert_w(t, sc, sp, style)
        v = impl_valid(t, sc, style)
        crit = valid_criterion(t, sc)
        if crit != sv and not (crit == "reject-stop" and sv is False):
            raise RuntimeError(f"validity criterion restatement mismatch on {t!r}: {crit} vs {sv}")
        nlines = t.count("\n") + (0 if t.endswith("\n") or not t else 1)
        chk.case(None, (family, t, sc, sp) if nlines >= 2 else None,
                 sample=dict(input=t, sepC=sc, sepP=sp, impl=got, impl_valid=v) if nlines >= 3 else None)
        chk.count(family + "-lines", min(nlines, 6))
        chk.count(family + "-convert", got if isinstance(got, str) else "ok")
        chk.count(family + "-valid", str(v))
        if isinstance(got, str):
            chk.reject("pin_to_valid_tsv:" + got)
        if isinstance(v, str):
            chk.reject("is_valid_tsv:" + v)
        info = dict(input=t, sepC=sc, sepP=sp)
        if v != crit and crit != "reject-stop":  # fewer than two lines: nothing is promised (the code raises)
            chk.spec_violation("valid-iff", dict(info, impl=v, expected=crit,
                                                 clause="is_valid_tsv differs from: rectangular and no DefaultDirection line"))
            continue
        if got != m:
            chk.corr_break("pin2tsv", dict(info, impl=got, model=m))
        else:
            compare_writes(chk, info, got, writes, resp[4 * k + 3])
        if v != mv:
            chk.corr_break("validtsv", dict(info, impl=v, model=mv))


# ----------------------------------------------------------------------------
# exhaustive small-scope sweeps
# ----------------------------------------------------------------------------
def sweep_docs(chk, max_side, max_rows, max_prot, tmpdir, files=0):
    docs = []
    for n_pre in range(max_side + 1):
        for n_post in range(max_side + 1):
            cols = [f"c{i}" for i in range(n_pre)] + ["Proteins"] + [f"d{i}" for i in range(n_post)]
            for dd in (None, "DefaultDirection\t-"):
                for n_rows in range(0 if dd else 1, max_rows + 1):
                    for ks in itertools.product(range(1, max_prot + 1), repeat=n_rows):
                        for trailing in (True, False):
                            # pad: False | True (carriage returns before the line ends) | "first" / "last" (third pass: the
                            # first resp. last field of every line is EMPTY — also a protein, also the only field)
                            for pad in (False, True, "first", "last"):
                                rows = []
                                for i, k in enumerate(ks):
                                    fs = ([f"a{i}{j}" for j in range(n_pre)] + [f"p{i}{j}" for j in range(k)]
                                          + [f"b{i}{j}" for j in range(n_post)])
                                    if pad == "first":
                                        fs[0] = ""
                                    elif pad == "last":
                                        fs[-1] = " " if i % 2 else ""
                                    rows.append(["", fs[:n_pre], fs[n_pre:n_pre + k], fs[n_pre + k:],
                                                 "\r" if pad is True and i % 2 == 0 else ""])
                                if not trailing and rows and not any(rows[-1][1] + rows[-1][2] + rows[-1][3]):
                                    continue  # an empty unterminated last line is no line at all (lastLineOk)
                                docs.append(dict(hpadL="", cols=cols, hpadR="\r" if pad is True else "", dd=dd, rows=rows,
                                                 trailing=trailing, sepC="\t", sepP=":", layout="sweep"))
    for i in range(0, len(docs), 4000):
        eval_docs(chk, docs[i:i + 4000], cli=(i == 0), tmpdir=tmpdir, files=files)
    return len(docs)


def sweep_raw(chk, max_len):
    toks = ["\t", "\n", "a", " ", "Proteins", "DefaultDirection"]
    cases = []
    for n in range(max_len + 1):
        for tup in itertools.product(toks, repeat=n):
            cases.append(("".join(tup), "\t", ":"))
    for i in range(0, len(cases), 20000):
        eval_raw(chk, cases[i:i + 20000], family="sweep-raw")
    return len(cases)


def sweep_convert_line(chk, nmax):
    """convert_line_pin_to_tsv vs model (all shapes, also fewer fields than columns) and vs spec"""
    from mokapot.parsers.pin_to_tsv import convert_line_pin_to_tsv

    cases = []
    for n_fields in range(1, nmax + 1):
        for n_col in range(1, nmax + 1):
            for idx in range(n_col):
                cases.append(([f"f{i}" for i in range(n_fields)], idx, n_col))
    resp = common.driver_batch([req("convfields", ":", fs, idx, n_col) for fs, idx, n_col in cases])
    for (fs, idx, n_col), r in zip(cases, resp):
        model = deep(a_str, dec(r))
        model = model if isinstance(model, list) else [model]
        got = convert_line_pin_to_tsv("\t".join(fs), idx_protein_col=idx, n_col=n_col).split("\t")
        chk.case(None, ("convert_line", len(fs), idx, n_col))
        chk.count("convert_line", "surplus" if len(fs) > n_col else ("exact" if len(fs) == n_col else "short"))
        info = dict(fields=fs, idx=idx, n_col=n_col)
        if len(fs) >= n_col:
            k = len(fs) - n_col + 1
            want = fs[:idx] + [":".join(fs[idx:idx + k])] + fs[idx + k:]
            if got != want:
                chk.spec_violation("convert-line-spec", dict(info, impl=got, expected=want,
                                                             clause="row != pre ++ [join proteins] ++ post"))
                continue
        if got != model:
            chk.corr_break("convfields", dict(info, impl=got, model=model))
    return len(cases)


def rand_convert_line(chk, n):
    """convert_line_pin_to_tsv called directly (G3-b): other separators than the defaults, arguments by position or by
    keyword, fields that hold the *other* separator characters, empty and repeated fields"""
    from mokapot.parsers.pin_to_tsv import convert_line_pin_to_tsv

    rng = chk.rng
    cases = []
    for _ in range(n):
        sep_c = rng.choice(["\t", "\t", ",", ";", " ", "|"])
        sep_p = rng.choice([":", ":", ";", "|", "::", "", "\t", ", "])
        n_col = rng.randint(1, 8)
        idx = rng.randrange(n_col)
        n_fields = max(1, n_col + rng.choice([-2, -1, 0, 0, 1, 1, 2, 3, 7]))
        alphabet = [c for c in "ab:;|,\t x" if c != sep_c] + ["", "P", "P"]
        fs = ["".join(rng.choice(alphabet) for _ in range(rng.choice([0, 1, 1, 2, 3]))) for _ in range(n_fields)]
        cases.append((fs, idx, n_col, sep_c, sep_p, rng.choice(["kw", "pos", "default"])))
    resp = common.driver_batch([req("convfields", sp, fs, idx, n_col) for fs, idx, n_col, sc, sp, st in cases])
    for (fs, idx, n_col, sc, sp, st), r in zip(cases, resp):
        model = deep(a_str, dec(r))
        model = model if isinstance(model, list) else [model]
        line = sc.join(fs)
        if st == "default" and sc == "\t" and sp == ":":
            got = convert_line_pin_to_tsv(line, idx, n_col)
        elif st == "pos":
            got = convert_line_pin_to_tsv(line, idx, n_col, sc, sp)
        else:
            got = convert_line_pin_to_tsv(line=line, idx_protein_col=idx, n_col=n_col, sep_column=sc, sep_protein=sp)
        chk.case(None, ("convert_line_direct", tuple(fs), idx, n_col, sc, sp))
        chk.count("convert_line_direct", ("surplus" if len(fs) > n_col else ("exact" if len(fs) == n_col else "short"))
                  + ("" if (sc, sp) == ("\t", ":") else "+other-sep"))
        info = dict(fields=fs, idx=idx, n_col=n_col, sepC=sc, sepP=sp, style=st)
        if len(fs) >= n_col:
            k = len(fs) - n_col + 1
            want = sc.join(fs[:idx] + [sp.join(fs[idx:idx + k])] + fs[idx + k:])
            if got != want:
                chk.spec_violation("convert-line-spec", dict(info, impl=got, expected=want,
                                                             clause="line != join(pre ++ [join proteins] ++ post)"))
                continue
        if got != sc.join(model):
            chk.corr_break("convfields", dict(info, impl=got, model=sc.join(model)))
    return len(cases)


def probe_observations(chk, tmpdir):
    """not gating — facts about the unchanged tree outside the hypotheses of the theorems, tallied in the evidence
    (`observation:*`): inputs that `read_pin` accepts but the verify step of the CLI cannot handle"""
    import mokapot.mokapot as M

    # (1) header names are matched case-insensitively by read_pin, but exactly by parse_pin_header_columns
    got = impl_convert("SpecId\tLabel\tScanNr\tf1\tPeptide\tproteins\na\t1\t1\t0.5\tK.A.K\tP1\tP2\n", "\t", ":")
    chk.count("observation", "lower-case 'proteins' header with a ragged row -> " + (got if isinstance(got, str) else "converted"))
    # (2) a Parquet PSM file (accepted by read_pin) is read as text by the verify step (on by default)
    def stop(*a, **kw):
        raise _StopAfterVerify()

    path = os.path.join(tmpdir, "probe.parquet")
    with open(path, "wb") as f:
        f.write(b"PAR1\x15\x04\x15\x80\x80\xff\xfePAR1")
    saved = M.read_pin
    M.read_pin = stop
    try:
        try:
            M.main([path, "--dest_dir", tmpdir, "--verbosity", "0"])
            res = "no-stop"
        except _StopAfterVerify:
            res = "left alone"
        except Exception as e:  # noqa: BLE001 — the kind of exception is the observation
            res = type(e).__name__
    finally:
        M.read_pin = saved
        for fn in (path, path + ".tsv"):
            if os.path.exists(fn):
                os.unlink(fn)
    chk.count("observation", "binary (Parquet) PSM file through the verify step -> " + res)


def check_chomp(chk, n):
    """third pass — the line normalisation: model `chomp` vs CPython `str.rstrip("\\r\\n")`, and model `rewriteLine` vs
    the REAL code on arbitrary lines: the first `write` of `pin_to_valid_tsv` is the first input line minus its
    terminator plus "\\n" whatever the line holds (it happens before the `Proteins` assertion).  A line that does not
    come back as it is although it does not end with a carriage return is a spec violation (`edge-field-lost`:
    header / fields not preserved)."""
    rng = chk.rng
    alpha = [" ", " ", "\t", "\t", "\r", "a", "b", "\x0c", "\x0b", "\x85", "\u2028", '"', "\xa0", "Proteins", ""]
    bodies = ["", " ", "\t", "\t\t", " a", "a ", "a\t", "\ta", "a\t\t", "\r", "a\r", "\ra", " \r ", "\x0c", "a\x0b"]
    bodies += ["".join(rng.choice(alpha) for _ in range(rng.randint(0, 7))) for _ in range(n)]
    ends = ["", "\n", "\r\n", "\r\r\n", "\r"]
    lines = [b + e for b in bodies for e in ends]
    resp = common.driver_batch([req("chomp", lines), req("rewriteline", lines)])
    m_chomp = deep(a_str, dec(resp[0]))
    m_rw = deep(a_str, dec(resp[1]))
    m_chomp = m_chomp if isinstance(m_chomp, list) else [m_chomp]
    m_rw = m_rw if isinstance(m_rw, list) else [m_rw]
    for l, mc, mr in zip(lines, m_chomp, m_rw):
        chk.case(None, ("chomp", l))
        chk.count("chomp", "edge-blank" if (l.rstrip("\r\n") != l.strip()) else "plain")
        if mc != l.rstrip("\r\n"):
            chk.corr_break("chomp", dict(kind="chomp", line=l, impl=l.rstrip("\r\n"), model=mc))
            continue
        if not l.endswith("\n") and l.endswith("\r"):
            text = l + "x"      # cannot be given as a first line without a terminator following: skip the real call
            continue
        text = l if l.endswith("\n") else l + "\n"
        got, writes = impl_convert_w(text + "x\ty\n", "\t", ":", "kw")
        first = writes[0] if writes else None
        body = text[:-1]
        if not body.endswith("\r") and first != body + "\n":
            chk.spec_violation("edge-field-lost", dict(kind="line", input=text + "x\ty\n", sepC="\t", sepP=":", impl=first,
                                                       expected=body + "\n",
                                                       clause="the first line is not written back unchanged (header preserved, "
                                                              "every field unchanged: blanks and empty fields at its ends)"))
        elif first != mr and text == l:
            chk.corr_break("rewriteline", dict(kind="line", line=l, impl=first, model=mr))
    return len(lines)


def check_isspace(chk):
    """the model's whitespace set is CPython's (str.isspace / str.strip)"""
    ws = [int(x) for x in dec(common.driver_batch(["pyspaces"])[0])]
    py = [i for i in range(0x110000) if chr(i).isspace()]
    strip = [i for i in range(0x110000) if not (0xD800 <= i <= 0xDFFF) and ("a" + chr(i)).strip() == "a"]
    chk.case(None, ("isspace-table",))
    if ws != py or ws != strip:
        chk.corr_break("pyspaces", dict(model=ws, impl=py, impl_strip=strip))


# ----------------------------------------------------------------------------
# corpus, shrinking, replay
# ----------------------------------------------------------------------------
def jsonable(d):
    return dict(d)


def corpus_docs():
    p = common.VERIF / "harness" / "corpus" / "C19.json"
    if p.exists():
        return json.loads(p.read_text())
    return []


def minimise(chk):
    """shrink the first document-level violation: drop rows, then proteins, then padding"""
    if not chk.spec_violations:
        return
    sig, info = chk.spec_violations[0]
    if info.get("kind") == "files":
        # drop files while the same violation stays
        def run_files(idx):
            sub = common.Check(chk.prop, chk.tier, chk.seed)
            exp = None if info.get("expected") is None else [info["expected"][j] for j in idx]
            tmp = _mkdtemp()
            try:
                eval_cli_files(sub, [dict(info, files=[info["files"][j] for j in idx], expected=exp,
                                          stales=[(info.get("stales") or [None] * len(info["files"]))[j] for j in idx])], tmp)
            except Exception:
                return []
            finally:
                shutil.rmtree(tmp, ignore_errors=True)
            return [x for x in sub.spec_violations if x[0] == sig]

        idx = common.shrink_list(list(range(len(info["files"]))), lambda ix: bool(run_files(ix)), min_len=1)
        if len(idx) < len(info["files"]):
            found = run_files(idx)
            if found:
                chk.spec_violations[0] = (sig, dict(found[0][1], shrunk_from_files=len(info["files"])))
        return
    if info.get("kind") in ("tool", "header", "univnl"):
        if info.get("kind") != "tool" or "case" not in info:
            return
        d0 = info["case"]

        def fails_tool(d):
            sub = common.Check(chk.prop, chk.tier, chk.seed)
            tmp = _mkdtemp()
            try:
                eval_files(sub, [dict(doc=dict(d, keep_cr=True))], tmp)
            except Exception:
                return False
            finally:
                shutil.rmtree(tmp, ignore_errors=True)
            return [x for x in sub.spec_violations if x[0] == sig]

        min_rows = 0 if d0["dd"] is not None else 1
        rows = common.shrink_list(d0["rows"], lambda rs: bool(fails_tool(dict(d0, rows=rs))), min_len=min_rows)
        found = fails_tool(dict(d0, rows=rows))
        if found:
            chk.spec_violations[0] = (sig, dict(found[0][1], shrunk_from_rows=len(d0["rows"])))
        return
    if "case" not in info or "rows" not in info["case"]:
        return
    d0 = info["case"]

    def fails_doc(d):
        sub = common.Check(chk.prop, chk.tier, chk.seed)
        try:
            eval_docs(sub, [d])
        except Exception:
            return False
        return any(s == sig for s, _ in sub.spec_violations)

    min_rows = 0 if d0["dd"] is not None else 1
    rows = common.shrink_list(d0["rows"], lambda rs: fails_doc(dict(d0, rows=rs)), min_len=min_rows)
    d = dict(d0, rows=rows)
    for cand in (dict(d, hpadL="", hpadR="", rows=[["", r[1], r[2], r[3], ""] for r in d["rows"]]),
                 dict(d, dd=None) if d["rows"] else d,
                 dict(d, rows=[[r[0], r[1], r[2][:2], r[3], r[4]] for r in d["rows"]]),
                 dict(d, rows=[[r[0], r[1], r[2][:1], r[3], r[4]] for r in d["rows"]])):
        if cand != d and fails_doc(cand):
            d = cand
    sub = common.Check(chk.prop, chk.tier, chk.seed)
    eval_docs(sub, [d])
    for s, i in sub.spec_violations:
        if s == sig:
            chk.spec_violations[0] = (s, dict(i, shrunk_from_rows=len(d0["rows"])))
            break


def search(chk):
    """failing-input search used when a proof or the correspondence is broken"""
    rng = chk.rng
    tmpdir = _mkdtemp()
    try:
        eval_docs(chk, [gen_doc(rng, big=(i % 4 == 0)) for i in range(4000)], cli=True, tmpdir=tmpdir, files=1)
        raws = [gen_raw(rng) for _ in range(20000)]
        eval_raw(chk, raws)
        eval_raw_files(chk, raws[:3000], tmpdir)
        if not chk.spec_violations:
            eval_docs(chk, gen_long_docs(rng) + gen_shape_docs(rng, quick=False), cli=True, tmpdir=tmpdir, files=1)
        if not chk.spec_violations:
            sweep_docs(chk, 2, 2, 3, tmpdir)
            sweep_raw(chk, 6)
            sweep_convert_line(chk, 8)
    finally:
        shutil.rmtree(tmpdir, ignore_errors=True)
    minimise(chk)


def main(chk, args):
    build = common.build_and_audit("C19")
    if not build.driver_ok:
        chk.finish(build, RULE)
    rng = chk.rng
    quick = chk.tier == "quick"
    tmpdir = _mkdtemp()
    try:
        check_isspace(chk)
        check_chomp(chk, 150 if quick else 5000)
        probe_observations(chk, tmpdir)
        docs = corpus_docs()
        docs += [gen_doc(rng, big=(i % 10 == 0)) for i in range(1500 if quick else 60000)]
        for i in range(0, len(docs), 2000):
            eval_docs(chk, docs[i:i + 2000], cli=(i < 4000), tmpdir=tmpdir, files=(3 if quick else 1) if i < 20000 else 0)
        longs = gen_long_docs(rng) if quick else gen_long_docs(rng) + gen_long_docs(rng, [511, 512, 513, 1023, 1024, 1025,
                                                                                       2047, 2048, 2049, 8191, 8192,
                                                                                       10000, 10001, 16383, 16384])
        eval_docs(chk, longs, cli=True, tmpdir=tmpdir, files=1)
        chk.count("long_documents", len(longs))
        shapes = gen_shape_docs(rng, quick)
        # the big ones: direct calls and the one-file CLI step; the others also as stored files (tool, CLI groups)
        eval_docs(chk, [d for d in shapes if len(d["rows"]) <= 3000], cli=True, tmpdir=tmpdir, files=1)
        eval_docs(chk, [d for d in shapes if len(d["rows"]) > 3000], cli=True, tmpdir=tmpdir, files=0)
        for d in shapes:
            chk.count("shape_documents", d["layout"])
        n4 = rand_convert_line(chk, 400 if quick else 20000)
        raws = [gen_raw(rng) for _ in range(6000 if quick else 200000)]
        for i in range(0, len(raws), 20000):
            eval_raw(chk, raws[i:i + 20000])
        eval_raw_files(chk, raws[:200 if quick else 20000], tmpdir)
        if quick:
            n1 = sweep_docs(chk, 1, 2, 2, tmpdir)
            n2 = sweep_raw(chk, 4)
            n3 = sweep_convert_line(chk, 6)
        else:
            n1 = sweep_docs(chk, 2, 3, 3, tmpdir, files=7)
            n2 = sweep_raw(chk, 7)
            n3 = sweep_convert_line(chk, 10)
        chk.extra["exhaustive_sweep"] = (
            f"{n1} documents (all layouts/rows/protein counts/DD/trailing/padding in the small scope), "
            f"{n2} token strings, {n3} convert_line shapes (+ {n4} random direct calls with other separators)")
    finally:
        shutil.rmtree(tmpdir, ignore_errors=True)
    minimise(chk)
    lc = common.leanchecker("C19") if chk.tier == "thorough" else None
    chk.assumptions += [
        "CPython str.split/join/strip/startswith, list slicing and StringIO line iteration behave as modelled "
        "(split on '\\n' only; the whitespace table is compared with str.isspace/str.strip for every code point)",
        "the column separator is a single character; text is valid Unicode without surrogates",
        "theorem hypotheses (PinDoc.wf, third pass): fields contain no separator/newline, the LAST field of a line does "
        "not end with a carriage return (it would be part of the line terminator), >= 1 protein per row, the line after "
        "the header that is taken as first PSM row does not start with 'DefaultDirection', an empty last line is "
        "terminated; first and last fields may be empty or blank (no hypothesis any more); outside wf (short rows, "
        "header-only files, two DefaultDirection-like lines) only implementation = model is checked; idempotence is "
        "promised when no converted row ends with a carriage return (tsvEdgeOk)",
        "CLI verify step: files are read in text mode (universal newlines), so cases with '\\r' are excluded there; "
        "a stale <pin>.tsv (append mode, finding D7 of C09) is not part of this property",
        "extension: text-mode reading is modelled (univNl: CRLF and lone CR read as LF) and compared with CPython's "
        "TextIOWrapper(newline=None) and with real files; documents with a carriage return INSIDE a line are outside "
        "the file theorems (model correspondence only); files are written with os.linesep == '\\n' (POSIX); the PSM "
        "files of one CLI call have distinct paths",
        "second extension: what is on disk when the tool / the CLI step raise IS compared (toolMainFs, verifyFilesFs: "
        "output file truncated + header, PIN file untouched, partial <pin>.tsv left behind) — as model correspondence, "
        "the statement promises nothing there; stored files above 150 000 characters: spec comparisons only for the "
        "on-disk state; document-level validity is promised for every well-formed document (C19_valid_doc_iff_full; "
        "since fix D49 the converter no longer strips blanks, so a line that reads DefaultDirection after a blank is an "
        "ordinary row for the converter and for is_valid_tsv alike — C19_dd_test_agrees); the write-call granularity (one write per line) is not part of the statement: a "
        "difference there is a correspondence break, not a spec violation",
    ]
    chk.finish(build, RULE, search=search, lc=lc,
               trusted_extra=["CPython str/list/StringIO primitives", "argparse/logging part of mokapot.mokapot.main "
                              "executed before the verify step; read_pin replaced by a sentinel"])


def replay(chk, path):
    info = json.loads(open(path).read())
    common.build_and_audit("C19")
    if info.get("kind") in ("files", "tool", "header", "univnl"):
        tmpdir = _mkdtemp()
        try:
            if info["kind"] == "files":
                eval_cli_files(chk, [info], tmpdir)
            elif info["kind"] == "tool" and "case" in info:
                d = info["case"]
                eval_files(chk, [dict(doc=dict(d, keep_cr=True))], tmpdir)
            elif info["kind"] == "tool":
                got = impl_tool_main(info["raw"], info["opt_c"], info["opt_p"], info["old"], tmpdir, 0)
                print("impl:", got, "model:", info.get("model"))
                return 1 if got != tuple(info["model"]) and got != info.get("model") else 0
            elif info["kind"] == "header":
                got = impl_header_cols(info["header"], info["sepC"], info["default_sep"])
                want = info.get("expected", info.get("model"))
                print("impl:", got, "expected:", want)
                return 1 if got != want else 0
            else:
                print("impl:", repr(py_univnl(info["raw"])), "model:", repr(info.get("model")))
                return 1 if py_univnl(info["raw"]) != info.get("model") else 0
        finally:
            shutil.rmtree(tmpdir, ignore_errors=True)
    elif "case" in info and isinstance(info["case"], dict) and "rows" in info["case"]:
        tmpdir = _mkdtemp()
        try:
            eval_docs(chk, [info["case"]], cli=True, tmpdir=tmpdir, files=1)
        finally:
            shutil.rmtree(tmpdir, ignore_errors=True)
    elif "input" in info and "sepC" in info:
        eval_raw(chk, [(info["input"], info["sepC"], info.get("sepP", ":"))])
    elif "fields" in info:
        from mokapot.parsers.pin_to_tsv import convert_line_pin_to_tsv
        if "sepC" in info:
            got = convert_line_pin_to_tsv(info["sepC"].join(info["fields"]), info["idx"], info["n_col"], info["sepC"],
                                          info["sepP"])
            want = info.get("expected", info.get("model"))
            print("impl:", repr(got), "expected:", repr(want))
            return 1 if got != want else 0
        got = convert_line_pin_to_tsv("\t".join(info["fields"]), idx_protein_col=info["idx"], n_col=info["n_col"])
        print("impl:", got.split("\t"), "expected:", info.get("expected"))
        return 1 if got.split("\t") != info.get("expected") else 0
    else:
        print(json.dumps(info, indent=1)[:3000])
        return 0
    for sig, i in chk.spec_violations:
        print("REPRODUCED", sig, json.dumps(i, default=str)[:1500])
    return 1 if chk.spec_violations else 0
