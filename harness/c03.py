"""C03 — competition and roll-up keep exactly the best PSM per spectrum / entity."""
from __future__ import annotations

import json
from fractions import Fraction

import numpy as np
import pandas as pd

import common
import mkdata
import pipeline as P
from c01 import rounded
from common import a_bool, a_int, a_rat, deep, dec, req

RULE = (
    "case = (PSM table with spectrum/peptide multiplicities and extra level columns, score vector tie-free or tied, "
    "deduplication/rollup/decoys flags, text or Parquet, 1-3 collections with/without prefixes, confidence and "
    "merge chunk sizes from 1 to n+1); the real assign_confidence is run and every result file is read back; "
    "distinct = distinct (key structure, score ranks, flags, chunk sizes); non-trivial = some spectrum or entity has "
    ">= 2 PSMs (competition actually happens); the whole destination directory (file set; rows and q-values of every "
    "file in file order) is compared with the model of the loop over collections; roll-up tool cases = (--level value, "
    "text or Parquet result files of 1-3 collections, optionally one unsorted input file, optionally a second run with "
    "destination = source); compute_rollup_levels on the default and on random parent maps; second pass: result file "
    "root, omitted prefixes, lower-is-better scores, fractional / wide scores, all-target and all-decoy tables, one-PSM "
    "tables, a numeric spectrum column written partly without decimals, a second call with append_to_output_file=True "
    "(whole directory vs the model of both calls), the score vector attached chunk-wise in the model (levelfilesraw), "
    "score vectors of the wrong length, roll-up tool with small writer buffers / reader chunks and file-root names; "
    "third pass: roll-up tool on level identifiers that read as whole numbers next to a few words (a reader chunk of "
    "numbers is an integer column, a chunk with a word a text column): the precursor level against the model of the "
    "seen-set on cells (toolcellrows, toolcellspec), in random cases and in one forced case per run"
)

LEVELS = ("ModifiedPeptide", "Precursor", "PeptideGroup")


def gen_case(rng, tier):
    n_spec = rng.choice([3, 5, 8, 12, 20, 30])
    ncoll = rng.choice([1, 1, 1, 2, 3])
    case = dict(
        n_spectra=n_spec,
        max_per=rng.choice([1, 2, 3, 5]),
        levels=[c for c in LEVELS if rng.random() < 0.4],
        dedup=rng.random() < 0.7,
        rollup=rng.random() < 0.8,
        decoys=rng.random() < 0.8,
        fmt=rng.choice(["pin", "pin", "parquet"]),
        tie_mode=rng.choice(["none"] * 13 + ["any"] * 4 + ["cross"] * 3),
        ncoll=ncoll,
        prefixes=(rng.random() < 0.6) if ncoll > 1 else (rng.random() < 0.3),
        enc=rng.choice(["pm1", "01", "bool"]),
        optional=rng.choice([(), ("ExpMass",), ("filename", "ExpMass"), ("filename", "ExpMass", "ret_time")]),
        npep=rng.choice([2, 4, 8, 16]),
        data_seed=rng.randrange(1 << 30),
    )
    case["center"] = rng.random() < 0.5
    case["collide"] = rng.random() < 0.5
    # second pass: options / input shapes that were never generated (drawn after everything else was drawn first,
    # from a generator of their own, so that the cases of earlier seeds stay what they were)
    r2 = __import__("random").Random(case["data_seed"] ^ 0x5EC0D)
    if r2.random() < 0.12:
        case["n_spectra"] = 1 if r2.random() < 0.5 else 2           # one-PSM / two-spectra tables
    case["file_root"] = "run1." if r2.random() < 0.3 else ""
    case["labels"] = r2.choice(["mixed"] * 17 + ["all-target", "all-target", "all-decoy"])
    case["score_form"] = r2.choice(["int"] * 6 + ["frac"] * 2 + ["wide"] * 2)
    case["desc"] = r2.random() >= 0.2                                # False: lower scores are better
    case["mass_text"] = "mixed" if (case["fmt"] == "pin" and "ExpMass" in case["optional"] and r2.random() < 0.3) else "plain"
    case["append2"] = r2.random() < 0.2                               # a second call appending to the files of the first
    case["omit_prefixes"] = r2.random() < 0.4                        # (only when no collection has a prefix)
    # peptides whose names read as numbers to Python (`float("INF") == float("INFINITY")`): distinct entities all the
    # same.  Parquet input only: a *text* chunk whose peptide cells all read as numbers is parsed as a float column by
    # pandas and comes back as `inf` (GAPS-C03.md O9(b), an observation, not a gating case)
    case["pep_names"] = "numeric-words" if r2.random() < 0.25 else "plain"
    if ncoll > 1 and rng.random() < 0.3:
        # some collections with a prefix of their own, the others sharing the un-prefixed files
        mask = [rng.random() < 0.5 for _ in range(ncoll)]
        if all(mask) or not any(mask):
            mask[rng.randrange(ncoll)] ^= True
        case["prefix_mask"] = mask
    case["cconf"] = rng.choice([1, 2, 3, 5, 7, "n-1", "n", "n+1", 10 ** 6])
    case["cmerge"] = rng.choice([1, 2, 3, 7, "n+1", 20000])
    case["rg"] = rng.choice([1, 2, 5, None])
    if not case["decoys"]:
        case["tie_mode"] = "none"
    case["ties"] = case["tie_mode"] != "none"
    # the PEP kernel (C06) is stubbed on most small tables, where the estimators are degenerate
    case["pep"] = "real" if (n_spec >= 20 and rng.random() < 0.5) else "stub"
    if case["labels"] != "mixed" or case["n_spectra"] < 3:
        case["pep"] = "stub"
    return case


SCORE_UNIT = {"int": 1.0, "frac": 1.0 / 1024, "wide": float(1 << 21)}    # all exact in binary64 and in decimal text


def build_tables(case, call=0):
    """tables and score vectors of one call: [(df, score)]; `call=1` = the tables of the second (appending) call.
    `score` is what the result files must show; the model sees `score / SCORE_UNIT[score_form]` (an integer)"""
    import random

    r = random.Random(case["data_seed"] + call)
    tabs = []
    tfrac = {"all-target": 1.0, "all-decoy": 0.0}.get(case.get("labels", "mixed"), 0.5)
    for k in range(case["ncoll"]):
        df = mkdata.make_psm_table(
            r, n_spectra=case["n_spectra"], max_per_spectrum=case["max_per"], n_feat=2, label_enc=case["enc"],
            optional=case["optional"], level_cols=tuple(case["levels"]), n_peptides=case["npep"], signal=3.0,
            rowid=False, target_frac=tfrac,
        )
        df["SpecId"] = [f"c{k + call * case['ncoll']}_{i}" for i in range(len(df))]
        if case.get("pep_names") == "numeric-words" and case["npep"] >= 4 and case["fmt"] == "parquet":
            other = {"PEP0K": "INF", "PEP1K": "INFINITY"}
            if any(p_ not in other and not str(p_).startswith("decoy_") for p_ in df["Peptide"]):
                df["Peptide"] = [other.get(p_, p_) for p_ in df["Peptide"]]
        if case.get("mass_text") == "mixed" and "ExpMass" in df.columns:
            # a numeric spectrum column in which some values have a fractional part and the others are written
            # without decimals (`write_pin_text`): the spectra stay what they are, whatever a chunk's dtype is
            half = {sc: r.random() < 0.4 for sc in sorted(set(df["ScanNr"]))}
            df["ExpMass"] = [float(m) + (0.5 if half[sc] else 0.0) for sc, m in zip(df["ScanNr"], df["ExpMass"])]
        if case.get("collide") and tuple(case["optional"]) == ("ExpMass",):
            # distinct spectra whose key columns agree once written next to each other without a separator
            # ((1, 11.0) / (11, 1.0), (12, 345.5) / (123, 45.5), ...): they must still compete separately
            pairs = [(1, 11.0), (11, 1.0), (12, 345.5), (123, 45.5), (2, 21.25), (22, 1.25), (1, 1.0), (11, 11.0)]
            scans = sorted(set(df["ScanNr"]))
            remap = {sc: pairs[i] for i, sc in enumerate(scans) if i < len(pairs)}
            df["ExpMass"] = [remap[sc][1] if sc in remap else float(m) for sc, m in zip(df["ScanNr"], df["ExpMass"])]
            df["ScanNr"] = [remap[sc][0] if sc in remap else sc for sc in df["ScanNr"]]
        elif case.get("collide") and "filename" in tuple(case["optional"]):
            # the same with a text column in the key: ("r1", 1) / ("r", 11), ("r12", 3) / ("r1", 23); the remaining
            # key columns of these spectra are made equal, so only file and scan tell them apart
            pairs = [("r1", 1), ("r", 11), ("r12", 3), ("r1", 23)]
            scans = sorted(set(df["ScanNr"]))
            remap = {sc: pairs[i] for i, sc in enumerate(scans) if i < len(pairs)}
            df["filename"] = [remap[sc][0] if sc in remap else f for sc, f in zip(df["ScanNr"], df["filename"])]
            for col in ("ExpMass", "ret_time"):
                if col in df.columns:
                    df[col] = [7 if sc in remap else v for sc, v in zip(df["ScanNr"], df[col])]
            df["ScanNr"] = [remap[sc][1] if sc in remap else sc for sc in df["ScanNr"]]
        if case.get("tie_mode") == "cross":
            # ties only ACROSS spectra: 8 * (coarse value) + position of the row inside its spectrum
            pos, cnt = [], {}
            for sn in df["ScanNr"]:
                pos.append(cnt.get(sn, 0))
                cnt[sn] = pos[-1] + 1
            score = np.array([float(8 * r.randint(0, max(2, len(df) // 3)) + p_) for p_ in pos])
        elif case["ties"]:
            score = np.array([float(r.randint(0, max(2, len(df) // 3))) for _ in range(len(df))])
        else:
            score = df["feat0"].values.astype(float)
        if case.get("center"):
            # scores straddling zero, one of them exactly 0.0 (a falsy maximum must not be mistaken for "no row yet")
            score = score - sorted(score)[len(score) // 2]
        # fractional (dyadic) scores / scores beyond 2^24 (a narrower float type would merge neighbours)
        score = score * SCORE_UNIT[case.get("score_form", "int")]
        tabs.append((df, score))
    return tabs


def model_score(case, score):
    """the integer score vector the Lean model is given (same order, same ties as `score`)"""
    return score / SCORE_UNIT[case.get("score_form", "int")]


def write_pin_text(df, path, mixed):
    """PIN text file; with `mixed`, whole numbers of the ExpMass column are written without decimals (`500`) next to
    values with decimals (`345.5`) - a variant of mkdata.write_table for text files"""
    if not mixed or "ExpMass" not in df.columns:
        return mkdata.write_table(df, path)
    out = df.copy()
    out["ExpMass"] = [str(int(v)) if float(v) == int(v) else repr(float(v)) for v in df["ExpMass"]]
    out.to_csv(path, sep="\t", index=False)
    return path


def read_result(path):
    """pipeline.read_result, but the identifier / peptide / protein columns of a text result file stay text (a file whose
    only peptide is `INF` would otherwise be read back as a float column by the harness itself)"""
    from pathlib import Path

    path = Path(path)
    if not path.exists() or path.suffix == ".parquet":
        return P.read_result(path)
    text = {c: str for c in ("PSMId", "psm_id", "peptide", "proteinIds", "ModifiedPeptide", "modified_peptide", "Precursor",
                             "precursor", "PeptideGroup", "peptide_group")}
    return pd.read_csv(path, sep="\t", float_precision="round_trip", dtype=text)


def csize(v, n):
    return {"n-1": max(1, n - 1), "n": n, "n+1": n + 1}.get(v, v)


def merged_level(t, d):
    """level rows in file order: merge targets and decoys files by descending score (stable, targets first)"""
    rows = [(r, True) for r in (t or [])] + [(r, False) for r in (d or [])]
    return [r for r, _ in sorted(rows, key=lambda x: -x[0]["score"])]


def check_collection(chk, case, k, df, score, files, level_names, lines_out, nmax=None):
    """compare one collection's result files with spec and model. `files[level] = (targets_df, decoys_df|None)`"""
    spectrum_cols = [c for c in ("filename", "ScanNr", "ret_time", "ExpMass") if c in df.columns]
    level_cols = ["Peptide"] + case["levels"] if case["rollup"] else []
    mscore = model_score(case, score)
    rows = P.table_rows(df, spectrum_cols, level_cols, mscore)
    byid = {sid: i for i, sid in enumerate(df["SpecId"])}
    problems = []
    lvl_rows = {}
    for lname in level_names:
        t, d = files[lname]
        out = {}
        for which, f in (("t", t), ("d", d)):
            recs = []
            if f is not None:
                for _, rec in f.iterrows():
                    if rec["PSMId"] not in byid:
                        problems.append(("foreign-row", lname, rec["PSMId"]))
                        continue
                    i = byid[rec["PSMId"]]
                    src = df.iloc[i]
                    intact = (
                        rec["peptide"] == src["Peptide"]
                        and str(rec["proteinIds"]) == str(src["Proteins"])
                        and float(rec["score"]) == float(score[i])
                        and all(rec[c] == src[c] for c in case["levels"] if c in f.columns)
                    )
                    if not intact:
                        problems.append(("row-mixed", lname, rec["PSMId"]))
                    if rows[i][3] != (which == "t"):
                        problems.append(("wrong-file", lname, rec["PSMId"]))
                    recs.append(dict(i=i, score=float(rec["score"]), q=float(rec["q-value"])))
                sc = [r["score"] for r in recs]
                if any(a < b for a, b in zip(sc, sc[1:])):
                    problems.append(("not-sorted", lname, which))
            out[which] = recs
        lvl_rows[lname] = out
    # spec + model via the driver
    cconf = csize(case["cconf"], nmax or len(df))
    desc = bool(case.get("desc", True))
    # the caller's view: table without scores + the score vector as given (negated when lower is better)
    given = [int(x) if desc else -int(x) for x in mscore]
    reqs = [req("conf", cconf, case["dedup"], len(level_cols), rows),
            req("levelfilesraw", cconf, case["dedup"], len(level_cols), desc, [r[:4] + [0] for r in rows], given)]
    plan = []
    if case["decoys"]:
        psm_out = merged_level(lvl_rows["psms"]["t"], lvl_rows["psms"]["d"])
        psm_rows = [rows[r["i"]] for r in psm_out]
        if case["dedup"]:
            reqs.append(req("levelspec", -1, rows, psm_rows))
            plan.append(("levelspec", "psms"))
        for l, lname in enumerate(level_names[1:]):
            lo = merged_level(lvl_rows[lname]["t"], lvl_rows[lname]["d"])
            reqs.append(req("levelspec", l, psm_rows, [rows[r["i"]] for r in lo]))
            plan.append(("levelspec", lname))
        for lname in level_names:
            lo = merged_level(lvl_rows[lname]["t"], lvl_rows[lname]["d"])
            if lo:
                reqs.append(req("qspec", True, [[Fraction(rows[r["i"]][4]), rows[r["i"]][3]] for r in lo]))
                plan.append(("qspec", lname))
    resp = common.driver_batch(reqs)
    model = dec(resp[0])
    m_psm = [int(x) for x in model[0]]
    m_lv = [[int(x) for x in lv] for lv in model[1]]
    raw = None if resp[1].strip().startswith("reject") else [[(int(i), int(sc)) for i, sc in lv] for lv in dec(resp[1])]
    spec_ok = not problems
    clause = None
    for (kind, lname), r in zip(plan, resp[2:]):
        if kind == "levelspec":
            if r.strip() != "T":
                spec_ok = False
                clause = f"level {lname}: not exactly one best row per key / not sorted / foreign row"
        else:
            exp = [rounded(a_rat(x)) for x in dec(r)] if r.strip() != "[]" else []
            lo = merged_level(lvl_rows[lname]["t"], lvl_rows[lname]["d"])
            # tied rows may be listed in another order: compare q per row via its score (q is a function of score)
            byscore = {}
            for rr, e in zip(lo, exp):
                byscore.setdefault(rr["score"], e)
            if any(byscore[rr["score"]] != rr["q"] for rr in lo):
                spec_ok = False
                clause = f"level {lname}: q-value column differs from the C01 formula on the retained rows"
    if case["decoys"] and not case["dedup"]:
        got = sorted(r["i"] for r in merged_level(lvl_rows["psms"]["t"], lvl_rows["psms"]["d"]))
        if got != list(range(len(df))):
            spec_ok = False
            clause = "deduplication off: PSM level is not the whole table"
    if problems and clause is None:
        clause = f"{problems[0][0]} at level {problems[0][1]}"
    # model comparison (exact when tie-free; targets only when the decoy files are not written)
    model_ok = True
    raw_ok = True
    if raw is None:
        raw_ok = False                  # the model of the chunk-wise score attachment raises, the real code did not
    elif any(sc != int(mscore[i]) for lv in raw for i, sc in lv):
        raw_ok = False                  # a row of the model carries another row's score
    if not case["ties"]:
        mlv = {"psms": m_psm, **{ln: m_lv[l] for l, ln in enumerate(level_names[1:])}}
        for lname in level_names:
            want_t = [i for i in mlv[lname] if rows[i][3]]
            want_d = [i for i in mlv[lname] if not rows[i][3]]
            got_t = [r["i"] for r in lvl_rows[lname]["t"]]
            got_d = [r["i"] for r in lvl_rows[lname]["d"]]
            if got_t != want_t or (case["decoys"] and got_d != want_d):
                model_ok = False
        if raw is not None:
            # the same comparison with the model that starts from (table, score vector, direction)
            for l, lname in enumerate(level_names):
                ids = [i for i, _ in raw[l]] if l < len(raw) else None
                if ids is None or [r["i"] for r in lvl_rows[lname]["t"]] != [i for i in ids if rows[i][3]] or (
                        case["decoys"] and [r["i"] for r in lvl_rows[lname]["d"]] != [i for i in ids if not rows[i][3]]):
                    raw_ok = False
        if not case["decoys"] and model_ok:
            # q-values of the targets file against the model's level rows
            qreq = [req("levelq", [rows[i] for i in mlv[ln]]) for ln in level_names]
            for ln, r in zip(level_names, common.driver_batch(qreq)):
                qs = [rounded(a_rat(x)) for x in dec(r)] if r.strip() != "[]" else []
                want = [q for i, q in zip(mlv[ln], qs) if rows[i][3]]
                if want != [r_["q"] for r_ in lvl_rows[ln]["t"]]:
                    spec_ok = False
                    clause = f"level {ln}: q-value column differs from the C01 formula on the retained rows"
    if case["ties"] and case["decoys"]:
        # C03_levelSpec_unique_rows_groupwise: with ties only ACROSS groups the retained rows are determined
        # (as a set) although their order is not -> compare the sets with the model
        def groupwise_free(inp, keyf):
            seen = set()
            for r_ in inp:
                kk = (keyf(r_), r_[4])
                if kk in seen:
                    return False
                seen.add(kk)
            return True

        got_psm = sorted(r["i"] for r in merged_level(lvl_rows["psms"]["t"], lvl_rows["psms"]["d"]))
        psm_determined = (not case["dedup"]) or groupwise_free(rows, lambda r_: r_[1])
        if psm_determined:
            chk.count("groupwise_tiefree_sets", "psms")
            if got_psm != sorted(m_psm):
                model_ok = False
            for l, lname in enumerate(level_names[1:]):
                if groupwise_free([rows[i] for i in got_psm], lambda r_, l=l: r_[2][l]):
                    chk.count("groupwise_tiefree_sets", lname)
                    got_l = sorted(r["i"] for r in merged_level(lvl_rows[lname]["t"], lvl_rows[lname]["d"]))
                    if got_l != sorted(m_lv[l]):
                        model_ok = False
    info = dict(case=case, collection=k, clause=clause, problems=[list(p) for p in problems[:5]],
                impl={ln: dict(t=[r["i"] for r in v["t"]], d=[r["i"] for r in v["d"]]) for ln, v in lvl_rows.items()},
                model=dict(psms=m_psm, levels=m_lv))
    multi = any(sum(1 for r in rows if r[1] == s) > 1 for s in set(r[1] for r in rows)) or bool(level_cols)
    key = (tuple((r[1], tuple(r[2]), r[3]) for r in rows), tuple(np.argsort(score).tolist()), case["dedup"],
           case["rollup"], case["decoys"], cconf, case["cmerge"]) if multi else None
    chk.case(None, key, sample=dict(case={k_: str(v) for k_, v in case.items()}, n_rows=len(df),
                                    psms_out=len(lvl_rows["psms"]["t"]) + len(lvl_rows["psms"]["d"])))
    if not spec_ok:
        sig = "level-spec" if "q-value" not in (clause or "") else "level-qvalues"
        if {"INF", "INFINITY"} & set(df["Peptide"]):
            sig += ":peptides-INF-INFINITY"       # names that read as numbers (see GAPS-C03.md, second pass, O9)
        chk.spec_violation(sig, info)
    elif not model_ok:
        chk.corr_break("conf", info)
    elif not raw_ok:
        chk.corr_break("levelfilesraw", dict(info, raw=raw))


def check_directory(chk, case, tabs, out, prefixes, level_names, cconf, tabs2=None):
    """whole destination directory vs the model of the loop over collections (`confrun`: chunked sort, modelled
    merge_sort, batched scan, chunk-wise writer, initialise/append per prefix): the set of result files, and - when
    tie-free - every file's rows and q-values in file order (collections without prefix share files).  With `tabs2`
    (a second call with append_to_output_file=True on the same directory) the model is `confcalls`: both calls."""
    nlev = len(level_names) - 1
    level_cols = ["Peptide"] + case["levels"] if case["rollup"] else []
    root = case.get("file_root", "")
    calls, offs, off = [], [], 0
    for tb in ([tabs] if tabs2 is None else [tabs, tabs2]):
        colls = []
        for k, (df, score) in enumerate(tb):
            spectrum_cols = [c for c in ("filename", "ScanNr", "ret_time", "ExpMass") if c in df.columns]
            rows = P.table_rows(df, spectrum_cols, level_cols, model_score(case, score))
            colls.append([k if prefixes[k] else -1, [[r[0] + off] + r[1:] for r in rows]])
            offs.append(off)
            off += len(df)
        calls.append(colls)
    if tabs2 is None:
        op = "confrun"
        resp = common.driver_batch([req(op, cconf, case["dedup"], nlev, case["decoys"], calls[0])])[0].strip()
    else:
        op = "confcalls"
        resp = common.driver_batch([req(op, cconf, case["dedup"], nlev, case["decoys"],
                                        [[False, calls[0]], [True, calls[1]]])])[0].strip()
    if resp.startswith("reject"):
        chk.corr_break(op, dict(case=case, model=resp, clause="model raises, real code did not"))
        return
    model = {}
    for pre, dec_, lvl, lines in dec(resp):
        nm = root + (f"p{pre}." if int(pre) >= 0 else "") + ("decoys." if a_bool(dec_) else "targets.") + level_names[int(lvl)]
        model[nm] = None if lines == "absent" else [(int(i), rounded(a_rat(q))) for i, q in lines]
    want_names = {nm for nm, v in model.items() if v is not None}
    # restated independently: per prefix (or once without prefixes) and level one targets file, a decoys file iff asked
    spec_names = {root + (f"{pre}." if pre else "") + w + ln for pre in set(prefixes) for ln in level_names
                  for w in (("targets.", "decoys.") if case["decoys"] else ("targets.",))}
    got_names = {f.name for f in out.iterdir()}
    if got_names != spec_names:
        chk.spec_violation("result-file-set", dict(case=case, clause="set of result files differs from one targets (and "
                           "decoys) file per prefix and level", impl=sorted(got_names), expected=sorted(spec_names)))
        return
    if want_names != spec_names:
        chk.corr_break(op, dict(case=case, model=sorted(want_names), impl=sorted(got_names)))
        return
    for nm in sorted(spec_names):
        f = read_result(out / nm)
        if "PSMId" not in f.columns or "q-value" not in f.columns or "score" not in f.columns:
            chk.spec_violation("result-file-header", dict(case=case, file=nm, impl=[str(c) for c in f.columns][:8],
                               clause="result file without its header line"))
            return False
    chk.count("directory_compared", ("names+rows" if not case["ties"] else "names") + ("+appended-call" if tabs2 else ""))
    # which call and collection a row came from is told by its identifier: rows of an earlier call / collection come first
    for nm in sorted(spec_names):
        f = read_result(out / nm)
        got, order = [], []
        for sid, q in zip(f["PSMId"].astype(str), f["q-value"]):
            k_, i_ = sid[1:].split("_")
            got.append((offs[int(k_)] + int(i_), float(q)))
            order.append(int(k_))
        if any(a > b for a, b in zip(order, order[1:])):
            chk.spec_violation("collections-order", dict(case=case, file=nm, clause="rows of collections without prefix "
                               "(or of an appending call) are not appended collection after collection", impl=order))
            return
        if not case["ties"] and got != model[nm]:
            chk.corr_break(op, dict(case=case, file=nm, impl=got[:40], model=model[nm][:40]))
            return


def run_case(chk, case):
    tabs = build_tables(case)
    tabs2 = build_tables(case, call=1) if case.get("append2") else None
    n = max(len(df) for df, _ in tabs)
    root = case.get("file_root", "")
    desc = bool(case.get("desc", True))
    with P.workdir() as d:
        def datasets_of(tb, tag):
            ds = []
            for k, (df, _) in enumerate(tb):
                if case["fmt"] == "pin":
                    p = write_pin_text(df, d / f"in{tag}{k}.pin", case.get("mass_text") == "mixed")
                else:
                    p = mkdata.write_table(df, d / f"in{tag}{k}.{case['fmt']}", row_group_size=case["rg"])
                ds.append(mkdata.read_dataset(p))
            return ds

        datasets = datasets_of(tabs, "")
        out = d / "out"
        out.mkdir()
        mask = case.get("prefix_mask")
        if not mask or len(mask) != case["ncoll"]:
            mask = [bool(case["prefixes"])] * case["ncoll"]
        prefixes = [f"p{k}" if mask[k] else None for k in range(case["ncoll"])]
        level_cols = ["Peptide"] + case["levels"] if case["rollup"] else []
        level_names = ["psms"] + [P.LEVEL_FILE[c] for c in level_cols]
        kw = dict(decoys=case["decoys"], deduplication=case["dedup"], do_rollup=case["rollup"])
        if root:
            kw["file_root"] = root
        if not desc:
            kw["descs"] = [False] * case["ncoll"]          # lower is better: the caller hands over the negated scores
        omit = bool(case.get("omit_prefixes")) and not any(mask)
        if not omit:
            kw["prefixes"] = prefixes                      # (omitted: the documented default, no prefixes)

        def given(tb):
            return [s_ if desc else -s_ for _, s_ in tb]

        snapshot = None
        try:
            with P.chunk_sizes(confidence=csize(case["cconf"], n), merge=csize(case["cmerge"], n)), \
                    P.pep_kernel(stub=case.get("pep", "stub") == "stub"):
                P.run_assign_confidence(datasets, given(tabs), out, **kw)
                if tabs2 is not None:
                    snapshot = {f.name: f.read_bytes() for f in out.iterdir()}
                    P.run_assign_confidence(datasets_of(tabs2, "b"), given(tabs2), out, append_to_output_file=True, **kw)
        except SystemExit as e:
            chk.reject("pep-estimator-exit:" + str(e)[:40])
            return
        except Exception as e:
            msg = f"{type(e).__name__}: {e}"
            if P.raised_in_pep_kernel(e):
                chk.reject("pep-estimator:" + type(e).__name__)
                return
            chk.case(None, None, sample=dict(case={k_: str(v) for k_, v in case.items()}))
            chk.spec_violation("exception:" + type(e).__name__,
                               dict(case=case, error=msg[:400], clause="assign_confidence raised"
                                    + (" (called without the `prefixes` argument)" if omit else "")))
            return
        chk.count("fmt", case["fmt"]); chk.count("dedup", case["dedup"]); chk.count("rollup", case["rollup"])
        chk.count("decoys", case["decoys"]); chk.count("ties", case["ties"]); chk.count("ncoll", case["ncoll"])
        chk.count("prefixes", "mixed" if (any(mask) and not all(mask)) else case["prefixes"]); chk.count("cconf", str(case["cconf"])); chk.count("scores_straddle_zero", bool(case.get("center")))
        chk.count("cmerge", str(case["cmerge"])); chk.count("nlevels", len(level_names))
        chk.count("tie_mode", case.get("tie_mode", "any" if case["ties"] else "none"))
        chk.count("file_root", root or "none"); chk.count("labels", case.get("labels", "mixed"))
        chk.count("score_form", case.get("score_form", "int")); chk.count("higher_is_better", desc)
        chk.count("mass_text", case.get("mass_text", "plain")); chk.count("second_call_appending", tabs2 is not None)
        chk.count("prefixes_argument", "omitted" if omit else "given"); chk.count("n_spectra", case["n_spectra"])
        chk.count("peptide_names", "INF/INFINITY" if any({"INF", "INFINITY"} & set(df_["Peptide"]) for df_, _ in tabs) else "plain")
        # leftovers: no intermediate files (also C09)
        left = [f.name for f in out.iterdir() if "scores_metadata" in f.name or f.name.split(".")[-1] in ("pin", "parquet")]
        if left:
            chk.spec_violation("intermediates-left", dict(case=case, files=left, clause="intermediate files remain"))
        if snapshot is not None:
            # append_to_output_file=True: whatever the earlier call wrote is still there, byte for byte, at the start
            for nm, old in sorted(snapshot.items()):
                f = out / nm
                if not f.exists() or not f.read_bytes().startswith(old):
                    chk.case(None, None, sample=dict(case={k_: str(v) for k_, v in case.items()}))
                    chk.spec_violation("append-lost-earlier-results", dict(case=case, file=nm, clause="after a call with "
                                       "append_to_output_file=True a result file no longer starts with what the earlier "
                                       "call had written"))
                    return
        if check_directory(chk, case, tabs, out, prefixes, level_names, csize(case["cconf"], n), tabs2) is False:
            return
        ncoll = case["ncoll"]
        for kk, (df, score) in enumerate(tabs + (tabs2 or [])):
            k = kk % ncoll
            files = {}
            for ln in level_names:
                pre = root + (f"{prefixes[k]}." if prefixes[k] else "")
                t = read_result(out / f"{pre}targets.{ln}")
                dd = read_result(out / f"{pre}decoys.{ln}")
                if t is None:
                    chk.spec_violation("missing-file", dict(case=case, file=f"{pre}targets.{ln}", clause="result file missing"))
                    return
                if not case["decoys"] and dd is not None:
                    chk.spec_violation("decoys-written", dict(case=case, clause="decoys file written although decoys=False"))
                    return
                if not prefixes[k] or tabs2 is not None:
                    # collections without prefix share files, an appending call adds to them: split by identifier
                    t = t[t["PSMId"].astype(str).str.startswith(f"c{kk}_")]
                    dd = dd[dd["PSMId"].astype(str).str.startswith(f"c{kk}_")] if dd is not None else None
                files[ln] = (t, dd)
            check_collection(chk, case, kk, df, score, files, level_names, None, nmax=n)


def run_badscores(chk, rng):
    """score vector whose length differs from the table's (a caller's error: the property promises nothing).  The code
    pairs table chunks and score slices with `zip`, so what happens depends on the chunk size: the model of that loop
    (`levelfilesraw`) must raise exactly when the real code does and, when neither does, retain the same PSMs."""
    import random

    n_spec = rng.choice([4, 6, 9])
    c = rng.choice([1, 2, 3, 5])
    delta = rng.choice([-5, -4, -3, -2, -1, 1, 2, 3, 5])
    seed = rng.randrange(1 << 30)
    r = random.Random(seed)
    df = mkdata.make_psm_table(r, n_spectra=n_spec, max_per_spectrum=2, n_feat=2, optional=("ExpMass",), rowid=False)
    df["SpecId"] = [f"c0_{i}" for i in range(len(df))]
    n = len(df)
    m = max(0, n + delta)
    score = np.array([float(r.randrange(-50, 50) * 64 + i) for i in range(m)])
    rows = P.table_rows(df, ["ScanNr", "ExpMass"], ["Peptide"], np.zeros(n))
    mresp = common.driver_batch([req("levelfilesraw", c, True, 1, True, rows, [int(x) for x in score])])[0].strip()
    case = dict(kind="score-vector-length", n_rows=n, n_scores=m, chunk=c, data_seed=seed)
    chk.case(None, ("badscores", n, m, c), sample=case)
    with P.workdir() as d:
        ds = mkdata.read_dataset(mkdata.write_table(df, d / "in.pin"))
        out = d / "out"; out.mkdir()
        try:
            with P.chunk_sizes(confidence=c, merge=3), P.pep_kernel(stub=True):
                P.run_assign_confidence([ds], [score], out, prefixes=[None], decoys=True)
            raised = None
        except Exception as e:
            raised = type(e).__name__
        if raised is not None:
            chk.count("score_vector_wrong_length", "raises")
            if not mresp.startswith("reject"):
                chk.corr_break("levelfilesraw", dict(case=case, impl="raises " + raised, model=mresp[:200]))
            else:
                chk.reject("score-vector-length")
            return
        if mresp.startswith("reject"):
            chk.corr_break("levelfilesraw", dict(case=case, impl="returns", model=mresp))
            return
        chk.count("score_vector_wrong_length", "accepted: trailing table chunks ignored")
        model = [[int(i) for i, _ in lv] for lv in dec(mresp)]
        got = []
        for ln in ("psms", "peptides"):
            t = read_result(out / f"targets.{ln}"); dd = read_result(out / f"decoys.{ln}")
            recs = [(float(sc), int(sid.split("_")[1])) for f in (t, dd) for sid, sc in zip(f["PSMId"], f["score"])]
            got.append([i for _, i in sorted(recs, key=lambda x: -x[0])])
        if got != model:
            chk.corr_break("levelfilesraw", dict(case=case, impl=got, model=model))


KEY_TEXTS = ["500", "500.0", "+500.", "5e2", ".5E+3", "0500", "5000e-1", "345.5", "345.50", "3455e-1", "7", " 7", "7 ", "7.0",
             "-7", "+7", "1000", "1e3", "1_000", "0", "-0", "0.0", "-0.0", "INF", "INFINITY", "inf", "-inf", "Infinity", "NAN",
             "nan", "NA", "None", "True", "False", "true", "", ".", "+", "e5", "1e", "1e+", "0x10", "17_b", "PEPTIDEK",
             "PEP0K", "r1", "r", "11", "1", "12", "[1]", "1, 2", "'a'", 'a"b']
KEY_NUMS = [(500, 0), (5, 2), (5000, -1), (3455, -1), (7, 0), (70, -1), (-7, 0), (1000, 0), (1, 3), (0, 0), (11, 0), (1, 0), (12, 0),
            (25, -2), (-25, -2)]


def entity_key_check(chk, rng, n):
    """`mokapot.confidence._entity_key` (the seen-set key of the scan) against the model `confEntityKey`: for pairs of
    rows of cells - numbers as int or float, texts (numbers in several spellings, words Python's float() accepts,
    quotes, commas), bools - the two keys are equal in the code iff they are equal in the model; and the model's
    "plain number" test against an independent restatement of the documented form"""
    import re

    C = P.mod("mokapot.confidence")
    if not hasattr(C, "_entity_key"):
        chk.count("entity-key-function", "absent"); return
    plain = re.compile(r"[+-]?(?:[0-9]+\.?[0-9]*|\.[0-9]+)(?:[eE][+-]?[0-9]+)?")

    def cell():
        k = rng.random()
        if k < 0.55:
            t = rng.choice(KEY_TEXTS)
            return t, ["t", t]
        if k < 0.9:
            m, e = rng.choice(KEY_NUMS)
            as_float = e < 0 or rng.random() < 0.5
            v = float(f"{m}e{e}") if as_float else int(m * 10 ** e)
            if rng.random() < 0.3:
                v = (np.float64 if as_float else np.int64)(v)
            if m == 0 and as_float and rng.random() < 0.5:
                return -0.0, ["n", 0, 0, True]
            return v, ["n", m, e, False]
        b = rng.random() < 0.5
        return (np.bool_(b) if rng.random() < 0.5 else b), ["b", b]

    cases = []
    for _ in range(n):
        w = rng.choice([1, 1, 2, 3])
        a = [cell() for _ in range(w)]
        b = [cell() if rng.random() < 0.6 else a[i] for i in range(w)]
        cases.append((a, b))
    resp = common.driver_batch([req("entitykeyeq", [c for _, c in a], [c for _, c in b]) for a, b in cases]
                               + [req("plainnumber", t) for t in KEY_TEXTS])
    for (a, b), r in zip(cases, resp):
        impl = C._entity_key([v for v, _ in a]) == C._entity_key([v for v, _ in b])
        model = r.strip() == "T"
        chk.case(None, ("entity-key", repr([c for _, c in a]), repr([c for _, c in b])), sample=None)
        chk.count("entity-key-pairs", "same key" if model else "different keys")
        if impl != model:
            chk.corr_break("entitykeyeq", dict(case=dict(kind="entity-key", a=[c for _, c in a], b=[c for _, c in b]),
                                               impl=impl, model=model))
    for t, r in zip(KEY_TEXTS, resp[len(cases):]):
        if (r.strip() == "T") != bool(plain.fullmatch(t)) and t.isascii():
            chk.corr_break("plainnumber", dict(case=dict(kind="entity-key", text=t), model=r.strip(),
                                               expected=bool(plain.fullmatch(t))))


ROLLUP_LEVELS = [("precursor", "Precursor"), ("modified_peptide", "ModifiedPeptide"), ("peptide", "peptide"),
                 ("peptide_group", "PeptideGroup")]          # order of brew_rollup.compute_rollup_levels("psm")

# restated from the documentation of the tool, NOT read from the code under test
STD_COL = {"SpecId": "psm_id", "PSMId": "psm_id", "Precursor": "precursor", "pcm": "precursor", "PCM": "precursor",
           "Peptide": "peptide", "PeptideGroup": "peptide_group", "peptidegroup": "peptide_group",
           "ModifiedPeptide": "modified_peptide", "modifiedpeptide": "modified_peptide", "q-value": "q_value"}
PARENTS = [("precursor", "psm"), ("modified_peptide", "precursor"), ("peptide", "modified_peptide"),
           ("peptide_group", "precursor")]
CLI_LEVELS = ["psm", "precursor", "modifiedpeptide", "peptide", "peptidegroup"]
BASE_FILES = {"psm": "psms", "precursor": "precursors", "peptide": "peptides", "modifiedpeptide": "modifiedpeptides",
              "peptidegroup": "peptidegroups"}
BASE_NEEDS = {"precursor": "Precursor", "modifiedpeptide": "ModifiedPeptide", "peptidegroup": "PeptideGroup"}


def reachable(base, parents):
    """levels reachable from `base` through child->parent links, as a set (breadth-first over the children map;
    independent of the pass-until-no-change loop of the code and of the model)"""
    kids = {}
    for c, p_ in parents:
        kids.setdefault(p_, []).append(c)
    seen, todo = {base}, [base]
    while todo:
        x = todo.pop()
        for c in kids.get(x, []):
            if c not in seen:
                seen.add(c)
                todo.append(c)
    return seen


def rollup_levels_check(chk, rng, n_random):
    """`compute_rollup_levels` (public, brew_rollup.py) vs the model `rolluplevels` and vs reachability, on the
    default parent map for every accepted --level and on random parent maps; the constants vs the model's copy"""
    BR = P.mod("mokapot.brew_rollup")
    import contextlib, io

    d0 = dec(common.driver_batch([req("rollupdefault")])[0])
    m_par = [(common.a_str(c), common.a_str(p_)) for c, p_ in d0[0]]
    m_cli = [common.a_str(x) for x in d0[1]]
    if list(BR.DEFAULT_PARENT_LEVELS.items()) != m_par or m_par != PARENTS:
        chk.corr_break("rollupdefault", dict(clause="DEFAULT_PARENT_LEVELS differs from the model's table",
                                             impl=list(BR.DEFAULT_PARENT_LEVELS.items()), model=m_par))
    m_std = [(common.a_str(c), common.a_str(p_)) for c, p_ in d0[2]]
    if list(BR.STANDARD_COLUMN_NAME_MAP.items()) != m_std or dict(m_std) != STD_COL:
        chk.corr_break("rollupdefault", dict(clause="STANDARD_COLUMN_NAME_MAP differs from the model's table",
                                             impl=list(BR.STANDARD_COLUMN_NAME_MAP.items()), model=m_std))
    for x in m_cli + ["protein"]:
        try:
            with contextlib.redirect_stderr(io.StringIO()):
                ok = BR.parse_arguments(["--level", x]).level == x
        except SystemExit:
            ok = False
        if ok != (x in CLI_LEVELS):
            chk.corr_break("rollupdefault", dict(clause=f"--level {x}: accepted={ok}", model=m_cli))
    maps = [(b, PARENTS) for b in CLI_LEVELS]
    for _ in range(n_random):
        names = "abcdefg"[: rng.choice([2, 3, 4, 5, 7])]
        par = []
        for c in rng.sample(list(names), rng.randint(0, len(names))):
            par.append((c, rng.choice(names)))
        maps.append((rng.choice(names), par))
    resp = common.driver_batch([req("rolluplevels", b, [[c, p_] for c, p_ in par]) for b, par in maps])
    for (b, par), r in zip(maps, resp):
        model = [common.a_str(x) for x in dec(r)]
        impl = BR.compute_rollup_levels(b, dict(par))
        chk.case(None, ("rollup-levels", b, tuple(par)) if par else None, sample=dict(base=b, parents=par, levels=impl))
        chk.count("rollup-level-maps", "default" if par is PARENTS else f"random-{len(par)}")
        if set(impl) != reachable(b, par) or len(set(impl)) != len(impl) or impl[:1] != [b]:
            chk.spec_violation("rollup-levels", dict(case=dict(base=b, parents=par), impl=impl,
                                                     expected=sorted(reachable(b, par)),
                                                     clause="levels are not exactly those reachable from the base level"))
        elif impl != model:
            chk.corr_break("rolluplevels", dict(case=dict(base=b, parents=par), impl=impl, model=model))


ROLLUP_BASES = ["psm", "psm", "psm", "precursor", "precursor", "peptide", "modifiedpeptide", "peptidegroup"]


def gen_rollup(rng, base=None):
    base = base or rng.choice(ROLLUP_BASES)
    levels = [c for c in ("ModifiedPeptide", "Precursor", "PeptideGroup") if rng.random() < 0.6]
    if base in BASE_NEEDS and BASE_NEEDS[base] not in levels:
        levels = [c for c in ("ModifiedPeptide", "Precursor", "PeptideGroup") if c in levels or c == BASE_NEEDS[base]]
    case = dict(n_spectra=rng.choice([6, 12, 25]), max_per=rng.choice([1, 2, 3]), levels=levels,
                ncoll=rng.choice([1, 2, 3]), data_seed=rng.randrange(1 << 30), npep=rng.choice([3, 6, 12]), enc="pm1",
                optional=("ExpMass",), ties=False, base=base, parquet=rng.random() < 0.3,
                unsorted=rng.random() < 0.15, rerun=rng.random() < 0.35, tool_ties=rng.random() < 0.3)
    # second pass: the size-dependent branches of the tool (its writers buffer 1000 rows, its merged reader reads
    # 10000 rows at a time) are reached by shrinking these constants; result files named by a file root
    r2 = __import__("random").Random(case["data_seed"] ^ 0x5EC0D)
    case["buffer"] = r2.choice([None, None, 2, 3, 7])            # None: the tool's own constant
    case["reader_chunk"] = r2.choice([None, None, 1, 2, 5])
    case["naming"] = r2.choice(["prefix", "prefix", "root+prefix", "root"])
    if case["naming"] == "root":
        case["ncoll"] = 1
    # third pass: level identifiers that read as numbers.  A text file is parsed reader chunk by reader chunk, so the
    # precursor `103` reaches the tool's seen-set as the number 103 from a chunk of whole numbers and as the text "103"
    # from a chunk that also holds the precursor `x4` (drawn last, so that the earlier dimensions stay what they were)
    case["numeric_ids"] = bool("Precursor" in levels and r2.random() < 0.35)
    if case["numeric_ids"]:
        case["tool_ties"] = False
        # an entity is met under both types when some reader chunk holds a word and another one does not
        case["reader_chunk"] = r2.choice([1, 2, 2, 5, None])
    return case


def rollup_case(chk, rng):
    run_rollup(chk, gen_rollup(rng))


def run_rollup(chk, case):
    """stand-alone roll-up tool on result files written by assign_confidence (with extra level columns whose
    ids are deliberately NOT nested in one another: a precursor may belong to several peptide groups); every accepted
    --level; text or Parquet input; an unsorted input file; a second run with the source directory as destination"""
    BR = P.mod("mokapot.brew_rollup")
    import contextlib, io, random

    base = case.get("base", "psm")
    tabs = build_tables(case)
    r = random.Random(case["data_seed"] + 1)
    tabs2 = []
    for off, (df, score) in enumerate(tabs):
        df = df.copy()
        pre = ["" if x == 1 else "decoy_" for x in df["Label"]]
        if "PeptideGroup" in df.columns:     # groups independent of the peptide
            # with ties: targets and decoys SHARE peptide groups, so that a target/decoy tie decides a group
            df["PeptideGroup"] = [("" if case.get("tool_ties") else p_) + f"G{r.randrange(4)}" for p_ in pre]
        if "Precursor" in df.columns:
            df["Precursor"] = [p_ + f"pre{r.randrange(6)}" for p_ in pre]
        if case.get("tool_ties"):
            # few score values, independent of the label: the best target and the best decoy of a group often tie
            tabs2.append((df, np.array([float(r.randrange(4)) for _ in range(len(df))])))
        else:
            tabs2.append((df, score * 8 + off))           # distinct scores across collections

    buf, rchunk = case.get("buffer"), case.get("reader_chunk")

    @contextlib.contextmanager
    def tool_constants():
        """`temp_buffer_size` / `buffer_size` / `reader_chunk_size` are literals inside do_rollup: the names it looks
        up in its module are wrapped so that a buffered writer gets `buf` rows and the merged reader `rchunk` rows"""
        real_w, real_r = BR.TabularDataWriter, BR.MergedTabularDataReader

        class SmallBufferWriters:
            @staticmethod
            def from_suffix(file_name, columns=None, buffer_size=0, **kw):
                if buf and buffer_size > 1:
                    buffer_size = buf
                return real_w.from_suffix(file_name, columns=columns, buffer_size=buffer_size, **kw)

        def small_chunk_reader(readers, *a, **kw):
            if rchunk:
                kw["reader_chunk_size"] = rchunk
            return real_r(readers, *a, **kw)

        BR.TabularDataWriter, BR.MergedTabularDataReader = SmallBufferWriters, small_chunk_reader
        try:
            yield
        finally:
            BR.TabularDataWriter, BR.MergedTabularDataReader = real_w, real_r

    def tool(src_dir, dest_dir):
        with contextlib.redirect_stdout(io.StringIO()), contextlib.redirect_stderr(io.StringIO()), \
                P.pep_kernel(stub=True), tool_constants():
            BR.main(["--level", base, "-s", str(src_dir), "-d", str(dest_dir), "-r", "roll"])

    with P.workdir() as d:
        datasets = [mkdata.read_dataset(mkdata.write_table(df, d / f"in{k}.pin")) for k, (df, _) in enumerate(tabs2)]
        src = d / "src"; src.mkdir(); dest = d / "dest"; dest.mkdir()
        naming = case.get("naming", "prefix")
        if naming == "root" and len(tabs2) > 1:
            naming = "root+prefix"       # collections without prefix share one (then unsorted) file: not an input of the tool
        froot = "" if naming == "prefix" else "exp."
        with P.pep_kernel(stub=True):
            P.run_assign_confidence(datasets, [s for _, s in tabs2], src, file_root=froot,
                                    prefixes=[None if naming == "root" else f"p{k}" for k in range(len(tabs2))],
                                    decoys=True, do_rollup=True)
        stems = [froot.rstrip(".")] if naming == "root" else [f"{froot}p{k}" for k in range(len(tabs2))]
        in_names = [f"{st}.{w}.{BASE_FILES[base]}" for w in ("targets", "decoys") for st in stems]
        if any(read_result(src / nm) is None for nm in in_names):
            chk.spec_violation("missing-file", dict(case=case, clause="input file of the roll-up tool was not written"))
            return
        if any(len(read_result(src / nm)) == 0 for nm in in_names):
            chk.reject("rollup-input-file-without-rows")   # column types of an empty file cannot be inferred
            return
        numeric = bool(case.get("numeric_ids")) and all("Precursor" in read_result(src / nm).columns for nm in in_names)
        if numeric:
            # the same precursors under identifiers that read as whole numbers (`pre3` -> `103`, `decoy_pre3` -> `203`),
            # but for one or two of them, which keep a word (`x3` / `dx3`).  The merged reader takes the column types
            # of a file from its first two rows and refuses files of different types: the words are chosen among the
            # precursors that are not in the first two rows of any file.
            fr = {nm: read_result(src / nm) for nm in in_names}
            heads = {x for f in fr.values() for x in list(f["Precursor"])[:2]}
            free = sorted({x for f in fr.values() for x in f["Precursor"]} - heads)
            r3 = random.Random(case["data_seed"] ^ 0x1D5)
            words = set(r3.sample(free, min(len(free), r3.choice([1, 1, 2]))))

            def newid(e):
                k_ = int(str(e).rsplit("pre", 1)[1])
                isdec = str(e).startswith("decoy_")
                return (("dx" if isdec else "x") + str(k_)) if e in words else str((200 if isdec else 100) + k_)

            for nm, f in fr.items():
                f = f.copy()
                f["Precursor"] = [newid(e) for e in f["Precursor"]]
                f.to_csv(src / nm, sep="\t", index=False)
            chk.count("rollup-tool-numeric-level-ids", f"{len(words)} word id(s) among whole numbers")
        sfx = ""
        if case.get("parquet"):
            pqd = d / "pq"; pqd.mkdir(); sfx = ".parquet"
            for nm in in_names:
                read_result(src / nm).to_parquet(pqd / (nm + sfx), index=False)
            src = pqd
        chk.count("rollup-tool-base", base); chk.count("rollup-tool-input", "parquet" if sfx else "text")
        chk.count("rollup-tool-writer-buffer", str(buf or "1000 (as is)")); chk.count("rollup-tool-input-names", naming)
        chk.count("rollup-tool-reader-chunk", str(rchunk or "10000 (as is)"))
        # the rows the tool reads, in the order of its readers: targets files by name, then decoys files
        frames = [(nm, read_result(src / (nm + sfx))) for nm in in_names]
        cols = [STD_COL.get(c, c) for c in frames[0][1].columns] + ["is_decoy"]
        cands = [ln for ln, _ in ROLLUP_LEVELS if ln in cols]
        incol = {STD_COL.get(c, c): c for c in frames[0][1].columns}
        ids = [dict() for _ in cands]
        allrows, meta, tfiles, dfiles = [], {}, [], []
        where = {}                          # row -> (file, position in the file, text of its precursor cell)
        for nm, f in frames:
            rows_f = []
            for pos_, (_, rec) in enumerate(f.iterrows()):
                i = len(allrows)
                if numeric:
                    where[i] = (nm, pos_, str(rec[incol["precursor"]]))
                keys = [ids[l].setdefault(rec[incol[ln]], len(ids[l])) for l, ln in enumerate(cands)]
                row = [i, i, keys, ".targets." in nm, int(rec["score"])]
                allrows.append(row); rows_f.append(row)
                meta[rec["PSMId"]] = i
            (tfiles if ".targets." in nm else dfiles).append(rows_f)
        if case.get("unsorted"):
            big = [(nm, f) for nm, f in frames if f["score"].nunique() >= 2]
            if big:
                nm, f = big[0]
                g = f.iloc[::-1]
                if sfx:
                    g.to_parquet(src / (nm + sfx), index=False)
                else:
                    g.to_csv(src / nm, sep="\t", index=False)
                fl = tfiles if ".targets." in nm else dfiles
                idx = [n_ for n_ in in_names if (".targets." in n_) == (".targets." in nm)].index(nm)
                fl[idx] = fl[idx][::-1]
                mresp = common.driver_batch([req("rolluprun", base, cols, cands, tfiles, dfiles)])[0].strip()
                chk.case(None, ("rollup-unsorted", case["data_seed"], base), sample=dict(rollup=case))
                chk.count("rollup-tool-unsorted-input", 1)
                try:
                    tool(src, dest)
                except (Exception, SystemExit) as e:
                    if mresp != "reject-unsorted":
                        chk.corr_break("rolluprun", dict(case=case, impl=type(e).__name__, model=mresp))
                    return
                chk.spec_violation("rollup-unsorted-accepted", dict(case=case, file=nm, clause="an input file that is "
                                   "not sorted by descending score was rolled up instead of being refused"))
                return
        try:
            tool(src, dest)
        except SystemExit:
            chk.reject("rollup-exit"); return
        except Exception as e:
            chk.spec_violation("rollup-exception:" + type(e).__name__, dict(case=case, error=str(e)[:300], clause="brew_rollup raised"))
            return
        merged = sorted(allrows, key=lambda r_: -r_[4])
        resp = common.driver_batch([req("rolluptool", len(cands), merged), req("rolluprun", base, cols, cands, tfiles, dfiles),
                                    req("rolluprunb", buf or 1000, base, cols, cands, tfiles, dfiles)])
        model = [[int(x) for x in lv] for lv in dec(resp[0])]
        if resp[1].strip().startswith("reject"):
            chk.corr_break("rolluprun", dict(case=case, model=resp[1].strip(), clause="model raises, the tool did not"))
            return
        mrun = {common.a_str(o[0]): ([(int(i), rounded(a_rat(q))) for i, q in o[1]],
                                     [(int(i), rounded(a_rat(q))) for i, q in o[2]]) for o in dec(resp[1])}
        if resp[2].strip() != resp[1].strip():
            # the model with the buffered temporary writers (the tool as it runs) against the row-by-row model
            chk.corr_break("rolluprunb", dict(case=case, model=resp[2].strip()[:300], unbuffered=resp[1].strip()[:300]))
            return
        # which levels: independent restatement = the level named by --level (as a column name) and every level
        # below it in the documented hierarchy, restricted to the columns present
        base_col = STD_COL.get(base, base)
        spec_levels = reachable(base_col, PARENTS) & set(cols)
        got_files = {f.name for f in dest.iterdir()}      # the temporary level files of the tool included: none may remain
        want_files = {f"roll.{w}.{ln}s{sfx}" for ln in spec_levels for w in ("targets", "decoys")}
        ok_spec, ok_model, clause, drift = True, True, None, False
        if base != "psm" and base_col in cols and not {f"roll.{w}.{base_col}s{sfx}" for w in ("targets", "decoys")} <= got_files:
            # every accepted --level whose input files exist and carry the level's column yields that level's files
            chk.case(None, ("rollup", case["data_seed"], base), sample=dict(rollup=case))
            chk.spec_violation("rollup-level-dead-end", dict(case=case, impl=sorted(got_files), expected=sorted(want_files),
                               clause=f"--level {base}: the input files carry the column {base_col} but no result "
                                      f"files of that level were written"))
            return
        if got_files != want_files:
            chk.case(None, ("rollup", case["data_seed"], base), sample=dict(rollup=case))
            chk.spec_violation("rollup-level-set", dict(case=case, impl=sorted(got_files), expected=sorted(want_files),
                                                        clause="the tool did not write exactly the level of --level and the levels below it"))
            return
        if set(mrun) != spec_levels:
            ok_model = False
        reqs, plan = [], []
        for ln in sorted(spec_levels):
            l = cands.index(ln)
            t = read_result(dest / f"roll.targets.{ln}s{sfx}"); dd = read_result(dest / f"roll.decoys.{ln}s{sfx}")
            idcol = "psm_id" if "psm_id" in t.columns else "PSMId"
            got = sorted([(meta[x], True) for x in t[idcol]] + [(meta[x], False) for x in dd[idcol]],
                         key=lambda z: -allrows[z[0]][4])
            if any(allrows[i][3] != tt for i, tt in got):
                ok_spec, clause = False, "target/decoy routed to the wrong file"
            reqs.append(req("levelspec", l, merged, [allrows[i] for i, _ in got])); plan.append(ln)
            if not case.get("tool_ties") and [i for i, _ in got] != model[l]:
                ok_model = False
            if numeric and ln == "precursor":
                # the level on the CELLS the tool is given: every reader delivers its file `reader_chunk_size` rows at a
                # time, and a chunk of a text file whose precursor cells are all whole numbers is an integer column
                import re as _re
                csz = rchunk or 10000
                chunk_cells = {}
                for i_, (nm_, pos_, txt_) in where.items():
                    chunk_cells.setdefault((nm_, pos_ // csz), []).append(txt_)
                dt = {i_: ("n" if not sfx and all(_re.fullmatch(r"[0-9]+", t_) for t_ in chunk_cells[(nm_, pos_ // csz)])
                           else "o") for i_, (nm_, pos_, _) in where.items()}
                cells = [[r_[0], dt[r_[0]], where[r_[0]][2], r_[4]] for r_ in merged]
                cell_of = {c_[0]: c_ for c_ in cells}
                cresp = common.driver_batch([req("toolcellrows", False, cells), req("toolcellrows", True, cells),
                                             req("toolcellspec", cells, [cell_of[i] for i, _ in got])])
                m_ent = [int(x) for x in dec(cresp[0])]
                m_raw = [int(x) for x in dec(cresp[1])]
                chk.count("rollup-tool-type-drift", "reader chunks of both kinds: raw values would split an entity"
                          if m_raw != m_ent else "no entity met as number and as text")
                texts = [where[i][2] for i, _ in got]
                if cresp[2].strip() != "T" or len(set(texts)) != len(texts):
                    ok_spec, drift = False, True
                    clause = (f"rollup level {ln}: not exactly one row per distinct value of the level column "
                              f"(values written more than once: {sorted({t_ for t_ in texts if texts.count(t_) > 1})[:5]}; the "
                              f"identifier is a number in one reader chunk and text in another)")
                elif [i for i, _ in got] != m_ent:
                    ok_model = False
            # a score tie between a target and a decoy of one entity is never decided for the target
            best_decoy = {}
            for r_ in allrows:
                if not r_[3]:
                    best_decoy[r_[2][l]] = max(best_decoy.get(r_[2][l], float("-inf")), r_[4])
            for i, tt in got:
                if tt and best_decoy.get(allrows[i][2][l], float("-inf")) >= allrows[i][4]:
                    ok_spec, clause = False, f"rollup level {ln}: a target represents an entity that has a decoy scoring at least as well"
            qcol = "q_value" if "q_value" in t.columns else "q-value"
            qreq = req("qspec", True, [[Fraction(allrows[i][4]), allrows[i][3]] for i, _ in got])
            exp = [rounded(a_rat(x)) for x in dec(common.driver_batch([qreq])[0])] if got else []
            qgot = {meta[x]: float(q) for x, q in list(zip(t[idcol], t[qcol])) + list(zip(dd[idcol], dd[qcol]))}
            if any(qgot[i] != e for (i, _), e in zip(got, exp)):
                ok_spec, clause = False, f"rollup level {ln}: q-values differ from the C01 formula"
            # the two files line by line (file order, q-value next to its own row) against the model of the whole run
            if ln in mrun:
                lines_t = [(meta[x], float(q)) for x, q in zip(t[idcol], t[qcol])]
                lines_d = [(meta[x], float(q)) for x, q in zip(dd[idcol], dd[qcol])]
                if (lines_t, lines_d) != mrun[ln]:
                    ok_model = False
            for w, f_ in (("targets", t), ("decoys", dd)):
                sc = list(f_["score"])
                if any(a < b for a, b in zip(sc, sc[1:])):
                    ok_spec, clause = False, f"rollup level {ln}: {w} file not in non-increasing score order"
        for ln, r_ in zip(plan, common.driver_batch(reqs)):
            if r_.strip() != "T" and not (drift and ln == "precursor"):
                ok_spec, clause = False, f"rollup level {ln}: not exactly one best row per entity"
        if ok_spec and case.get("rerun"):
            # outputs of the tool (named after --file_root) must not be taken as inputs: run it twice with the source
            # directory as destination; the second run must reproduce the files of the run above
            chk.count("rollup-tool-rerun-in-place", 1)
            try:
                tool(src, src); tool(src, src)
            except (Exception, SystemExit) as e:
                ok_spec, clause = False, f"second run with destination = source raised {type(e).__name__}"
            else:
                for nm in sorted(want_files):
                    a, b = read_result(dest / nm), read_result(src / nm)
                    if b is None or not a.equals(b):
                        ok_spec, clause = False, f"second run with destination = source changed {nm}"
        chk.case(None, ("rollup", case["data_seed"], base), sample=dict(rollup=case, levels=sorted(spec_levels)))
        chk.count("rollup-tool-levels", len(spec_levels)); chk.count("rollup-tool-ties", bool(case.get("tool_ties")))
        if not ok_spec:
            # (stable signature of FINDING-C03.md: an entity written twice because its identifier changed type)
            chk.spec_violation("rollup-tool:level-id-type-drift" if drift else "rollup-tool",
                               dict(case=case, clause=clause, levels=sorted(spec_levels)))
        elif not ok_model:
            chk.corr_break("rolluptool", dict(case=case))


def search(chk):
    for it in range(60 * chk.budget_mult):
        c = gen_case(chk.rng, "thorough")
        c["decoys"] = True
        run_case(chk, c)
        if it % 4 == 0:
            run_rollup(chk, gen_rollup(chk.rng))
        if chk.spec_violations:
            return


def minimise(chk):
    if not chk.spec_violations:
        return
    sig, info = chk.spec_violations[0]
    case = info.get("case")
    if not isinstance(case, dict) or "n_spectra" not in case:
        return
    best = dict(case)
    for field, vals in (("append2", [False]), ("ncoll", [1]), ("n_spectra", [3, 5, 8]), ("levels", [[]]), ("max_per", [2, 3]),
                        ("fmt", ["pin"]), ("optional", [()]), ("prefixes", [False]), ("file_root", [""]),
                        ("score_form", ["int"]), ("desc", [True]), ("labels", ["mixed"]), ("center", [False]),
                        ("mass_text", ["plain"])):
        for v in vals:
            trial = dict(best, **{field: v})
            sub = common.Check(chk.prop, chk.tier, chk.seed)
            try:
                run_case(sub, trial)
            except Exception:
                continue
            hit = [i for s, i in sub.spec_violations if s == sig]
            if hit:
                best = trial
                chk.spec_violations[0] = (sig, dict(hit[0], shrunk=True))
                break


def main(chk, args):
    build = common.build_and_audit("C03")
    if not build.driver_ok:
        chk.finish(build, RULE)
    n = chk.scale(80 if chk.tier == "quick" else 500)
    for _ in range(n):
        run_case(chk, gen_case(chk.rng, chk.tier))
    bases = list(ROLLUP_BASES)
    chk.rng.shuffle(bases)                      # every accepted --level value occurs in every run
    for i in range(chk.scale(16 if chk.tier == "quick" else 60)):
        run_rollup(chk, gen_rollup(chk.rng, bases[i % len(bases)]))
    # one small case per run in which an input file of the tool is certainly not sorted
    forced = gen_rollup(chk.rng, "psm")
    forced.update(n_spectra=6, ncoll=1, unsorted=True, parquet=chk.rng.random() < 0.5)
    run_rollup(chk, forced)
    # ... and one with many score ties between targets and decoys that share peptide groups
    tied = gen_rollup(chk.rng, "psm")
    tied.update(n_spectra=25, ncoll=2, unsorted=False, tool_ties=True, npep=3,
                levels=sorted(set(tied["levels"]) | {"PeptideGroup"},
                              key=("ModifiedPeptide", "Precursor", "PeptideGroup").index))
    run_rollup(chk, tied)
    # ... and one whose precursor identifiers read as numbers but for a few: two collections (a file of whole numbers
    # next to a file with a word) and reader chunks of two rows (both kinds of chunk inside one file)
    typed = gen_rollup(chk.rng, "psm")
    typed.update(n_spectra=25, ncoll=2, unsorted=False, tool_ties=False, parquet=False, numeric_ids=True, reader_chunk=2,
                 naming="prefix", levels=sorted(set(typed["levels"]) | {"Precursor"},
                                                key=("ModifiedPeptide", "Precursor", "PeptideGroup").index))
    run_rollup(chk, typed)
    if chk.tier == "thorough":
        # the tool's own constants: a level with more than 1000 entities fills its writer buffer for real
        big = gen_rollup(chk.rng, "psm")
        big.update(n_spectra=1300, max_per=1, npep=20000, ncoll=1, unsorted=False, tool_ties=False, rerun=False,
                   parquet=False, buffer=None, reader_chunk=None, naming="prefix",
                   levels=["ModifiedPeptide", "Precursor", "PeptideGroup"])
        run_rollup(chk, big)
        chk.count("rollup-tool-more-than-1000-entities", 1)
    rollup_levels_check(chk, chk.rng, chk.scale(50 if chk.tier == "quick" else 400))
    for _ in range(chk.scale(4 if chk.tier == "quick" else 40)):
        run_badscores(chk, chk.rng)
    entity_key_check(chk, chk.rng, chk.scale(300 if chk.tier == "quick" else 3000))
    minimise(chk)
    lc = common.leanchecker("C03") if chk.tier == "thorough" else None
    chk.assumptions += [
        "spectrum / entity keys enter the model as small integers (key equality is all the code uses); the "
        "str([values]) hash of confidence.py is assumed injective on the generated keys",
        "pandas sort_values/drop_duplicates, CSV/Parquet round trip of integer-valued scores",
        "the k-way merge yields a best-first arrangement of the chunk files (C14)",
        "PEP column not examined here (C06)",
        "result file names enter the model as (prefix, targets/decoys, level): the map prefix -> file name is assumed "
        "injective; the header line of a result file is outside the model",
        "roll-up tool: column names are standardised by the harness's own copy of the documented name map",
        "scores are generated integer-valued, as multiples of 2^-10 or of 2^21: exact in binary64 and in decimal text "
        "(scores with 17 significant digits change in the last place when mokapot re-reads its text chunk files - "
        "see GAPS-C03.md, second pass, O6)",
        "roll-up tool: the writer buffer (1000 rows) and the reader chunk (10000 rows) are literals inside do_rollup; "
        "they are shrunk by wrapping the two names do_rollup looks up in its module (quick tier), and reached for real "
        "once in the thorough tier",
        "roll-up tool on numeric-looking identifiers: the dtype of a reader chunk is restated by the harness (all cells "
        "of the chunk match [0-9]+ -> integer column, else text column; Parquet input: text) and handed to the model as a "
        "parameter of each row; identifiers are generated so that distinct texts are distinct entities",
        "a score vector of the wrong length is a caller's error: only raise / no raise and the retained PSMs are compared "
        "with the model of the zip of the chunk streams",
    ]
    chk.finish(build, RULE, search=search, lc=lc,
               trusted_extra=["pandas sort_values/drop_duplicates/read_csv/to_csv, pyarrow Parquet, joblib"])


def replay(chk, path):
    info = json.loads(open(path).read())
    case = info.get("case")
    if isinstance(case, dict) and "parents" in case:
        par = [tuple(x) for x in case["parents"]]
        impl = P.mod("mokapot.brew_rollup").compute_rollup_levels(case["base"], dict(par))
        bad = set(impl) != reachable(case["base"], par) or len(set(impl)) != len(impl) or impl[:1] != [case["base"]]
        print("REPRODUCED rollup-levels" if bad else "not reproduced", impl, sorted(reachable(case["base"], par)))
        return 1 if bad else 0
    if not isinstance(case, dict) or "n_spectra" not in case:
        print(json.dumps(info, indent=1)[:3000])
        return 0
    common.build_and_audit("C03")
    for f_ in ("levels", "prefix_mask"):
        if isinstance(case.get(f_), tuple):
            case[f_] = list(case[f_])
    case["optional"] = tuple(case["optional"])
    if "base" in case:
        run_rollup(chk, case)
    else:
        run_case(chk, case)
    for sig, i in chk.spec_violations:
        print("REPRODUCED", sig, i.get("clause"))
    return 1 if chk.spec_violations else 0
