"""C03 — competition and roll-up keep exactly the best PSM per spectrum / entity."""
from __future__ import annotations

import json
from fractions import Fraction

import numpy as np
import pandas as pd

import common
import mkdata
import pipeline as P
from c01 import rounded
from common import a_bool, a_int, a_rat, deep, dec, req

RULE = (
    "case = (PSM table with spectrum/peptide multiplicities and extra level columns, score vector tie-free or tied, "
    "deduplication/rollup/decoys flags, text or Parquet, 1-3 collections with/without prefixes, confidence and "
    "merge chunk sizes from 1 to n+1); the real assign_confidence is run and every result file is read back; "
    "distinct = distinct (key structure, score ranks, flags, chunk sizes); non-trivial = some spectrum or entity has "
    ">= 2 PSMs (competition actually happens)"
)

LEVELS = ("ModifiedPeptide", "Precursor", "PeptideGroup")


def gen_case(rng, tier):
    n_spec = rng.choice([3, 5, 8, 12, 20, 30])
    ncoll = rng.choice([1, 1, 1, 2, 3])
    case = dict(
        n_spectra=n_spec,
        max_per=rng.choice([1, 2, 3, 5]),
        levels=[c for c in LEVELS if rng.random() < 0.4],
        dedup=rng.random() < 0.7,
        rollup=rng.random() < 0.8,
        decoys=rng.random() < 0.8,
        fmt=rng.choice(["pin", "pin", "parquet"]),
        ties=rng.random() < 0.35,
        ncoll=ncoll,
        prefixes=(rng.random() < 0.6) if ncoll > 1 else (rng.random() < 0.3),
        enc=rng.choice(["pm1", "01", "bool"]),
        optional=rng.choice([(), ("ExpMass",), ("filename", "ExpMass"), ("filename", "ExpMass", "ret_time")]),
        npep=rng.choice([2, 4, 8, 16]),
        data_seed=rng.randrange(1 << 30),
    )
    case["center"] = rng.random() < 0.5
    case["cconf"] = rng.choice([1, 2, 3, 5, 7, "n-1", "n", "n+1", 10 ** 6])
    case["cmerge"] = rng.choice([1, 2, 3, 7, "n+1", 20000])
    case["rg"] = rng.choice([1, 2, 5, None])
    if not case["decoys"]:
        case["ties"] = False
    # the PEP kernel (C06) is stubbed on most small tables, where the estimators are degenerate
    case["pep"] = "real" if (n_spec >= 20 and rng.random() < 0.5) else "stub"
    return case


def build_tables(case):
    import random

    r = random.Random(case["data_seed"])
    tabs = []
    for k in range(case["ncoll"]):
        df = mkdata.make_psm_table(
            r, n_spectra=case["n_spectra"], max_per_spectrum=case["max_per"], n_feat=2, label_enc=case["enc"],
            optional=case["optional"], level_cols=tuple(case["levels"]), n_peptides=case["npep"], signal=3.0,
            rowid=False,
        )
        df["SpecId"] = [f"c{k}_{i}" for i in range(len(df))]
        if case["ties"]:
            score = np.array([float(r.randint(0, max(2, len(df) // 3))) for _ in range(len(df))])
        else:
            score = df["feat0"].values.astype(float)
        if case.get("center"):
            # scores straddling zero, one of them exactly 0.0 (a falsy maximum must not be mistaken for "no row yet")
            score = score - sorted(score)[len(score) // 2]
        tabs.append((df, score))
    return tabs


def csize(v, n):
    return {"n-1": max(1, n - 1), "n": n, "n+1": n + 1}.get(v, v)


def merged_level(t, d):
    """level rows in file order: merge targets and decoys files by descending score (stable, targets first)"""
    rows = [(r, True) for r in (t or [])] + [(r, False) for r in (d or [])]
    return [r for r, _ in sorted(rows, key=lambda x: -x[0]["score"])]


def check_collection(chk, case, k, df, score, files, level_names, lines_out):
    """compare one collection's result files with spec and model. `files[level] = (targets_df, decoys_df|None)`"""
    spectrum_cols = [c for c in ("filename", "ScanNr", "ret_time", "ExpMass") if c in df.columns]
    level_cols = ["Peptide"] + case["levels"] if case["rollup"] else []
    rows = P.table_rows(df, spectrum_cols, level_cols, score)
    byid = {sid: i for i, sid in enumerate(df["SpecId"])}
    problems = []
    lvl_rows = {}
    for lname in level_names:
        t, d = files[lname]
        out = {}
        for which, f in (("t", t), ("d", d)):
            recs = []
            if f is not None:
                for _, rec in f.iterrows():
                    if rec["PSMId"] not in byid:
                        problems.append(("foreign-row", lname, rec["PSMId"]))
                        continue
                    i = byid[rec["PSMId"]]
                    src = df.iloc[i]
                    intact = (
                        rec["peptide"] == src["Peptide"]
                        and str(rec["proteinIds"]) == str(src["Proteins"])
                        and float(rec["score"]) == float(score[i])
                        and all(rec[c] == src[c] for c in case["levels"] if c in f.columns)
                    )
                    if not intact:
                        problems.append(("row-mixed", lname, rec["PSMId"]))
                    if rows[i][3] != (which == "t"):
                        problems.append(("wrong-file", lname, rec["PSMId"]))
                    recs.append(dict(i=i, score=float(rec["score"]), q=float(rec["q-value"])))
                sc = [r["score"] for r in recs]
                if any(a < b for a, b in zip(sc, sc[1:])):
                    problems.append(("not-sorted", lname, which))
            out[which] = recs
        lvl_rows[lname] = out
    # spec + model via the driver
    cconf = csize(case["cconf"], len(df))
    reqs = [req("conf", cconf, case["dedup"], len(level_cols), rows)]
    plan = []
    if case["decoys"]:
        psm_out = merged_level(lvl_rows["psms"]["t"], lvl_rows["psms"]["d"])
        psm_rows = [rows[r["i"]] for r in psm_out]
        if case["dedup"]:
            reqs.append(req("levelspec", -1, rows, psm_rows))
            plan.append(("levelspec", "psms"))
        for l, lname in enumerate(level_names[1:]):
            lo = merged_level(lvl_rows[lname]["t"], lvl_rows[lname]["d"])
            reqs.append(req("levelspec", l, psm_rows, [rows[r["i"]] for r in lo]))
            plan.append(("levelspec", lname))
        for lname in level_names:
            lo = merged_level(lvl_rows[lname]["t"], lvl_rows[lname]["d"])
            if lo:
                reqs.append(req("qspec", True, [[Fraction(rows[r["i"]][4]), rows[r["i"]][3]] for r in lo]))
                plan.append(("qspec", lname))
    resp = common.driver_batch(reqs)
    model = dec(resp[0])
    m_psm = [int(x) for x in model[0]]
    m_lv = [[int(x) for x in lv] for lv in model[1]]
    spec_ok = not problems
    clause = None
    for (kind, lname), r in zip(plan, resp[1:]):
        if kind == "levelspec":
            if r.strip() != "T":
                spec_ok = False
                clause = f"level {lname}: not exactly one best row per key / not sorted / foreign row"
        else:
            exp = [rounded(a_rat(x)) for x in dec(r)] if r.strip() != "[]" else []
            lo = merged_level(lvl_rows[lname]["t"], lvl_rows[lname]["d"])
            # tied rows may be listed in another order: compare q per row via its score (q is a function of score)
            byscore = {}
            for rr, e in zip(lo, exp):
                byscore.setdefault(rr["score"], e)
            if any(byscore[rr["score"]] != rr["q"] for rr in lo):
                spec_ok = False
                clause = f"level {lname}: q-value column differs from the C01 formula on the retained rows"
    if case["decoys"] and not case["dedup"]:
        got = sorted(r["i"] for r in merged_level(lvl_rows["psms"]["t"], lvl_rows["psms"]["d"]))
        if got != list(range(len(df))):
            spec_ok = False
            clause = "deduplication off: PSM level is not the whole table"
    if problems and clause is None:
        clause = f"{problems[0][0]} at level {problems[0][1]}"
    # model comparison (exact when tie-free; targets only when the decoy files are not written)
    model_ok = True
    if not case["ties"]:
        mlv = {"psms": m_psm, **{ln: m_lv[l] for l, ln in enumerate(level_names[1:])}}
        for lname in level_names:
            want_t = [i for i in mlv[lname] if rows[i][3]]
            want_d = [i for i in mlv[lname] if not rows[i][3]]
            got_t = [r["i"] for r in lvl_rows[lname]["t"]]
            got_d = [r["i"] for r in lvl_rows[lname]["d"]]
            if got_t != want_t or (case["decoys"] and got_d != want_d):
                model_ok = False
        if not case["decoys"] and model_ok:
            # q-values of the targets file against the model's level rows
            qreq = [req("levelq", [rows[i] for i in mlv[ln]]) for ln in level_names]
            for ln, r in zip(level_names, common.driver_batch(qreq)):
                qs = [rounded(a_rat(x)) for x in dec(r)] if r.strip() != "[]" else []
                want = [q for i, q in zip(mlv[ln], qs) if rows[i][3]]
                if want != [r_["q"] for r_ in lvl_rows[ln]["t"]]:
                    spec_ok = False
                    clause = f"level {ln}: q-value column differs from the C01 formula on the retained rows"
    info = dict(case=case, collection=k, clause=clause, problems=[list(p) for p in problems[:5]],
                impl={ln: dict(t=[r["i"] for r in v["t"]], d=[r["i"] for r in v["d"]]) for ln, v in lvl_rows.items()},
                model=dict(psms=m_psm, levels=m_lv))
    multi = any(sum(1 for r in rows if r[1] == s) > 1 for s in set(r[1] for r in rows)) or bool(level_cols)
    key = (tuple((r[1], tuple(r[2]), r[3]) for r in rows), tuple(np.argsort(score).tolist()), case["dedup"],
           case["rollup"], case["decoys"], cconf, case["cmerge"]) if multi else None
    chk.case(None, key, sample=dict(case={k_: str(v) for k_, v in case.items()}, n_rows=len(df),
                                    psms_out=len(lvl_rows["psms"]["t"]) + len(lvl_rows["psms"]["d"])))
    if not spec_ok:
        chk.spec_violation("level-spec" if "q-value" not in (clause or "") else "level-qvalues", info)
    elif not model_ok:
        chk.corr_break("conf", info)


def run_case(chk, case):
    tabs = build_tables(case)
    n = max(len(df) for df, _ in tabs)
    with P.workdir() as d:
        datasets, scores = [], []
        for k, (df, score) in enumerate(tabs):
            p = mkdata.write_table(df, d / f"in{k}.{case['fmt']}", row_group_size=case["rg"])
            datasets.append(mkdata.read_dataset(p))
            scores.append(score)
        out = d / "out"
        out.mkdir()
        prefixes = [f"p{k}" for k in range(case["ncoll"])] if case["prefixes"] else [None] * case["ncoll"]
        level_cols = ["Peptide"] + case["levels"] if case["rollup"] else []
        level_names = ["psms"] + [P.LEVEL_FILE[c] for c in level_cols]
        try:
            with P.chunk_sizes(confidence=csize(case["cconf"], n), merge=csize(case["cmerge"], n)), \
                    P.pep_kernel(stub=case.get("pep", "stub") == "stub"):
                P.run_assign_confidence(datasets, scores, out, prefixes=prefixes, decoys=case["decoys"],
                                        deduplication=case["dedup"], do_rollup=case["rollup"])
        except SystemExit as e:
            chk.reject("pep-estimator-exit:" + str(e)[:40])
            return
        except Exception as e:
            msg = f"{type(e).__name__}: {e}"
            if P.raised_in_pep_kernel(e):
                chk.reject("pep-estimator:" + type(e).__name__)
                return
            chk.spec_violation("exception:" + type(e).__name__, dict(case=case, error=msg[:400],
                                                                     clause="assign_confidence raised"))
            return
        chk.count("fmt", case["fmt"]); chk.count("dedup", case["dedup"]); chk.count("rollup", case["rollup"])
        chk.count("decoys", case["decoys"]); chk.count("ties", case["ties"]); chk.count("ncoll", case["ncoll"])
        chk.count("prefixes", case["prefixes"]); chk.count("cconf", str(case["cconf"])); chk.count("scores_straddle_zero", bool(case.get("center")))
        chk.count("cmerge", str(case["cmerge"])); chk.count("nlevels", len(level_names))
        # leftovers: no intermediate files (also C09)
        left = [f.name for f in out.iterdir() if "scores_metadata" in f.name or f.name.split(".")[-1] in ("pin", "parquet")]
        if left:
            chk.spec_violation("intermediates-left", dict(case=case, files=left, clause="intermediate files remain"))
        for k, (df, score) in enumerate(tabs):
            files = {}
            for ln in level_names:
                pre = f"{prefixes[k]}." if prefixes[k] else ""
                t = P.read_result(out / f"{pre}targets.{ln}")
                dd = P.read_result(out / f"{pre}decoys.{ln}")
                if t is None:
                    chk.spec_violation("missing-file", dict(case=case, file=f"{pre}targets.{ln}", clause="result file missing"))
                    return
                if not case["decoys"] and dd is not None:
                    chk.spec_violation("decoys-written", dict(case=case, clause="decoys file written although decoys=False"))
                    return
                if not prefixes[k]:  # collections without prefix share files: split by identifier
                    t = t[t["PSMId"].astype(str).str.startswith(f"c{k}_")]
                    dd = dd[dd["PSMId"].astype(str).str.startswith(f"c{k}_")] if dd is not None else None
                files[ln] = (t, dd)
            check_collection(chk, case, k, df, score, files, level_names, None)


ROLLUP_LEVELS = [("precursor", "Precursor"), ("modified_peptide", "ModifiedPeptide"), ("peptide", "peptide"),
                 ("peptide_group", "PeptideGroup")]          # order of brew_rollup.compute_rollup_levels("psm")


def rollup_case(chk, rng):
    """stand-alone roll-up tool on result files written by assign_confidence (with extra level columns whose
    ids are deliberately NOT nested in one another: a precursor may belong to several peptide groups)"""
    BR = P.mod("mokapot.brew_rollup")
    import contextlib, io

    case = dict(n_spectra=rng.choice([6, 12, 25]), max_per=rng.choice([1, 2, 3]),
                levels=[c for c in ("ModifiedPeptide", "Precursor", "PeptideGroup") if rng.random() < 0.6],
                ncoll=rng.choice([1, 2, 3]), data_seed=rng.randrange(1 << 30), npep=rng.choice([3, 6, 12]), enc="pm1",
                optional=("ExpMass",), ties=False)
    tabs = build_tables(case)
    import random
    r = random.Random(case["data_seed"] + 1)
    tabs2 = []
    for off, (df, score) in enumerate(tabs):
        df = df.copy()
        pre = ["" if x == 1 else "decoy_" for x in df["Label"]]
        if "PeptideGroup" in df.columns:     # groups independent of the peptide
            df["PeptideGroup"] = [p_ + f"G{r.randrange(4)}" for p_ in pre]
        if "Precursor" in df.columns:
            df["Precursor"] = [p_ + f"pre{r.randrange(6)}" for p_ in pre]
        tabs2.append((df, score * 8 + off))           # distinct scores across collections
    with P.workdir() as d:
        datasets = [mkdata.read_dataset(mkdata.write_table(df, d / f"in{k}.pin")) for k, (df, _) in enumerate(tabs2)]
        src = d / "src"; src.mkdir(); dest = d / "dest"; dest.mkdir()
        try:
            with P.pep_kernel(stub=True):
                P.run_assign_confidence(datasets, [s for _, s in tabs2], src,
                                        prefixes=[f"p{k}" for k in range(len(tabs2))], decoys=True, do_rollup=True)
            with contextlib.redirect_stdout(io.StringIO()), contextlib.redirect_stderr(io.StringIO()), \
                    P.pep_kernel(stub=True):
                BR.main(["--level", "psm", "-s", str(src), "-d", str(dest), "-r", "roll"])
        except SystemExit:
            chk.reject("rollup-exit"); return
        except Exception as e:
            if any(len(P.read_result(f)) == 0 for f in src.glob("*.psms")):
                chk.reject("rollup-input-file-without-rows")   # column types of an empty file cannot be inferred
                return
            chk.spec_violation("rollup-exception:" + type(e).__name__, dict(case=case, error=str(e)[:300], clause="brew_rollup raised"))
            return
        # merged input rows = all rows of the psm result files
        first = P.read_result(src / "p0.targets.psms")
        present = [(ln, col) for ln, col in ROLLUP_LEVELS if col in first.columns]
        ids = [dict() for _ in present]
        allrows, meta = [], {}
        if any(len(P.read_result(src / f"p{k}.{w}.psms")) == 0 for k in range(len(tabs2)) for w in ("targets", "decoys")):
            chk.reject("rollup-input-file-without-rows")
            return
        for k in range(len(tabs2)):
            for which in ("targets", "decoys"):
                f = P.read_result(src / f"p{k}.{which}.psms")
                for _, rec in f.iterrows():
                    i = len(allrows)
                    keys = [ids[l].setdefault(rec[col], len(ids[l])) for l, (_, col) in enumerate(present)]
                    allrows.append([i, i, keys, which == "targets", int(rec["score"])])
                    meta[rec["PSMId"]] = i
        merged = sorted(allrows, key=lambda r: -r[4])
        model = [[int(x) for x in lv] for lv in dec(common.driver_batch([req("rolluptool", len(present), merged)])[0])]
        ok_spec, ok_model, clause = True, True, None
        reqs, plan = [], []
        for l, (ln, _col) in enumerate(present):
            t = P.read_result(dest / f"roll.targets.{ln}s"); dd = P.read_result(dest / f"roll.decoys.{ln}s")
            if t is None or dd is None:
                chk.spec_violation("rollup-missing-file", dict(case=case, clause=f"roll.targets.{ln}s missing")); return
            idcol = "psm_id" if "psm_id" in t.columns else "PSMId"
            got = sorted([(meta[x], True) for x in t[idcol]] + [(meta[x], False) for x in dd[idcol]],
                         key=lambda z: -allrows[z[0]][4])
            if any(allrows[i][3] != tt for i, tt in got):
                ok_spec, clause = False, "target/decoy routed to the wrong file"
            reqs.append(req("levelspec", l, merged, [allrows[i] for i, _ in got])); plan.append(ln)
            if [i for i, _ in got] != model[l]:
                ok_model = False
            qcol = "q_value" if "q_value" in t.columns else "q-value"
            qreq = req("qspec", True, [[Fraction(allrows[i][4]), allrows[i][3]] for i, _ in got])
            exp = [rounded(a_rat(x)) for x in dec(common.driver_batch([qreq])[0])] if got else []
            qgot = {meta[x]: float(q) for x, q in list(zip(t[idcol], t[qcol])) + list(zip(dd[idcol], dd[qcol]))}
            if any(qgot[i] != e for (i, _), e in zip(got, exp)):
                ok_spec, clause = False, f"rollup level {ln}: q-values differ from the C01 formula"
        for ln, r_ in zip(plan, common.driver_batch(reqs)):
            if r_.strip() != "T":
                ok_spec, clause = False, f"rollup level {ln}: not exactly one best row per entity"
        chk.case(None, ("rollup", case["data_seed"]), sample=dict(rollup=case, levels=[ln for ln, _ in present]))
        chk.count("rollup-tool-levels", len(present))
        if not ok_spec:
            chk.spec_violation("rollup-tool", dict(case=case, clause=clause, levels=[ln for ln, _ in present]))
        elif not ok_model:
            chk.corr_break("rolluptool", dict(case=case))


def search(chk):
    for _ in range(60 * chk.budget_mult):
        c = gen_case(chk.rng, "thorough")
        c["decoys"] = True
        run_case(chk, c)
        if chk.spec_violations:
            return


def minimise(chk):
    if not chk.spec_violations:
        return
    sig, info = chk.spec_violations[0]
    case = info.get("case")
    if not isinstance(case, dict) or "n_spectra" not in case:
        return
    best = dict(case)
    for field, vals in (("ncoll", [1]), ("n_spectra", [3, 5, 8]), ("levels", [[]]), ("max_per", [2, 3]),
                        ("fmt", ["pin"]), ("optional", [()]), ("prefixes", [False])):
        for v in vals:
            trial = dict(best, **{field: v})
            sub = common.Check(chk.prop, chk.tier, chk.seed)
            try:
                run_case(sub, trial)
            except Exception:
                continue
            hit = [i for s, i in sub.spec_violations if s == sig]
            if hit:
                best = trial
                chk.spec_violations[0] = (sig, dict(hit[0], shrunk=True))
                break


def main(chk, args):
    build = common.build_and_audit("C03")
    if not build.driver_ok:
        chk.finish(build, RULE)
    n = chk.scale(80 if chk.tier == "quick" else 500)
    for _ in range(n):
        run_case(chk, gen_case(chk.rng, chk.tier))
    for _ in range(chk.scale(14 if chk.tier == "quick" else 60)):
        rollup_case(chk, chk.rng)
    minimise(chk)
    lc = common.leanchecker("C03") if chk.tier == "thorough" else None
    chk.assumptions += [
        "spectrum / entity keys enter the model as small integers (key equality is all the code uses); the "
        "str([values]) hash of confidence.py is assumed injective on the generated keys",
        "pandas sort_values/drop_duplicates, CSV/Parquet round trip of integer-valued scores",
        "the k-way merge yields a best-first arrangement of the chunk files (C14)",
        "PEP column not examined here (C06)",
    ]
    chk.finish(build, RULE, search=search, lc=lc,
               trusted_extra=["pandas sort_values/drop_duplicates/read_csv/to_csv, pyarrow Parquet, joblib"])


def replay(chk, path):
    info = json.loads(open(path).read())
    case = info.get("case")
    if not isinstance(case, dict) or "n_spectra" not in case:
        print(json.dumps(info, indent=1)[:3000])
        return 0
    common.build_and_audit("C03")
    case["optional"] = tuple(case["optional"])
    run_case(chk, case)
    for sig, i in chk.spec_violations:
        print("REPRODUCED", sig, i.get("clause"))
    return 1 if chk.spec_violations else 0
