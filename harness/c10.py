"""C10 — every well-formed PIN / Parquet PSM table parses into a faithful dataset.

Correspondence harness: `mokapot.read_pin` (real code, in-process) vs. the Lean model
(`pin-parse`) vs. the Lean specification (`pin-spec`), on generated tables written to disk as
tab-delimited text or Parquet.
"""
from __future__ import annotations

import importlib
import itertools
import json
import math
import shutil
import tempfile
from pathlib import Path

import numpy as np
import pandas as pd

import common
from common import Atom, a_bool, a_str, dec, req

RULE = (
    "cases = (PSM table: header in file order with random letter case of the reserved names, optional "
    "file/mass/time/charge/level columns, 1..60 feature columns, cells with missing values at random / first / "
    "last row / whole column, label encoding 1,-1 | 1,0 | bool | mixed; file format text or Parquet; column-scan "
    "chunk size, row-scan chunk size, worker count; optional keyword arguments); distinct = distinct (lower-cased "
    "header layout, missing-value mask of the feature columns, label pattern, chunk sizes, format); non-trivial = "
    "at least one missing cell, or more than one column chunk, or more than one row chunk, or a malformed table; "
    "thorough adds the exhaustive sweeps: every feature count 1..60 x identifier count 2..5 x chunk sizes, and all "
    "missing-value masks of a 2-feature x 3-row table x row/column chunk sizes x both formats; extension "
    "(GAPS-C10.md): entry point read_pin | read_percolator, arguments by keyword | by position, a single path | "
    "one-element list | tuple; keyword arguments naming own / feature / other-role / unknown / wrong-case / empty "
    "columns (one or two at a time) compared with the declarative specification `pin-spec-args`, every argument x "
    "entry point x call form once; 2-4 files per call "
    "(list | tuple, mixed formats, one malformed member at any position); the row index of spectra_dataframe; "
    "label columns written as floats (1.0 / -1.0 / 0.0) or holding one fractional value; second pass "
    "(GAPS-C10.md 'Second pass'): spectrum-key cells beyond 2^24 / 2^31 / 2^53 and with fractional parts, "
    "feature cells +-inf and booleans, CRLF / missing final newline / gzip text files, an iterator of paths, "
    "label columns typed int8..uint64 / float32 and the label 2^64-1; metadata_column_types vs the types "
    "read independently from the file (`pin-types`); create_chunks_with_identifier called directly on every "
    "(features 0..60, identifiers 1..5, chunk size) vs `pin-idchunks` and the cover / together / size clauses; "
    "OnDiskPsmDataset(...) constructed directly with one or two perturbed fields (absent / wrong-case / empty "
    "/ None name, extra or replaced list member, filename=None) vs `pin-checks` and the restated check order"
)

REQUIRED = ["specid", "peptide", "proteins", "label", "scannr"]
LEVELS = ["modifiedpeptide", "precursor", "peptidegroup"]
OPTIONAL = ["filename", "calcmass", "expmass", "ret_time"]
CANON = {
    "specid": "SpecId", "peptide": "Peptide", "proteins": "Proteins", "label": "Label", "scannr": "ScanNr",
    "modifiedpeptide": "ModifiedPeptide", "precursor": "Precursor", "peptidegroup": "PeptideGroup",
    "filename": "FileName", "calcmass": "CalcMass", "expmass": "ExpMass", "ret_time": "ret_time",
    "charge_column": "Charge_Column",
}
NA_TOKENS = ["", "NA", "NaN", "nan", "N/A", "null", "NULL", "#N/A", "n/a", "<NA>", "-NaN", "-nan", "None",
             "#NA", "1.#IND", "1.#QNAN", "-1.#IND", "-1.#QNAN", "#N/A N/A"]
TRICKY_FEATURES = [
    "lnExpect", "deltCn", "Mass", "dM", "absdM", "enzN", "enzC", "PepLen", "peptide_len", "label2", "Labels",
    "charge", "Charge", "charge2", "Charge3", "CHARGE1", "filename2", "specid_x", "ScanNr2", "expmass_ppm",
    "calcmass_da", "ret_time_s", "rt", "precursor_mz", "Proteins2", "x", "X", "score", "Score", "SCORE",
    "XCorr", "Sp", "IonFrac", "lnrSp", "deltLCn", "feat.1", "a b", "µ", "Δm", "peptidegroups", "xlabel",
]
DEFAULT_C = 19
DEFAULT_R = 2000000
ARG_KEYS = ["filename_column", "calcmass_column", "expmass_column", "rt_column", "charge_column"]


# ----------------------------------------------------------------------------
# generators
# ----------------------------------------------------------------------------
def recase(rng, name, mode):
    if mode == "canon":
        return CANON.get(name, name)
    if mode == "lower":
        return name.lower()
    if mode == "upper":
        return name.upper()
    return "".join(ch.upper() if rng.random() < 0.5 else ch.lower() for ch in name)


def feature_names(rng, n):
    names, seen = [], set()
    pool = list(TRICKY_FEATURES)
    rng.shuffle(pool)
    style = rng.choice(["plain", "plain", "tricky", "casevariants"])
    i = 0
    while len(names) < n:
        if style == "tricky" and pool and rng.random() < 0.5:
            cand = pool.pop()
        elif style == "casevariants" and names and rng.random() < 0.3:
            cand = rng.choice(names).swapcase()
        else:
            cand = f"feat{i}"
            i += 1
        if cand in seen:
            cand = f"f{i}_{len(names)}"
            i += 1
        if cand in seen:
            continue
        seen.add(cand)
        names.append(cand)
    return names


def gen_case(rng, nmax=60, force=None):
    """one random (mostly well-formed) case"""
    force = force or {}
    n_feat = force.get("n_feat", rng.randint(1, nmax))
    nrows = force.get("nrows", rng.choice([1, 2, 3, 3, 4, 5, 6, 8, 12, 12, 40]))
    case_mode = rng.choice(["canon", "lower", "upper", "random", "random"])
    present = {q: True for q in REQUIRED}
    opt = force.get("opt")
    if opt is None:
        opt = [q for q in ["filename", "ret_time", "expmass"] if rng.random() < 0.5]
        if rng.random() < 0.4:
            opt.append("calcmass")
    levels = [q for q in LEVELS if rng.random() < 0.3]
    charge_style = rng.choice(["none"] * 5 + ["cc", "cc+alt", "cc+alt"])
    label_enc = force.get("label_enc", rng.choice(["pm1", "pm1", "01", "bool", "mixed"]))
    feats = feature_names(rng, n_feat)
    if charge_style == "cc+alt" and not any(f.lower().startswith("charge") for f in feats):
        feats[rng.randrange(len(feats))] = rng.choice(["charge2", "Charge3", "CHARGEX"])

    cols = {}  # name -> cells
    order_fixed = []

    def add(name, cells):
        cols[name] = cells
        order_fixed.append(name)

    targets = [rng.random() < 0.5 for _ in range(nrows)]
    nm = {q: recase(rng, q, case_mode) for q in REQUIRED + LEVELS + OPTIONAL + ["charge_column"]}
    add(nm["specid"], [f"{'t' if t else 'd'}_{i}" for i, t in enumerate(targets)])
    if label_enc == "pm1":
        lab = [1 if t else -1 for t in targets]
    elif label_enc == "01":
        lab = [1 if t else 0 for t in targets]
    elif label_enc == "bool":
        lab = [bool(t) for t in targets]
    else:
        lab = [1 if t else rng.choice([0, -1]) for t in targets]
    add(nm["label"], lab)
    # spectrum-key cells: "wide" values cannot survive a cast to int32 / float32 / int / float unnoticed
    # (one fractional decimal digit only: the text parser of pandas is exact on such literals)
    key_style = force.get("key_style", rng.choice(["small", "small", "wide"]))
    scan0 = 1000 if key_style == "small" else rng.choice([2 ** 31, 2 ** 53 - 10, 2 ** 24 + 1])  # (< 2^53: a scan column with a missing cell is decoded as float64)
    add(nm["scannr"], [scan0 + rng.randint(0, 5) for _ in range(nrows)])

    def mass(base):
        if key_style == "small":
            return base + rng.randint(0, 9)
        return rng.choice([base, 2 ** 24 + 1]) + rng.randint(0, 9) + rng.choice([0.5, 0.25, 0.75, 0.5])

    if "filename" in opt:
        add(nm["filename"], [f"run{rng.randint(0, 2)}.mzML" for _ in range(nrows)])
    if "expmass" in opt:
        add(nm["expmass"], [mass(500) for _ in range(nrows)])
    if "calcmass" in opt:
        add(nm["calcmass"], [mass(500) for _ in range(nrows)])
    if "ret_time" in opt:
        add(nm["ret_time"], [mass(10) for _ in range(nrows)])
    if charge_style != "none":
        add(nm["charge_column"], [2 + rng.randint(0, 1) for _ in range(nrows)])
    na_mode = force.get("na_mode", rng.choice(["none", "none", "sparse", "sparse", "dense", "first", "last",
                                                 "column", "onecell"]))
    p_na = {"sparse": rng.choice([0.02, 0.05, 0.1]), "dense": 0.4}.get(na_mode, 0.0)
    float_cols = rng.random() < 0.3
    str_feature = rng.randrange(n_feat) if rng.random() < 0.1 else None
    # feature cells that are not missing although they are not ordinary numbers: +-inf, booleans
    inf_feature = rng.randrange(n_feat) if rng.random() < 0.12 else None
    bool_feature = rng.randrange(n_feat) if rng.random() < 0.08 else None
    for j, f in enumerate(feats):
        if j == str_feature:
            cells = [rng.choice(["a", "b", "xyz"]) for _ in range(nrows)]
        elif j == inf_feature:
            cells = [rng.choice([float("inf"), float("-inf"), 0.5, 1.5]) for _ in range(nrows)]
        elif j == bool_feature:
            cells = [rng.random() < 0.5 for _ in range(nrows)]
        elif float_cols and rng.random() < 0.5:
            cells = [rng.randint(-40, 40) + 0.5 for _ in range(nrows)]
        else:
            cells = [rng.randint(-50, 50) for _ in range(nrows)]
        for i in range(nrows):
            if p_na and rng.random() < p_na:
                cells[i] = None
        add(f, cells)
    if na_mode in ("first", "last", "column"):
        for f in rng.sample(feats, max(1, len(feats) // 4)):
            if na_mode == "first":
                cols[f][0] = None
            elif na_mode == "last":
                cols[f][-1] = None
            else:
                cols[f] = [None] * nrows
    if na_mode == "onecell":
        cols[rng.choice(feats)][rng.randrange(nrows)] = None
    add(nm["peptide"], [f"PEP{rng.randint(0, 4)}K" for _ in range(nrows)])
    for q in levels:
        add(nm[q], [f"PEP{rng.randint(0, 4)}K[{q[:2]}]" for _ in range(nrows)])
        if rng.random() < 0.15:
            alt = nm[q].swapcase()
            if alt not in cols:
                add(alt, [f"G{rng.randint(0, 4)}" for _ in range(nrows)])
    add(nm["proteins"], [f"PROT{rng.randint(0, 3)}" for _ in range(nrows)])
    # missing values outside the feature columns (never scanned / identifier columns)
    if rng.random() < 0.12:
        cands = [nm[q] for q in opt] + [nm["specid"], nm["peptide"], nm["proteins"], nm["scannr"]]
        for name in rng.sample(cands, rng.randint(1, min(2, len(cands)))):
            cols[name][rng.randrange(nrows)] = None
    order = list(order_fixed)
    if force.get("shuffle", rng.random() < 0.6):
        rng.shuffle(order)
    fmt = force.get("fmt", rng.choice(["pin", "pin", "pin", "parquet", "parquet"]))
    n_ids = 2 + sum(q in opt for q in ("filename", "ret_time", "expmass"))
    c = force.get("c", DEFAULT_C if rng.random() < 0.3 else rng.randint(1, n_feat + n_ids + 1))
    r = force.get("r", DEFAULT_R if rng.random() < 0.3 else rng.randint(1, nrows + 1))
    case = dict(
        cols=[[name, cols[name]] for name in order],
        fmt=fmt,
        suffix=(".parquet" if fmt == "parquet" else rng.choice([".pin", ".pin", ".tab", ".csv", ".txt"])),
        na_token=rng.choice(NA_TOKENS),
        bool_text=rng.choice(["title", "title", "lower", "upper"]),
        nan_style=rng.choice(["null", "nan"]),
        row_group=(rng.randint(1, nrows) if rng.random() < 0.5 else None),
        c=c, r=r, workers=force.get("workers", rng.randint(1, 8)),
        args={k: None for k in ARG_KEYS},
        kind="wellformed",
        entry=rng.choice(["read_pin", "read_pin", "read_percolator"]),
        call=rng.choice(["kw", "kw", "pos"]),
        form=rng.choice(["path", "path", "list", "tuple", "iter"]),
        # shape of a text file: line terminator, final newline, gzip container
        eol=rng.choice(["\n", "\n", "\n", "\r\n"]),
        final_eol=rng.random() < 0.85,
        gz=rng.random() < 0.08,
        # Arrow type of an integer / float label column in a Parquet file (None: int64 / float64)
        label_type=rng.choice([None, None, None, "int8", "int16", "int32", "uint8", "uint32", "float32"]),
        key_style=key_style,
        specials=("inf" if inf_feature is not None else "") + ("bool" if bool_feature is not None else ""),
    )
    if case["gz"] and fmt != "parquet":
        case["suffix"] += ".gz"
    return case


def with_args(rng, case):
    """non-default keyword arguments (exact-case column names), one or two roles at a time"""
    names = [n for n, _ in case["cols"]]
    lower = {n.lower(): n for n in names}
    feats = [n for n in names if n.lower() not in REQUIRED + LEVELS + OPTIONAL + ["charge_column"]]
    # (an argument naming a column that is also found under another *identifier* role, e.g.
    # filename_column="ScanNr", duplicates identifier columns; such calls are outside the property and are not
    # generated; "otherrole" names a reserved column that is not an identifier)
    styles = []
    keys = rng.sample(ARG_KEYS, 2 if rng.random() < 0.3 else 1)
    used = set()
    for k in keys:
        style = rng.choice(["own", "own", "feature", "feature", "absent", "wrongcase", "empty", "otherrole"])
        default = {"filename_column": "filename", "calcmass_column": "calcmass", "expmass_column": "expmass",
                   "rt_column": "ret_time", "charge_column": "charge_column"}[k]
        if style == "own" and default in lower:
            v = lower[default]
        elif style in ("own", "feature"):
            v = rng.choice(feats)
        elif style == "absent":
            v = "no_such_column"
        elif style == "wrongcase":
            v = rng.choice(names).swapcase()
        elif style == "otherrole":
            v = lower[rng.choice(["specid", "peptide", "proteins"])]
        else:
            v = ""
        if v in used and v != "":
            v = "no_such_column"  # never the same column for two roles (identifier columns would be duplicated)
            style = "absent"
        used.add(v)
        case["args"][k] = v
        styles.append(style)
    case["kind"] = "args:" + "+".join(styles)
    return case


MALFORMED_KINDS = ["drop-required", "dup-required", "label-range", "dup-optional", "label-na", "label-text",
                   "label-wrap64"]
U64_MAX = 2 ** 64 - 1


def malform(rng, case, kind=None):
    """tables outside the quantifier: the code must reject the first three kinds"""
    cols = case["cols"]
    names = [n for n, _ in cols]
    lower = {n.lower(): i for i, n in enumerate(names)}
    kind = kind or rng.choice(MALFORMED_KINDS + ["label-range"])
    nrows = len(cols[0][1])
    if kind == "drop-required":
        q = rng.choice(REQUIRED)
        del cols[lower[q]]
    elif kind == "dup-required":
        q = rng.choice(REQUIRED)
        n = names[lower[q]]
        alt = n.swapcase() if n.swapcase() != n else n.upper()
        cells = list(cols[lower[q]][1])
        cols.insert(rng.randint(0, len(cols)), [alt, cells])
    elif kind == "label-range":
        i = lower["label"]
        cells = [(1 if x else -1) if isinstance(x, bool) else x for x in cols[i][1]]
        # incl. values that are congruent to a legal label modulo 2^8 / 2^16 / 2^32 (narrow integer casts wrap)
        cells[rng.randrange(nrows)] = rng.choice([2, -2, 3, 7, -5, 255, 256, 257, -255, -257, 513, 65535, 65537,
                                                   4294967297, -4294967295])
        cols[i][1] = cells
    elif kind == "label-wrap64":
        # an unsigned 64-bit label column (no negative value, one value 2^64 - 1 = -1 modulo 2^64)
        i = lower["label"]
        cells = [1 if (x is True or (x == 1 and not isinstance(x, bool))) else 0 for x in cols[i][1]]
        cells[rng.randrange(nrows)] = U64_MAX
        cols[i][1] = cells
        case["label_type"] = None
    elif kind == "dup-optional":
        q = rng.choice(OPTIONAL + ["charge_column"])
        if q in lower:
            n = names[lower[q]]
            alt = n.swapcase() if n.swapcase() != n else n.upper()
            cols.insert(rng.randint(0, len(cols)), [alt, list(cols[lower[q]][1])])
        else:
            cols.insert(rng.randint(0, len(cols)), [q.upper(), [1] * nrows])
            cols.insert(rng.randint(0, len(cols)), [q.capitalize(), [1] * nrows])
    elif kind == "label-na":
        i = lower["label"]
        cells = [(1 if x else -1) if isinstance(x, bool) else x for x in cols[i][1]]
        cells[rng.randrange(nrows)] = None
        cols[i][1] = cells
        if case["fmt"] == "pin" and case["na_token"] in ("-NaN", "-nan"):
            case["na_token"] = "NaN"
    else:
        i = lower["label"]
        cells = [(1 if x else -1) if isinstance(x, bool) else x for x in cols[i][1]]
        cells[rng.randrange(nrows)] = "target"
        cols[i][1] = cells
        case["fmt"], case["suffix"] = "pin", ".pin"
    case["kind"] = "malformed:" + kind
    return case


# ----------------------------------------------------------------------------
# writing the table to disk
# ----------------------------------------------------------------------------
BOOL_TEXT = {"title": ("True", "False"), "lower": ("true", "false"), "upper": ("TRUE", "FALSE")}


def cell_text(x, na_token, bool_text="title"):
    if x is None:
        return na_token
    if isinstance(x, bool):
        return BOOL_TEXT[bool_text][0 if x else 1]
    return str(x)


INT_RANGES = {"int8": (-2 ** 7, 2 ** 7 - 1), "int16": (-2 ** 15, 2 ** 15 - 1), "int32": (-2 ** 31, 2 ** 31 - 1),
              "uint8": (0, 2 ** 8 - 1), "uint32": (0, 2 ** 32 - 1)}


def write_case(case, path: Path):
    cols = case["cols"]
    nrows = len(cols[0][1]) if cols else 0
    if case["fmt"] == "pin":
        eol = case.get("eol", "\n")
        lines = ["\t".join(n for n, _ in cols)]
        for i in range(nrows):
            lines.append("\t".join(cell_text(cells[i], case["na_token"], case.get("bool_text", "title"))
                                   for _, cells in cols))
        data = (eol.join(lines) + (eol if case.get("final_eol", True) else "")).encode("utf-8")
        if str(path).endswith(".gz"):
            import gzip

            data = gzip.compress(data)
        path.write_bytes(data)
    else:
        import pyarrow as pa
        import pyarrow.parquet as pq

        arrays, names = [], []
        for n, cells in cols:
            vals = [x for x in cells if x is not None]
            ltype = case.get("label_type") if n.lower() == "label" else None
            if any(isinstance(x, str) for x in vals):
                arr = pa.array([None if x is None else str(x) for x in cells], type=pa.string())
            elif vals and all(isinstance(x, bool) for x in vals):
                arr = pa.array(cells, type=pa.bool_())
            elif any(isinstance(x, float) for x in vals) or (case["nan_style"] == "nan" and len(vals) < len(cells)):
                typ = pa.float32() if (ltype == "float32" and all(float(x) == int(x) and abs(x) < 2 ** 24 for x in vals)) \
                    else pa.float64()
                arr = pa.array([float("nan") if x is None else float(x) for x in cells], type=typ)
            elif vals and max(vals) >= 2 ** 63:
                arr = pa.array(cells, type=pa.uint64())
            elif ltype in INT_RANGES and vals and INT_RANGES[ltype][0] <= min(vals) and max(vals) <= INT_RANGES[ltype][1]:
                arr = pa.array(cells, type=getattr(pa, ltype)())
            elif ltype == "float32" and vals and len(vals) == len(cells) and all(abs(x) < 2 ** 24 for x in vals):
                arr = pa.array([float(x) for x in cells], type=pa.float32())
            else:
                arr = pa.array(cells, type=pa.int64())
            arrays.append(arr)
            names.append(n)
        table = pa.Table.from_arrays(arrays, names=names)
        pq.write_table(table, path, row_group_size=case["row_group"] or max(1, nrows))


# ----------------------------------------------------------------------------
# implementation adapter
# ----------------------------------------------------------------------------
def canon_value(v):
    if v is None or v is pd.NA or v is pd.NaT:
        return None
    if isinstance(v, (bool, np.bool_)):
        return bool(v)
    if isinstance(v, (float, np.floating)):
        if math.isnan(v):
            return None
        if float(v).is_integer():
            return int(v)
        return float(v)
    if isinstance(v, (int, np.integer)):
        return int(v)
    return str(v)


def dataset_dict(ds):
    """the observable fields of one returned dataset"""
    df = ds.spectra_dataframe
    tcol = ds.target_column
    out = dict(
        columns=list(ds.columns), target=tcol, spectrum=list(ds.spectrum_columns), peptide=ds.peptide_column,
        protein=ds.protein_column, features=list(ds.feature_columns), metadata=list(ds.metadata_columns),
        level=list(ds.level_columns), filename=ds.filename_column, scan=ds.scan_column, specid=ds.specId_column,
        calcmass=ds.calcmass_column, expmass=ds.expmass_column, rt=ds.rt_column, charge=ds.charge_column,
        df_columns=[str(x) for x in df.columns],
        target_dtype=str(df[tcol].dtype) if tcol in df.columns and list(df.columns).count(tcol) == 1 else "?",
        path=str(ds.filename),
        meta_types=[str(x) for x in (ds.metadata_column_types or [])],
    )
    out["spectra"] = [[str(cn), [canon_value(v) for v in df.iloc[:, j].tolist()]]
                      for j, cn in enumerate(df.columns) if j < len(df.columns) - 1]
    last = df.iloc[:, -1].tolist() if len(df.columns) else []
    out["targets"] = [canon_value(v) for v in last]
    out["index"] = [canon_value(v) for v in df.index.tolist()]
    return out


def call_entry(case, paths):
    """call the real entry point in the form the case asks for"""
    import mokapot

    kw = {k: v for k, v in case["args"].items() if v is not None}
    entry = case.get("entry", "read_pin")
    if entry == "read_percolator":
        assert len(paths) == 1
        if case.get("call") == "pos":
            return [mokapot.read_percolator(paths[0], case["workers"], *[case["args"][k] for k in ARG_KEYS])]
        return [mokapot.read_percolator(paths[0], max_workers=case["workers"], **kw)]
    form = case.get("form", "path")
    if form == "path" and len(paths) == 1:
        files = paths[0]
    elif form == "tuple":
        files = tuple(paths)
    elif form == "iter":
        files = iter(list(paths))  # `tuplize` accepts any iterable of paths
    else:
        files = list(paths)
    if case.get("call") == "pos":
        return mokapot.read_pin(files, case["workers"], *[case["args"][k] for k in ARG_KEYS])
    return mokapot.read_pin(files, max_workers=case["workers"], **kw)


LAST_WARNINGS = []  # WARNING records of the parser's logger during the last call of the real code


class _WarnCapture(__import__("logging").Handler):
    def __init__(self):
        super().__init__(level=__import__("logging").WARNING)
        self.lines = []

    def emit(self, record):
        try:
            self.lines.append(record.getMessage())
        except Exception as e:  # noqa: BLE001
            self.lines.append(f"<unformattable record: {e}>")


WARN_HEAD = "Missing values detected in the following features:"
WARN_TAIL = "Dropping features with missing values..."


def warned_names(lines):
    """the feature names in the warning lines; None when the lines do not have the shape of pin.py:238-243"""
    if not lines:
        return []
    if len(lines) < 3 or lines[0] != WARN_HEAD or lines[-1] != WARN_TAIL:
        return None
    if not all(x.startswith("  - ") for x in lines[1:-1]):
        return None
    return [x[4:] for x in lines[1:-1]]


def run_impl_files(case, paths):
    """call the real code on one or several files; returns ('ok', [dataset-dict]) or ('error', exception)"""
    import logging

    logging.getLogger("mokapot").setLevel(logging.ERROR)
    P = importlib.import_module("mokapot.parsers.pin")
    P.CHUNK_SIZE_COLUMNS_FOR_DROP_COLUMNS = case["c"]
    P.CHUNK_SIZE_ROWS_FOR_DROP_COLUMNS = case["r"]
    # the warnings of the parser (pin.py:238-243) are an observable of the drop list: capture them
    plog = logging.getLogger("mokapot.parsers.pin")
    cap = _WarnCapture()
    old_level, old_prop = plog.level, plog.propagate
    plog.addHandler(cap)
    plog.setLevel(logging.WARNING)
    plog.propagate = False
    LAST_WARNINGS[:] = []
    try:
        res = call_entry(case, paths)
    except Exception as e:  # noqa: BLE001
        return "error", e
    finally:
        P.CHUNK_SIZE_COLUMNS_FOR_DROP_COLUMNS = DEFAULT_C
        P.CHUNK_SIZE_ROWS_FOR_DROP_COLUMNS = DEFAULT_R
        plog.removeHandler(cap)
        plog.setLevel(old_level)
        plog.propagate = old_prop
        LAST_WARNINGS[:] = cap.lines
    if not isinstance(res, list):
        return "ok", [dict(malformed_result=repr(type(res)))]
    return "ok", [dataset_dict(ds) for ds in res]


def file_types(case, path: Path):
    """the type of every column as the file itself says (read without mokapot): Arrow schema types of a Parquet
    file, the dtypes pandas infers from the first two data rows of a text file"""
    if case["fmt"] == "parquet":
        import pyarrow.parquet as pq

        sch = pq.read_schema(path)
        return [[n, str(t)] for n, t in zip(sch.names, sch.types)]
    df = pd.read_csv(path, sep="\t", index_col=False, nrows=2)
    return [[str(n), str(t)] for n, t in zip(df.columns, df.dtypes)]


def run_impl(case, path: Path):
    """call the real `mokapot.read_pin` / `read_percolator`; returns ('ok', dataset-dict) or ('error', exception)"""
    status, out = run_impl_files(case, [path])
    if status == "error":
        return status, out
    if len(out) != 1:
        return "ok", dict(malformed_result=f"{len(out)} datasets for one file")
    return "ok", out[0]


# ----------------------------------------------------------------------------
# driver side
# ----------------------------------------------------------------------------
def wire_cell(x):
    if x is None:
        return Atom("none")
    if isinstance(x, (bool, int, str)):
        return x
    return "float:" + repr(x)  # a float is an opaque (non-missing) text cell for the model


def wire_table(case):
    return [[n, [wire_cell(x) for x in cells]] for n, cells in case["cols"]]


def wire_args(case):
    return [Atom("none") if case["args"][k] is None else [case["args"][k]] for k in ARG_KEYS]


def d_cell(t):
    if t == "none":
        return None
    if t in ("T", "F"):
        return t == "T"
    if t.startswith("s"):
        v = a_str(t)
        return canon_value(float(v[6:])) if v.startswith("float:") else v
    return int(t)


def d_opt(v):
    return None if v == "none" else a_str(v[0])


def d_names(v):
    return [a_str(x) for x in v]


def d_dataset(v):
    return dict(
        columns=d_names(v[0]), target=a_str(v[1]), spectrum=d_names(v[2]), peptide=a_str(v[3]),
        protein=a_str(v[4]), features=d_names(v[5]), metadata=d_names(v[6]), level=d_names(v[7]),
        filename=d_opt(v[8]), scan=a_str(v[9]), specid=a_str(v[10]), calcmass=d_opt(v[11]), expmass=d_opt(v[12]),
        rt=d_opt(v[13]), charge=d_opt(v[14]),
        spectra=[[a_str(p[0]), [d_cell(x) for x in p[1]]] for p in v[15]],
        targets=[a_bool(x) for x in v[16]],
    )


FIELDS = ["columns", "target", "spectrum", "peptide", "protein", "features", "metadata", "level", "filename",
          "scan", "specid", "calcmass", "expmass", "rt", "charge", "spectra", "targets"]
CLAUSE = {
    "features": "features are not exactly the non-reserved columns without missing value, in file order",
    "spectrum": "spectrum key is not [file, scan, time, mass] restricted to the columns present",
    "spectra": "spectra data frame is not one entry per input row in file order",
    "targets": "targets are not exactly the rows labelled 1/true",
    "metadata": "metadata columns differ",
    "index": "row index of the spectra data frame is not 0..n-1 in file order",
    "path": "dataset.filename is not the path that was parsed",
    "meta_types": "metadata_column_types are not the types of the metadata columns, in the order of metadata_columns",
    "drop_log": "the warning lines do not name exactly the non-metadata columns with a missing value",
}


def diff_fields(a, b):
    return [f for f in FIELDS if a.get(f) != b.get(f)]


def impl_shape_problems(out):
    """internal consistency of the returned object (data frame layout)"""
    bad = []
    if "malformed_result" in out:
        return ["read_pin did not return a one-element list"]
    if out["df_columns"] != out["spectrum"] + [out["target"]]:
        bad.append("spectra_dataframe columns are not spectrum_columns + [target_column]")
    if out["target_dtype"] != "bool":
        bad.append("target column of spectra_dataframe is not boolean")
    return bad


# direct re-statement of the "must be rejected" clause (independent of model and driver)
def must_reject(case):
    names = [n.lower() for n, _ in case["cols"]]
    for q in REQUIRED:
        if names.count(q) == 0:
            return "missing required column"
        if names.count(q) > 1:
            return "required column present in several letter cases"
    lab = [cells for n, cells in case["cols"] if n.lower() == "label"][0]
    if not all(isinstance(x, bool) for x in lab):
        outside = [x for x in lab if isinstance(x, int) and not isinstance(x, bool) and (x < -1 or x > 1)]
        if outside and all(x == U64_MAX for x in outside):
            return "label 2^64-1 outside {-1, 0, 1}"  # (own signature: the cast of an unsigned 64-bit column wraps)
        if outside:
            return "label outside {-1, 0, 1}"
    return None


def must_reject_args(case):
    """direct re-statement: an optional role named by the caller must be a column of the file in exactly that
    letter case (`col or default`: the empty string stands for the default name)"""
    header = [n for n, _ in case["cols"]]
    default = {"filename_column": "filename", "calcmass_column": "calcmass", "expmass_column": "expmass",
               "rt_column": "ret_time", "charge_column": "charge_column"}
    for k in ARG_KEYS:
        v = case["args"].get(k)
        if v is not None and (v or default[k]) not in header:
            return f"{k} names a column the file does not have"
    return None


def generic_clauses(case, out):
    """clauses that hold for every successful parse, whatever the keyword arguments"""
    bad = []
    cols = dict((n, cells) for n, cells in case["cols"])
    header = [n for n, _ in case["cols"]]
    nrows = len(case["cols"][0][1])
    exp_feats = [c for c in header if c not in out["metadata"] and not any(x is None for x in cols[c])]
    if out["features"] != exp_feats:
        bad.append("features")
    if len(out["targets"]) != nrows or any(len(c[1]) != nrows for c in out["spectra"]):
        bad.append("spectra")
    else:
        for n, cells in out["spectra"]:
            if n not in cols or [canon_value(x) for x in cols[n]] != cells:
                bad.append("spectra")
                break
    lab = cols.get(out["target"])
    if lab is not None and out["targets"] != [(x is True) or (x == 1 and not isinstance(x, bool)) for x in lab]:
        bad.append("targets")
    key = [c for c in [out["filename"], out["scan"], out["rt"], out["expmass"]] if c is not None]
    if out["spectrum"] != key:
        bad.append("spectrum")
    return bad


def layout_key(case):
    header = tuple(n.lower() for n, _ in case["cols"])
    reserved = set(REQUIRED + LEVELS + OPTIONAL + ["charge_column"])
    mask = tuple(tuple(x is None for x in cells) for n, cells in case["cols"] if n.lower() not in reserved)
    lab = [cells for n, cells in case["cols"] if n.lower() == "label"]
    return (header, mask, tuple(map(repr, lab[0])) if lab else None, case["c"], case["r"], case["fmt"],
            tuple(sorted((k, v) for k, v in case["args"].items() if v is not None)))


def nontrivial(case):
    if not case["kind"].startswith("wellformed"):
        return True
    nrows = len(case["cols"][0][1])
    ncols = len(case["cols"])
    has_na = any(x is None for _, cells in case["cols"] for x in cells)
    return has_na or case["c"] < ncols - 5 or case["r"] < nrows


def jsonable(case):
    return json.loads(json.dumps(case))


def eval_cases(chk, cases, tmpdir: Path):
    files = [c for c in cases if c.get("kind", "").startswith("files")]
    labels = [c for c in cases if c.get("kind", "").startswith("labels")]
    idch = [c for c in cases if c.get("kind", "") == "idchunks"]
    ctor = [c for c in cases if c.get("kind", "") == "ctor"]
    if files:
        eval_files_cases(chk, files, tmpdir)
    if labels:
        eval_label_cases(chk, labels, tmpdir)
    if idch:
        eval_idchunks_cases(chk, idch)
    if ctor:
        eval_ctor_cases(chk, ctor, tmpdir)
    cases = [c for c in cases if not c.get("kind", "").startswith(("files", "labels", "idchunks", "ctor"))]
    lines = []
    for c in cases:
        tb = wire_table(c)
        lines.append(req("pin-parse", wire_args(c), c["c"], c["r"], tb))
        lines.append(req("pin-spec", tb))
        lines.append(req("pin-index", wire_args(c), c["c"], c["r"], tb))
        lines.append(req("pin-spec-args", wire_args(c), tb))
        lines.append(req("pin-warn", wire_args(c), c["c"], c["r"], tb))
    resp = common.driver_batch(lines)
    type_reqs = []  # (case index, oracle types) of the cases whose metadata types are compared with `pin-types`
    for i, c in enumerate(cases):
        mresp = dec(resp[5 * i])
        sresp = dec(resp[5 * i + 1])
        iresp = dec(resp[5 * i + 2])
        aresp = dec(resp[5 * i + 3])
        wresp = dec(resp[5 * i + 4])
        model_warn = None if isinstance(wresp, str) else (d_names(wresp[0]), d_names(wresp[1]))
        model = None if isinstance(mresp, str) else d_dataset(mresp)
        model_err = mresp if isinstance(mresp, str) else None
        model_index = None if isinstance(iresp, str) else [int(x) for x in iresp]
        wf = a_bool(sresp[0])
        spec = d_dataset(sresp[1])
        wf_args = a_bool(aresp[0])
        spec_args = d_dataset(aresp[1])
        default_args = all(v is None for v in c["args"].values())
        path = tmpdir / f"case{i}{c['suffix']}"
        write_case(c, path)
        status, out = run_impl(c, path)
        warn_lines = list(LAST_WARNINGS)
        try:
            ftypes = file_types(c, path) if status == "ok" else None
        except Exception:  # noqa: BLE001
            ftypes = None
        try:
            path.unlink()
        except OSError:
            pass
        nrows = len(c["cols"][0][1]) if c["cols"] else 0
        nfeat = sum(1 for n, _ in c["cols"] if n.lower() not in REQUIRED + LEVELS + OPTIONAL + ["charge_column"])
        chk.case(None, layout_key(c) if nontrivial(c) else None,
                 sample=dict(header=[n for n, _ in c["cols"]][:12], rows=len(c["cols"][0][1]), c=c["c"], r=c["r"],
                             fmt=c["fmt"], impl_features=(out["features"][:8] if status == "ok" and "features" in out
                                                          else repr(out)[:80]),
                             model_features=(model["features"][:8] if model else model_err)))
        chk.count("kind", c["kind"].split(":")[0])
        if c["kind"].startswith("args:"):
            for st in c["kind"][5:].split("+"):
                chk.count("args_style", st)
            chk.count("args_given", sum(v is not None for v in c["args"].values()))
            chk.count("args_admissible", wf_args)
        chk.count("entry", c.get("entry", "read_pin") + "/" + c.get("call", "kw")
                  + ("/" + c.get("form", "path") if c.get("entry", "read_pin") == "read_pin" else ""))
        chk.count("fmt", c["fmt"] + c["suffix"])
        chk.count("n_features", nfeat if nfeat < 10 else (nfeat // 10) * 10)
        chk.count("n_features_mod_c", f"{(nfeat) % c['c']}" if c["c"] <= 8 else ("c=19" if c["c"] == 19 else "c>8"))
        if c["c"] == DEFAULT_C:
            chk.count("columns_to_scan_mod_19", (nfeat + len(spec["spectrum"]) + 1) % DEFAULT_C)
        chk.count("c", "default" if c["c"] == DEFAULT_C else ("1" if c["c"] == 1 else "other"))
        chk.count("r", "default" if c["r"] == DEFAULT_R else ("1" if c["r"] == 1 else "other"))
        chk.count("row_chunks", min(4, -(-nrows // max(1, c["r"]))))
        chk.count("workers", c["workers"])
        chk.count("has_na", any(x is None for _, cells in c["cols"] for x in cells))
        chk.count("key_values", c.get("key_style", "small"))
        chk.count("feature_specials", c.get("specials") or "none")
        if c["fmt"] == "pin":
            chk.count("text_shape", ("crlf" if c.get("eol") == "\r\n" else "lf") + ("" if c.get("final_eol", True) else "/no-final-eol")
                      + ("/gz" if c["suffix"].endswith(".gz") else ""))
        else:
            chk.count("parquet_label_type", c.get("label_type") or "default")
        chk.count("well_formed", wf)
        chk.count("impl", status)
        info = dict(case=jsonable(c))
        if default_args and wf != wf_args:
            # the two specifications must agree on calls without arguments (C10_args_generalises_default)
            chk.corr_break("pin-spec-args", dict(info, impl="-", model=f"wellFormedB={wf} wellFormedArgsB={wf_args}"))
        if default_args and wf and diff_fields(spec, spec_args):
            chk.corr_break("pin-spec-args", dict(info, fields=diff_fields(spec, spec_args), impl="-",
                                                 model="specDataset and specDatasetArgs {} differ"))
        if status == "error":
            err = f"{type(out).__name__}: {str(out)[:200]}"
            if wf and default_args:
                chk.spec_violation("wellformed-rejected:" + type(out).__name__,
                                   dict(info, impl=err, expected=spec, clause="parsing of a well-formed table failed"))
            elif wf_args:
                chk.spec_violation("admissible-call-rejected:" + type(out).__name__,
                                   dict(info, impl=err, expected=spec_args,
                                        clause="parsing failed although every named column exists"))
            elif model is not None:
                chk.corr_break("pin-parse", dict(info, impl=err, model="ok (model parses this table)"))
            else:
                chk.reject(model_err + "/" + type(out).__name__)
            continue
        # the implementation returned a dataset
        why = must_reject(c) if default_args else (must_reject(c) or must_reject_args(c))
        if why is not None:
            chk.spec_violation("malformed-accepted:" + why.replace(" ", "-"),
                               dict(info, impl={k: out.get(k) for k in ("features", "spectrum", "targets")},
                                    expected="an exception", clause=f"{why}: not rejected"))
            continue
        shape = impl_shape_problems(out)
        if shape:
            chk.spec_violation("dataframe-shape", dict(info, impl=out, expected=spec, clause="; ".join(shape)))
            continue
        bad = generic_clauses(c, out)
        if out.get("index") != list(range(nrows)):
            bad.append("index")
        if out.get("path") != str(path):
            bad.append("path")
        exp_types = None
        if ftypes is not None and [n for n, _ in ftypes] == out["columns"]:
            tmap = dict(ftypes)
            exp_types = [tmap.get(m) for m in out["metadata"]]
            if out.get("meta_types") != exp_types:
                bad.append("meta_types")
            else:
                type_reqs.append((i, c, ftypes, out.get("meta_types")))
        chk.count("meta_types_compared", exp_types is not None)
        # the drop list as it is logged (pin.py:236-243; C10_drop_list, C10_warning_lines): direct re-statement —
        # the names in the warning lines are exactly the non-metadata columns with a missing cell (each once,
        # any order) or there is no warning at all
        has_na = {n for n, cells in c["cols"] if any(x is None for x in cells)}
        exp_dropped = [n for n, _ in c["cols"] if n not in out["metadata"] and n in has_na]
        wn = warned_names(warn_lines)
        chk.count("dropped_columns", min(len(exp_dropped), 4))
        chk.count("drop_warning", "none" if wn == [] else ("malformed" if wn is None else "logged"))
        if wn is None or (wn and sorted(wn) != sorted(exp_dropped)):
            bad.append("drop_log")
        if wf and default_args:
            bad = bad + [f for f in diff_fields(out, spec) if f not in bad]
        if wf_args:
            bad = bad + [f for f in diff_fields(out, spec_args) if f not in bad]
        if bad:
            f0 = bad[0]
            exp = dict(spec_args if wf_args else spec, index=list(range(nrows)), path=str(path), meta_types=exp_types,
                       drop_log=sorted(exp_dropped))
            out = dict(out, drop_log=warn_lines)
            chk.spec_violation("clause:" + f0,
                               dict(info, impl={k: out.get(k) for k in bad}, expected={k: exp.get(k) for k in bad},
                                    clause=CLAUSE.get(f0, f"field {f0} differs from the specification")))
            continue
        if model is None:
            chk.corr_break("pin-parse", dict(info, impl="ok", model=model_err))
        else:
            d = diff_fields(out, model)
            if d:
                chk.corr_break("pin-parse", dict(info, fields=d, impl={k: out.get(k) for k in d},
                                                 model={k: model.get(k) for k in d}))
            if out.get("index") != model_index:
                chk.corr_break("pin-index", dict(info, impl=out.get("index"), model=model_index))
            # model of pin.py:236-243: which features are dropped, and whether / which are logged (`> 1`)
            if model_warn is None:
                chk.corr_break("pin-warn", dict(info, impl=warn_lines, model=wresp))
            else:
                impl_dropped = sorted(f for f in exp_dropped if f not in out["features"])
                if (sorted(wn) != sorted(model_warn[1])) or impl_dropped != sorted(model_warn[0]):
                    chk.corr_break("pin-warn", dict(info, impl=dict(warned=wn, dropped=impl_dropped),
                                                    model=dict(dropped=model_warn[0], warned=model_warn[1])))
    # the types of the metadata columns: model of pin.py:207 on the types the file itself declares
    if type_reqs:
        tresp = common.driver_batch([req("pin-types", wire_args(c), ft) for _, c, ft, _ in type_reqs])
        for (i, c, ft, impl_types), line in zip(type_reqs, tresp):
            r = dec(line)
            model_types = r if isinstance(r, str) else [a_str(x) for x in r]
            if model_types != impl_types:
                chk.corr_break("pin-types", dict(case=jsonable(c), impl=impl_types, model=model_types))


# ----------------------------------------------------------------------------
# several files per call
# ----------------------------------------------------------------------------
def gen_files_case(rng):
    """2-4 small tables handed to one `read_pin` call as a list or tuple; optionally one malformed member"""
    k = rng.choice([2, 2, 3, 4])
    shared = rng.random() < 0.3  # a column every file has, named by a keyword argument
    members = []
    for _ in range(k):
        m = gen_case(rng, nmax=6, force=dict(nrows=rng.choice([1, 2, 3, 4])))
        if shared:
            nrows = len(m["cols"][0][1])
            m["cols"].insert(rng.randint(0, len(m["cols"])), ["extra_col", [rng.randint(0, 9) for _ in range(nrows)]])
        members.append(m)
    bad_at = None
    if rng.random() < 0.3:
        bad_at = rng.randrange(k)
        members[bad_at] = malform(rng, members[bad_at], rng.choice(["drop-required", "dup-required", "label-range"]))
        if shared and not any(n == "extra_col" for n, _ in members[bad_at]["cols"]):
            nrows = len(members[bad_at]["cols"][0][1])
            members[bad_at]["cols"].append(["extra_col", [0] * nrows])
    args = {a: None for a in ARG_KEYS}
    if shared:
        args[rng.choice(ARG_KEYS)] = "extra_col"
    return dict(kind="files:" + ("malformed" if bad_at is not None else "wellformed"), members=members, bad_at=bad_at,
                args=args, c=rng.choice([DEFAULT_C, 1, 2, 3, 5]), r=rng.choice([DEFAULT_R, 1, 2, 3]),
                workers=rng.randint(1, 4), entry="read_pin", call=rng.choice(["kw", "kw", "pos"]),
                form=rng.choice(["list", "tuple"]))


def eval_files_cases(chk, cases, tmpdir: Path):
    lines = []
    for c in cases:
        tbs = [wire_table(m) for m in c["members"]]
        lines.append(req("pin-files", wire_args(c), c["c"], c["r"], Atom("many"), tbs))
        for tb in tbs:
            lines.append(req("pin-spec-args", wire_args(c), tb))
    resp = common.driver_batch(lines)
    pos = 0
    for i, c in enumerate(cases):
        k = len(c["members"])
        mresp = dec(resp[pos])
        specs = [dec(resp[pos + 1 + j]) for j in range(k)]
        pos += 1 + k
        model = None if isinstance(mresp, str) else [d_dataset(v) for v in mresp]
        model_err = mresp if isinstance(mresp, str) else None
        admissible = [a_bool(sp[0]) for sp in specs]
        spec = [d_dataset(sp[1]) for sp in specs]
        paths = []
        for j, m in enumerate(c["members"]):
            path = tmpdir / f"files{i}_{j}{m['suffix']}"
            write_case(m, path)
            paths.append(path)
        status, out = run_impl_files(c, paths)
        for path in paths:
            try:
                path.unlink()
            except OSError:
                pass
        key = (tuple(layout_key(dict(m, c=c["c"], r=c["r"], args=c["args"])) for m in c["members"]), c["form"])
        chk.case(None, key, sample=dict(files=k, bad_at=c["bad_at"], form=c["form"],
                                        impl=(len(out) if status == "ok" else repr(out)[:80])))
        chk.count("kind", c["kind"].split(":")[0])
        chk.count("files_per_call", k)
        chk.count("files_form", c["form"] + "/" + c["call"])
        chk.count("files_bad_at", "none" if c["bad_at"] is None else ("first" if c["bad_at"] == 0 else
                                                                       ("last" if c["bad_at"] == k - 1 else "middle")))
        chk.count("files_args", "default" if all(v is None for v in c["args"].values()) else "named")
        chk.count("impl", status)
        info = dict(case=jsonable(c))
        why = None
        for j, m in enumerate(c["members"]):
            w = must_reject(m) or must_reject_args(dict(m, args=c["args"]))
            if w:
                why = f"file {j}: {w}"
                break
        if status == "error":
            err = f"{type(out).__name__}: {str(out)[:200]}"
            if all(admissible):
                chk.spec_violation("files:admissible-call-rejected:" + type(out).__name__,
                                   dict(info, impl=err, expected=spec, clause="every file is well-formed, parsing failed"))
            elif model is not None:
                chk.corr_break("pin-files", dict(info, impl=err, model="ok (model parses these files)"))
            else:
                chk.reject(model_err + "/" + type(out).__name__)
            continue
        if why is not None:
            chk.spec_violation("files:malformed-accepted",
                               dict(info, impl=f"{len(out)} datasets", expected="an exception",
                                    clause=f"{why}: the call was not rejected"))
            continue
        if any("malformed_result" in o for o in out) or len(out) != k:
            chk.spec_violation("files:count", dict(info, impl=f"{len(out)} datasets", expected=f"{k} datasets",
                                                   clause="read_pin does not return one dataset per file"))
            continue
        done = False
        for j, (o, m) in enumerate(zip(out, c["members"])):
            nrows = len(m["cols"][0][1])
            bad = impl_shape_problems(o) and ["dataframe-shape"] or []
            if not bad:
                bad = generic_clauses(m, o)
                if o.get("index") != list(range(nrows)):
                    bad.append("index")
                if o.get("path") != str(paths[j]):
                    bad.append("path")
                if admissible[j]:
                    bad = bad + [f for f in diff_fields(o, spec[j]) if f not in bad]
            if bad:
                chk.spec_violation("files:clause:" + bad[0],
                                   dict(info, file=j, impl={f: o.get(f) for f in bad},
                                        expected={f: spec[j].get(f) for f in bad},
                                        clause=f"dataset {j} is not the parse of file {j} ({bad[0]})"))
                done = True
                break
        if done:
            continue
        if model is None:
            chk.corr_break("pin-files", dict(info, impl="ok", model=model_err))
        elif len(model) != len(out) or any(diff_fields(o, mo) for o, mo in zip(out, model)):
            chk.corr_break("pin-files", dict(info, impl=[o.get("features") for o in out],
                                             model=[mo.get("features") for mo in model]))


# ----------------------------------------------------------------------------
# label columns holding floating-point numbers
# ----------------------------------------------------------------------------
FRACTIONS = [1.5, -1.5, 0.5, -0.5, 1.9, -1.9, 1.25, -0.25, 2.5, -2.5, 1.75, -1.75, 0.75]


def gen_label_case(rng):
    """a well-formed table whose label column is written with floating-point numbers: 1.0 / -1.0 / 0.0
    ("float") or the same with one fractional value ("fraction")"""
    m = gen_case(rng, nmax=5, force=dict(label_enc=rng.choice(["pm1", "01", "mixed"]), nrows=rng.choice([2, 3, 4, 6]),
                                         na_mode="none"))
    i = [n.lower() for n, _ in m["cols"]].index("label")
    lab = [float(x) for x in m["cols"][i][1]]
    kind = rng.choice(["float", "fraction", "fraction"])
    if kind == "fraction":
        lab[rng.randrange(len(lab))] = rng.choice(FRACTIONS)
    m["cols"][i][1] = lab
    m["kind"] = "labels:" + kind
    return m


U64_VALUES = [2 ** 64 - 1, 2 ** 64 - 1, 2 ** 64 - 2, 2 ** 63, 2 ** 63 + 1, 2 ** 63 - 1, 2 ** 32 + 1]


def gen_u64_label_case(rng):
    """a table whose integer label column has no negative value: labels 1 / 0, in two cases out of three with one
    large value (from 2^63 on pandas / pyarrow type the column unsigned 64-bit and `astype(int)` wraps)"""
    m = gen_case(rng, nmax=5, force=dict(label_enc="01", nrows=rng.choice([1, 2, 3, 4]), na_mode="none"))
    i = [n.lower() for n, _ in m["cols"]].index("label")
    lab = [int(x) for x in m["cols"][i][1]]
    if rng.random() < 0.67:
        lab[rng.randrange(len(lab))] = rng.choice(U64_VALUES)
    m["cols"][i][1] = lab
    m["label_type"] = None
    m["kind"] = "labels:u64"
    return m


def wire_label(x):
    from fractions import Fraction

    if x is None:
        return Atom("none")
    if isinstance(x, bool) or isinstance(x, int):
        return x
    if isinstance(x, float):
        q = Fraction(x)  # exact value of the double pandas / pyarrow decode
        return [q.numerator, q.denominator]
    return x


def eval_label_cases(chk, cases, tmpdir: Path):
    lines = []
    for c in cases:
        lab = [cells for n, cells in c["cols"] if n.lower() == "label"][0]
        lines.append(req("pin-labels-u64" if c["kind"] == "labels:u64" else "pin-labels", [wire_label(x) for x in lab]))
    resp = common.driver_batch(lines)
    for i, c in enumerate(cases):
        r = dec(resp[i])
        model = None if isinstance(r[0], str) else [a_bool(x) for x in r[0]]
        model_err = r[0] if isinstance(r[0], str) else None
        spec_ok = a_bool(r[1])
        lab = [cells for n, cells in c["cols"] if n.lower() == "label"][0]
        # direct re-statement: every label must be exactly 1, 0 or -1
        outside = [x for x in lab if x not in (1, 0, -1)]
        path = tmpdir / f"labels{i}{c['suffix']}"
        write_case(c, path)
        status, out = run_impl(c, path)
        try:
            path.unlink()
        except OSError:
            pass
        chk.case(None, (tuple(lab), c["fmt"]), sample=dict(labels=lab, fmt=c["fmt"],
                                                           impl=(out.get("targets") if status == "ok" else repr(out)[:80])))
        chk.count("kind", "labels")
        chk.count("label_floats", c["kind"].split(":")[1] + "/" + c["fmt"])
        chk.count("impl", status)
        info = dict(case=jsonable(c))
        if spec_ok != (not outside):
            chk.corr_break("pin-labels-spec", dict(info, impl="-", model=f"labelOkNum={spec_ok}, outside={outside}"))
        if status == "error":
            err = f"{type(out).__name__}: {str(out)[:200]}"
            if model is not None:
                chk.corr_break("pin-labels", dict(info, impl=err, model=model))
            else:
                chk.reject(model_err + "/" + type(out).__name__)
            continue
        if outside:
            chk.spec_violation("malformed-accepted:" + ("unsigned-label" if c["kind"] == "labels:u64" else "fractional-label"),
                               dict(info, impl=dict(targets=out.get("targets")), expected="an exception",
                                    clause=f"label value(s) {outside} outside {{-1, 0, 1}}: not rejected"))
            continue
        if out.get("targets") != [x == 1 for x in lab]:
            chk.spec_violation("clause:targets", dict(info, impl=out.get("targets"), expected=[x == 1 for x in lab],
                                                      clause=CLAUSE["targets"]))
            continue
        if model is None or out.get("targets") != model:
            chk.corr_break("pin-labels", dict(info, impl=out.get("targets"), model=model if model is not None else model_err))


# ----------------------------------------------------------------------------
# create_chunks_with_identifier called directly
# ----------------------------------------------------------------------------
def idchunks_cases(counts, id_counts, cs):
    return [dict(kind="idchunks", n=n, k=k, c=c) for n in counts for k in id_counts for c in cs]


def eval_idchunks_cases(chk, cases):
    """the real `create_chunks_with_identifier(data, identifier_column, chunk_size)` vs the model `idChunks` and vs
    the clauses proved of it: the chunks concatenate to data + identifiers (`C10_idchunks_cover`), exactly one chunk
    holds all identifier columns (`C10_idchunks_together`), no chunk is empty or larger than max(c, #identifiers)
    (`C10_idchunks_sizes`)"""
    P = importlib.import_module("mokapot.parsers.pin")
    lines = []
    for c in cases:
        lines.append(req("pin-idchunks", list(range(c["n"])), [1000 + j for j in range(c["k"])], c["c"]))
    resp = common.driver_batch(lines)
    for c, line in zip(cases, resp):
        data, ids = list(range(c["n"])), [1000 + j for j in range(c["k"])]
        r = dec(line)
        model = r if isinstance(r, str) else [[int(x) for x in ch] for ch in r]
        chk.case(None, ("idchunks", c["n"], c["k"], c["c"]), sample=dict(idchunks=c))
        chk.count("kind", "idchunks")
        chk.count("idchunks_remainder", "0" if (c["n"] + c["k"]) % c["c"] == 0
                  else ("<ids" if (c["n"] + c["k"]) % c["c"] < c["k"] else ">=ids"))
        chk.count("idchunks_ids_vs_c", "ids>c" if c["k"] > c["c"] else "ids<=c")
        info = dict(case=dict(c))
        try:
            out = P.create_chunks_with_identifier(list(data), list(ids), c["c"])
            out = [list(ch) for ch in out]
        except Exception as e:  # noqa: BLE001
            chk.spec_violation("idchunks:exception:" + type(e).__name__,
                               dict(info, impl=f"{type(e).__name__}: {e}", expected=model,
                                    clause="create_chunks_with_identifier raised on a chunk size >= 1"))
            continue
        bad = None
        if [x for ch in out for x in ch] != data + ids:
            bad = "cover"
        elif sum(1 for ch in out if set(ids) <= set(ch)) != 1:
            bad = "together"
        elif any(len(ch) == 0 or len(ch) > max(c["c"], c["k"]) for ch in out):
            bad = "sizes"
        if bad:
            chk.spec_violation("idchunks:" + bad,
                               dict(info, impl=out, expected=model,
                                    clause={"cover": "the column chunks do not concatenate to features + identifiers",
                                            "together": "not exactly one column chunk holds all identifier columns",
                                            "sizes": "a column chunk is empty or larger than max(chunk size, "
                                                     "number of identifiers)"}[bad]))
            continue
        if out != model:
            chk.corr_break("pin-idchunks", dict(info, impl=out, model=model))


# ----------------------------------------------------------------------------
# OnDiskPsmDataset(...) constructed directly: the column existence checks
# ----------------------------------------------------------------------------
CTOR_SCALARS = ["target", "peptide", "protein", "scan", "specid"]
CTOR_OPTIONALS = ["filename", "calcmass", "expmass", "rt", "charge"]
CTOR_LISTS = ["columns", "spectrum", "features", "metadata", "level"]
# the order of the tests in OnDiskPsmDataset.__init__ (dataset.py:512-526)
CTOR_ORDER = ["columns", "target", "peptide", "protein", "spectrum", "features", "metadata", "level", "filename",
              "scan", "calcmass", "expmass", "rt", "charge", "specid"]
CTOR_KW = dict(columns="columns", target="target_column", spectrum="spectrum_columns", peptide="peptide_column",
               protein="protein_column", features="feature_columns", metadata="metadata_columns",
               level="level_columns", filename="filename_column", scan="scan_column", specid="specId_column",
               calcmass="calcmass_column", expmass="expmass_column", rt="rt_column", charge="charge_column")


def gen_perturbation(rng):
    """one abstract change of one constructor argument (applied to whatever the parse of the base table gave)"""
    u = rng.random()
    if u < 0.3:
        field = rng.choice(CTOR_SCALARS)
        op = rng.choice(["absent", "absent", "wrongcase", "empty", "none", "other"])
    elif u < 0.55:
        field = rng.choice(CTOR_OPTIONALS)
        op = rng.choice(["absent", "absent", "wrongcase", "empty", "none", "other"])
    else:
        field = rng.choice(CTOR_LISTS)
        op = rng.choice(["replace-absent", "replace-wrongcase", "append-absent", "prepend-absent", "replace-empty",
                         "clear", "none", "append-other", "tuple"])
    return dict(field=field, op=op, pos=rng.randrange(1000))


def gen_ctor_case(rng):
    base = gen_case(rng, nmax=6, force=dict(nrows=rng.choice([1, 2, 3]), na_mode=rng.choice(["none", "onecell"])))
    base["entry"], base["call"], base["form"] = "read_pin", "kw", "path"
    k = rng.choice([0, 1, 1, 1, 1, 2])
    return dict(kind="ctor", base=base, perturb=[gen_perturbation(rng) for _ in range(k)],
                nofile=rng.random() < 0.1)


def apply_perturbation(fields, header, pt):
    """returns the changed value of the field"""
    f, op, pos = pt["field"], pt["op"], pt["pos"]
    v = fields[f]
    absent = "no_such_" + f  # (one name per field: the message of the constructor names the first offender)

    def wrongcase(name):
        alt = name.swapcase() if isinstance(name, str) else absent
        return alt if alt not in header else absent

    other = header[pos % len(header)]  # some column of the file: always admissible
    if f in CTOR_LISTS:
        lst = list(v) if v is not None else []
        i = pos % len(lst) if lst else 0
        if op == "replace-absent" and lst:
            lst[i] = absent
        elif op == "replace-wrongcase" and lst:
            lst[i] = wrongcase(lst[i])
        elif op == "replace-empty" and lst:
            lst[i] = ""
        elif op in ("append-absent", "replace-absent", "replace-wrongcase", "replace-empty"):
            lst.append(absent)
        elif op == "prepend-absent":
            lst.insert(0, absent)
        elif op == "append-other":
            lst.append(other)
        elif op == "clear":
            lst = []
        elif op == "none":
            return None
        elif op == "tuple":
            return tuple(lst)
        return lst
    if op == "absent":
        return absent
    if op == "wrongcase":
        return wrongcase(v) if v else absent
    if op == "empty":
        return ""
    if op == "none":
        return None
    return other


def ctor_expected(header, fields):
    """direct re-statement of dataset.py:497-526: the first name, in the order of the tests, that is non-empty and
    not a column of the file (None: the dataset is accepted)"""
    for f in CTOR_ORDER:
        v = fields[f]
        names = ([] if v is None else list(v)) if f in CTOR_LISTS else [v]
        for n in names:
            if n and n not in header:
                return n
    return None


def wire_ctor_fields(fields):
    def nm(v):
        return "" if v is None else v

    def opt(v):
        return Atom("none") if v is None else [v]

    def lst(v):
        return [] if v is None else list(v)

    return [lst(fields["columns"]), nm(fields["target"]), lst(fields["spectrum"]), nm(fields["peptide"]),
            nm(fields["protein"]), lst(fields["features"]), lst(fields["metadata"]), lst(fields["level"]),
            opt(fields["filename"]), nm(fields["scan"]), nm(fields["specid"]), opt(fields["calcmass"]),
            opt(fields["expmass"]), opt(fields["rt"]), opt(fields["charge"]), [], []]


def eval_ctor_cases(chk, cases, tmpdir: Path):
    import re

    import mokapot
    from mokapot.dataset import OnDiskPsmDataset

    prepared = []
    for i, c in enumerate(cases):
        base = c["base"]
        path = tmpdir / f"ctor{i}{base['suffix']}"
        write_case(base, path)
        header = [n for n, _ in base["cols"]]
        try:
            ds = mokapot.read_pin(path, max_workers=1)[0]
        except Exception as e:  # noqa: BLE001  (reported by the ordinary cases; nothing to construct from)
            chk.reject("ctor-base-not-parsed/" + type(e).__name__)
            continue
        fields = dict(columns=list(ds.columns), target=ds.target_column, spectrum=list(ds.spectrum_columns),
                      peptide=ds.peptide_column, protein=ds.protein_column, features=list(ds.feature_columns),
                      metadata=list(ds.metadata_columns), level=list(ds.level_columns), filename=ds.filename_column,
                      scan=ds.scan_column, specid=ds.specId_column, calcmass=ds.calcmass_column,
                      expmass=ds.expmass_column, rt=ds.rt_column, charge=ds.charge_column)
        for pt in c["perturb"]:
            fields[pt["field"]] = apply_perturbation(fields, header, pt)
        prepared.append((c, path, header, ds, fields))
    lines = [req("pin-checks", Atom("none") if c["nofile"] else [header], wire_ctor_fields(fields))
             for c, _, header, _, fields in prepared]
    resp = common.driver_batch(lines)
    for (c, path, header, ds, fields), line in zip(prepared, resp):
        r = dec(line)
        model_status, model_culprit, model_same = r[0], d_opt(r[1]), a_bool(r[2])
        expected = None if c["nofile"] else ctor_expected(header, fields)
        kw = {CTOR_KW[f]: v for f, v in fields.items()}
        try:
            obj = OnDiskPsmDataset(filename=None if c["nofile"] else path, metadata_column_types=ds.metadata_column_types,
                                   spectra_dataframe=ds.spectra_dataframe, **kw)
            status, culprit = "ok", None
        except ValueError as e:
            m = re.match(r"Column '(.*)' not found in data columns of file", str(e), re.S)
            status, culprit = ("reject", m.group(1)) if m else ("error", f"ValueError: {e}")
        except Exception as e:  # noqa: BLE001
            status, culprit = "error", f"{type(e).__name__}: {str(e)[:200]}"
        try:
            path.unlink()
        except OSError:
            pass
        key = (tuple(n.lower() for n in header), tuple((p["field"], p["op"], p["pos"] % 7) for p in c["perturb"]),
               c["nofile"])
        chk.case(None, key, sample=dict(ctor=[(p["field"], p["op"]) for p in c["perturb"]], nofile=c["nofile"],
                                        impl=[status, culprit], expected=expected))
        chk.count("kind", "ctor")
        chk.count("ctor_perturbations", len(c["perturb"]))
        for p in c["perturb"]:
            chk.count("ctor_field", p["field"])
            chk.count("ctor_op", p["op"])
        chk.count("ctor_file", "filename=None" if c["nofile"] else "file")
        chk.count("ctor_expected", "accepted" if expected is None else "refused")
        info = dict(case=jsonable(c), fields=json.loads(json.dumps(fields)))
        if (model_status == "ok") != (expected is None) or (expected is not None and model_culprit != expected):
            chk.corr_break("pin-checks-spec", dict(info, impl="-", model=[model_status, model_culprit],
                                                   expected=expected))
        if status == "error":
            chk.spec_violation("ctor:unexpected-exception",
                               dict(info, impl=culprit, expected=expected or "accepted",
                                    clause="OnDiskPsmDataset raised something other than its column error"))
        elif status == "reject" and expected is None:
            chk.spec_violation("ctor:known-columns-refused",
                               dict(info, impl=f"Column '{culprit}' not found", expected="accepted",
                                    clause="every name handed to OnDiskPsmDataset is a column of the file (or empty / "
                                           "None), the constructor refused it"))
        elif status == "ok" and expected is not None:
            chk.spec_violation("ctor:foreign-column-accepted",
                               dict(info, impl="accepted", expected=f"Column '{expected}' not found",
                                    clause=f"'{expected}' is not a column of the file, the constructor accepted it"))
        elif status == "ok":
            stored = {f: getattr(obj, CTOR_KW[f]) for f in fields}
            diff = [f for f in fields if stored[f] != fields[f]]
            if diff or obj.filename != (None if c["nofile"] else path):
                chk.spec_violation("ctor:fields-not-stored",
                                   dict(info, impl={f: repr(stored[f]) for f in diff}, expected="the values given",
                                        clause="OnDiskPsmDataset does not store the fields it was given"))
            elif not model_same or model_status != "ok":
                chk.corr_break("pin-checks", dict(info, impl="ok", model=[model_status, model_culprit]))
        elif culprit != model_culprit or model_status == "ok":
            chk.corr_break("pin-checks", dict(info, impl=[status, culprit], model=[model_status, model_culprit]))


def ctor_cases(rng, n):
    return [gen_ctor_case(rng) for _ in range(n)]


def ctor_sweep(rng):
    """every one of the fifteen constructor arguments once with an absent and once with a wrong-case name, and every
    pair of consecutive tests with both names absent (a permutation of the tests other than the identity changes the
    relative order of two consecutive ones, hence the column named in the message)"""
    base = gen_case(rng, nmax=5, force=dict(nrows=2, na_mode="none", opt=["filename", "ret_time", "expmass", "calcmass"],
                                            fmt=rng.choice(["pin", "parquet"])))
    base["entry"], base["call"], base["form"] = "read_pin", "kw", "path"

    def one(field, kind):
        if field in CTOR_LISTS:
            return dict(field=field, op="append-absent" if kind == "absent" else "replace-wrongcase", pos=rng.randrange(1000))
        return dict(field=field, op=kind, pos=0)

    cases = []
    for f in CTOR_ORDER:
        for kind in ("absent", "wrongcase"):
            cases.append(dict(kind="ctor", base=base, perturb=[one(f, kind)], nofile=False))
    for f, g in zip(CTOR_ORDER, CTOR_ORDER[1:]):
        cases.append(dict(kind="ctor", base=base, perturb=[one(g, "absent"), one(f, "absent")], nofile=False))
    return cases


# ----------------------------------------------------------------------------
# sweeps
# ----------------------------------------------------------------------------
def sweep_feature_counts(rng, counts, cs, fmts):
    """every feature count x identifier count x column chunk size"""
    cases = []
    for n_feat in counts:
        for opt in ([], ["expmass"], ["filename", "ret_time"], ["filename", "ret_time", "expmass"]):
            for c in cs:
                if c is None:
                    c = DEFAULT_C
                fmt = fmts[(n_feat + len(opt) + c) % len(fmts)]
                case = gen_case(rng, force=dict(n_feat=n_feat, opt=list(opt), c=c, nrows=rng.choice([2, 3]),
                                                fmt=fmt, r=rng.choice([1, 2, DEFAULT_R]),
                                                na_mode=rng.choice(["onecell", "sparse", "first", "last"]),
                                                workers=rng.randint(1, 4)))
                case["kind"] = "wellformed-sweep"
                cases.append(case)
    return cases


def sweep_masks(rng):
    """all missing-value masks of a 2-feature x 3-row table x row chunk sizes x column chunk sizes x formats"""
    cases = []
    for mask in itertools.product([False, True], repeat=6):
        for r in (1, 2, 3, 4):
            for c in (1, 2, 3, 5):
                for fmt in ("pin", "parquet"):
                    case = gen_case(rng, force=dict(n_feat=2, nrows=3, opt=["expmass"], c=c, r=r, fmt=fmt,
                                                    na_mode="none", workers=1 + (r + c) % 3))
                    feats = [p for p in case["cols"] if p[0].lower() not in REQUIRED + LEVELS + OPTIONAL
                             + ["charge_column"]]
                    for j, p in enumerate(feats[:2]):
                        for i in range(3):
                            p[1][i] = None if mask[j * 3 + i] else (p[1][i] if p[1][i] is not None else 1)
                    for p in feats[2:]:
                        p[1][:] = [0 if x is None else x for x in p[1]]
                    case["kind"] = "wellformed-masks"
                    cases.append(case)
    return cases


def run_in_batches(chk, cases, tmpdir, size=200):
    for i in range(0, len(cases), size):
        eval_cases(chk, cases[i:i + size], tmpdir)


def random_cases(rng, n):
    cases = []
    for _ in range(n):
        c = gen_case(rng)
        u = rng.random()
        if u < 0.12:
            c = malform(rng, c)
        elif u < 0.24:
            c = with_args(rng, c)
        cases.append(c)
    return cases


def norows_cases(rng, n):
    """Parquet files without data rows: the reader yields no row chunk, `pd.concat([])` raises (model:
    `reject-noobjects`, C10_no_rows_no_dataset).  Text files without rows are outside the model (the text reader
    yields one empty chunk and the call returns an empty dataset) — see GAPS-C10, third pass."""
    cases = []
    for _ in range(n):
        c = gen_case(rng, nmax=24, force=dict(fmt="parquet"))
        c["cols"] = [[name, []] for name, _ in c["cols"]]
        c["kind"] = "norows"
        c["row_group"] = None
        c["label_type"] = None
        cases.append(c)
    return cases


def args_sweep(rng):
    """every keyword argument x entry point x keyword / positional call, naming a feature column (always an
    admissible call: the full specification applies)"""
    cases = []
    for k in ARG_KEYS:
        for entry in ("read_pin", "read_percolator"):
            for call in ("kw", "pos"):
                c = gen_case(rng, nmax=8, force=dict(nrows=rng.choice([2, 3])))
                names = [n for n, _ in c["cols"]]
                feats = [n for n in names if n.lower() not in REQUIRED + LEVELS + OPTIONAL + ["charge_column"]]
                c["args"][k] = rng.choice(feats)
                c["entry"], c["call"] = entry, call
                c["kind"] = "args:feature"
                cases.append(c)
    return cases


def files_cases(rng, n):
    return [gen_files_case(rng) for _ in range(n)]


def label_cases(rng, n):
    return [gen_label_case(rng) for _ in range(n)] + [gen_u64_label_case(rng) for _ in range((n + 1) // 2)]


def malformed_cases(rng, per_kind):
    """a fixed number of every kind of malformed table"""
    return [malform(rng, gen_case(rng, nmax=12), kind) for kind in MALFORMED_KINDS for _ in range(per_kind)]


def corpus_cases():
    p = common.VERIF / "harness" / "corpus" / "C10.json"
    if p.exists():
        return json.loads(p.read_text())
    return []


def search(chk):
    """failing-input search used when a proof or the correspondence is broken"""
    rng = chk.rng
    tmp = Path(tempfile.mkdtemp(prefix="c10s-"))
    try:
        run_in_batches(chk, sweep_feature_counts(rng, range(1, 61), [None, 1, 2, 3, 5, 7], ["pin", "parquet"]), tmp)
        if not chk.spec_violations:
            run_in_batches(chk, random_cases(rng, 1500) + malformed_cases(rng, 40) + args_sweep(rng) + files_cases(rng, 300)
                           + label_cases(rng, 100) + ctor_cases(rng, 600) + ctor_sweep(rng)
                           + idchunks_cases(range(0, 61), range(1, 7), list(range(1, 31)) + [64, 100]), tmp)
        if not chk.spec_violations:
            run_in_batches(chk, sweep_masks(rng), tmp)
    finally:
        shutil.rmtree(tmp, ignore_errors=True)
    minimise(chk)


def minimise(chk):
    """shrink the first spec violation: delete optional/feature columns, then rows"""
    if not chk.spec_violations:
        return
    sig, info = chk.spec_violations[0]
    if "case" not in info or info.get("shrunk") or "cols" not in info["case"]:
        return  # (calls with several files are reported as generated)
    c0 = info["case"]
    tmp = Path(tempfile.mkdtemp(prefix="c10m-"))

    def fails(case):
        sub = common.Check(chk.prop, chk.tier, chk.seed)
        try:
            eval_cases(sub, [case], tmp)
        except Exception:  # noqa: BLE001
            return None
        for s, i in sub.spec_violations:
            if s == sig:
                return i
        return None

    try:
        cols = c0["cols"]
        keep = [p for p in cols if p[0].lower() in REQUIRED]
        removable = [p for p in cols if p[0].lower() not in REQUIRED]

        def with_cols(rem):
            names = {p[0] for p in rem} | {p[0] for p in keep}
            return dict(c0, cols=[p for p in cols if p[0] in names])

        if fails(c0) is None:
            return
        rem = common.shrink_list(removable, lambda r: fails(with_cols(r)) is not None, min_len=0)
        c1 = with_cols(rem)
        nrows = len(c1["cols"][0][1])
        rows = common.shrink_list(list(range(nrows)),
                                  lambda rs: fails(dict(c1, cols=[[n, [cells[i] for i in rs]] for n, cells in c1["cols"]]))
                                  is not None, min_len=1)
        c2 = dict(c1, cols=[[n, [cells[i] for i in rows]] for n, cells in c1["cols"]])
        i2 = fails(c2)
        if i2 is not None:
            chk.spec_violations[0] = (sig, dict(i2, shrunk=True, shrunk_from=dict(columns=len(cols), rows=nrows)))
    finally:
        shutil.rmtree(tmp, ignore_errors=True)


def main(chk, args):
    build = common.build_and_audit("C10", extra_targets=["MokapotVerif.Mutants.Pin", "MokapotVerif.Mutants.PinExt",
                                                         "MokapotVerif.Mutants.PinChecks", "MokapotVerif.Mutants.PinWarn"])
    if not build.driver_ok:
        chk.finish(build, RULE)
    rng = chk.rng
    tmp = Path(tempfile.mkdtemp(prefix="c10-"))
    try:
        cases = corpus_cases()
        if chk.tier == "quick":
            cases += random_cases(rng, 250)
            cases += malformed_cases(rng, 5)
            cases += args_sweep(rng)
            cases += files_cases(rng, 36)
            cases += label_cases(rng, 20)
            cases += norows_cases(rng, 6)
            cases += ctor_cases(rng, 60) + ctor_sweep(rng)
            # create_chunks_with_identifier directly: every feature count 0..60 x identifier count x chunk size
            cases += idchunks_cases(range(0, 61), range(1, 6), [1, 2, 3, 4, 5, 7, 18, 19, 20, 21, 64])
            # every feature count 1..60 (all residues modulo the default column chunk size 19)
            cases += sweep_feature_counts(rng, range(1, 61), [None], ["pin", "parquet"])
            cases += sweep_feature_counts(rng, range(1, 9), [1, 2, 3, 4], ["pin", "parquet"])
            run_in_batches(chk, cases, tmp)
        else:
            cases += random_cases(rng, 2500)
            cases += malformed_cases(rng, 50)
            cases += args_sweep(rng) + args_sweep(rng) + args_sweep(rng)
            cases += files_cases(rng, 450)
            cases += label_cases(rng, 240)
            cases += norows_cases(rng, 40)
            cases += ctor_cases(rng, 900) + ctor_sweep(rng) + ctor_sweep(rng) + ctor_sweep(rng)
            cases += idchunks_cases(range(0, 61), range(1, 7), list(range(1, 31)) + [64, 100])
            cases += sweep_feature_counts(rng, range(1, 61), [None, 1, 2, 3, 4, 5, 7, 11], ["pin", "parquet"])
            run_in_batches(chk, cases, tmp)
            masks = sweep_masks(rng)
            run_in_batches(chk, masks, tmp)
            chk.extra["exhaustive_sweep"] = (
                f"feature counts 1..60 x identifier counts 2..5 x column chunk sizes {{19,1,2,3,4,5,7,11}}; all 64 "
                f"missing-value masks of a 2x3 feature block x r in 1..4 x c in {{1,2,3,5}} x 2 formats: {len(masks)} cases"
            )
    finally:
        shutil.rmtree(tmp, ignore_errors=True)
    minimise(chk)
    lc = None
    if chk.tier == "thorough":
        lc1, lc2, lc3 = common.leanchecker("C10"), common.leanchecker("C10Ext"), common.leanchecker("C10Checks")
        lc4 = common.leanchecker("C10Warn")
        lc = (lc1[0] and lc2[0] and lc3[0] and lc4[0], lc1[1] + lc2[1] + lc3[1] + lc4[1])
    chk.assumptions += [
        "pandas.read_csv / pyarrow decide which cells are missing (NA tokens, nulls, NaN) and infer the column "
        "dtypes; the model receives the table after that decoding (cells: missing | int | bool | text)",
        "Python str.lower() is modelled on ASCII letters (the reserved names are ASCII and contain no letter whose "
        "lower-casing is non-ASCII-sensitive)",
        "joblib.Parallel(require='sharedmem') returns task results in task order; list.append is atomic; the "
        "completion order of the tasks is a universally quantified parameter of the model",
        "pd.concat of the appended frames concatenates rows in list order and keeps their row labels",
        "the readers number the rows of a file consecutively over the row chunks (tabular_data.py, property C13)",
        "a float label is sent to the model as the exact rational value of the double that pandas / pyarrow decode",
        "the column types handed to the model of pin.py:207 are the ones the file declares when read without "
        "mokapot (Arrow schema; dtypes pandas infers from the first two data rows)",
        "the header OnDiskPsmDataset re-reads from the file is the header the table was written with",
    ]
    chk.finish(build, RULE, search=search, lc=lc,
               trusted_extra=["pandas read_csv (type inference, NA tokens, chunksize), pyarrow Parquet "
                              "read/iter_batches, joblib threading backend"])


def replay(chk, path):
    info = json.loads(open(path).read())
    if "case" not in info:
        print(json.dumps(info, indent=1)[:3000])
        return 0
    common.build_and_audit("C10")
    tmp = Path(tempfile.mkdtemp(prefix="c10r-"))
    try:
        eval_cases(chk, [info["case"]], tmp)
    finally:
        shutil.rmtree(tmp, ignore_errors=True)
    for sig, i in chk.spec_violations:
        print("REPRODUCED", sig, json.dumps(i, default=str)[:1500])
    return 1 if chk.spec_violations else 0
