"""C02 — cross-validation integrity: no PSM is scored by a model that saw its spectrum."""
from __future__ import annotations

import contextlib
import copy
import json
import types
from zlib import crc32

import numpy as np

import common
import mkdata
import pipeline as P
import recest
from common import a_int, a_str, deep, dec, req

RULE = (
    "case = (1-3 PSM tables with spectrum multiplicities 1..5 and spectrum keys of 1-4 columns, folds 2..6, "
    "training cap absent/present, max_workers 1..8, read/predict chunk sizes 1..n+1, seed, text/Parquet); the real "
    "brew() is run with a recording estimator passed through the public Model API; folds, training sets and routing "
    "are recovered from the recorded calls and the returned scores; the training sets are also compared with the "
    "model of make_train_sets (ValueError of rng.choice <=> model reject), the whole run with the model `brewRun`, "
    "the spectrum clauses are re-stated on the real key tuples, and on a sample of the runs brew() is called again "
    "with the returned models (permuted / one missing / one untrained / without fold numbers, other seed and chunk "
    "size); second pass: the inner block loop of make_train_sets is entered by lowering its literal block size, the "
    "reader's real chunk lengths are fed to the two-chunker model of _predict, different spectra sharing the first two "
    "key columns are generated, the key clauses use the generated tables (not the parsed dataset), psms is passed as "
    "list / tuple / bare dataset, rng as int / Generator; third pass: inside the real run the labels "
    "get_index_values collects, the per-fold score arrays and the held-out folds handed to make_train_sets are "
    "recorded and compared with the model of the order-restoring steps (foldLabels, argsort + fancy indexing, routeA, "
    "predictTwoA), the whole run with `brewRunA` (same error kind when brew refuses: features / IndexError / "
    "rng.choice / np.hstack of an empty fold), jointly modelled files with different feature names and files with one "
    "spectrum holding ~80 % of the PSMs (empty middle fold) are generated; "
    "distinct = distinct (hash vector structure, folds, cap, sizes); non-trivial = some spectrum has >= 2 PSMs"
)


def gen_case(rng):
    nfiles = rng.choice([1, 1, 1, 2, 3])
    case = dict(
        nfiles=nfiles,
        n_spectra=[rng.choice([12, 20, 35, 60, 90]) for _ in range(nfiles)],
        max_per=rng.choice([1, 2, 3, 5]),
        optional=rng.choice([(), ("ExpMass",), ("filename", "ExpMass"), ("filename", "ExpMass", "ret_time")]),
        folds=rng.choice([2, 2, 3, 3, 4, 5, 6]),
        cap=rng.choice([None, None, "small", "mid", "big"]),
        workers=rng.choice([1, 1, 2, 4, 8]),
        cread=rng.choice([1, 3, 7, "n-1", "n", "n+1", 200000]),
        cpred=rng.choice([1, 2, 5, "n-1", "n", "n+1", 700000]),
        fmt=rng.choice(["pin", "parquet"]),
        seed=rng.randrange(1000),
        data_seed=rng.randrange(1 << 30),
        few_spectra=rng.random() < 0.1,
    )
    if case["few_spectra"]:
        case["n_spectra"] = [rng.choice([2, 3, 4]) for _ in range(nfiles)]
        case["max_per"] = 5
    # second call of brew() with the models of the first (None = not made)
    case["rescore"] = rng.choice([None, None, None, None, None, "perm", "perm", "same", "missing", "extra", "untrained"])
    case["seed2"] = rng.randrange(1000)
    # (chunks of one or two rows are exercised by the first call; they make a call several times slower)
    case["cpred2"] = rng.choice([3, 5, "n-1", "n", "n+1", 700000])
    # ---- second pass.  The added dimensions are drawn from a generator seeded by a draw of chk.rng that was
    # already part of the case (so the first-pass case stream of every VERIF_SEED is unchanged, and so is its cost)
    import random
    sub = random.Random(case["data_seed"] ^ 0x5BD1E995)
    # all worker counts 1..8 (the first pass drew from {1, 2, 4, 8})
    case["workers"] = sub.choice({1: [1], 2: [2, 3], 4: [4, 5, 6], 8: [7, 8]}[case["workers"]])
    # block size of the inner loop of make_train_sets (None = the literal 5 000 000 is left alone)
    case["crange"] = sub.choice([None, None, 1, 2, 7, "n/3", "n/2", "n-1"])
    # different spectra that agree on the first two spectrum-key columns (effective with >= 3 key columns)
    case["collide"] = sub.random() < 0.4
    case["psms_form"] = sub.choice(["list", "list", "tuple", "bare"]) if nfiles == 1 else sub.choice(["list", "list", "tuple"])
    case["rng_form"] = sub.choice(["int", "int", "generator"])
    if case["rescore"] is None and sub.random() < 0.15:
        case["rescore"] = sub.choice(["nofold-one", "nofold-all"])
    # ---- third pass (own generator again: the case stream of the earlier passes is unchanged)
    sub3 = random.Random(case["data_seed"] ^ 0x2545F491)
    # one of several jointly modelled files names a feature column differently (brew.py:126-129)
    case["feat_mismatch"] = nfiles > 1 and sub3.random() < 0.08
    # one spectrum holding ~80 % of the PSMs of a file: both cuts of a 3-fold split snap to the same group boundary,
    # the middle fold is empty (np.hstack([]) in _predict) unless the big group is the last in hash order (IndexError)
    case["skew"] = sub3.random() < 0.07
    if case["skew"]:
        case.update(n_spectra=[6] * nfiles, max_per=3, folds=3, cap=None, rescore=None, few_spectra=False,
                    feat_mismatch=False, collide=False)
    return case


def spectrum_hashes(ds):
    """the hash vector of `_split`, computed with the same expression (dataset.py:653-661)"""
    spectra = ds.spectra_dataframe[ds.spectrum_columns].values
    return [crc32(str(tuple(x[:2])).encode()) for x in spectra]


def csize(v, n):
    return {"n-1": max(1, n - 1), "n": n, "n+1": n + 1}.get(v, v)


BLOCK_LITERAL = 5000000


@contextlib.contextmanager
def block_size(cr):
    """run with the block size of the inner loop of `make_train_sets` (the literal `chunk_range = 5000000`,
    brew.py:334) lowered to `cr`: the REAL function is re-created from its own code object with that one constant
    replaced and installed as the module attribute `brew` looks up.  Yields whether the loop can be entered this
    way (False: no lowering asked for, or the literal is not in the code any more)"""
    B = P.mod("mokapot.brew")
    fn = B.make_train_sets
    code = getattr(fn, "__code__", None)
    if cr is None or code is None or hasattr(fn, "__wrapped__") or \
            not any(type(c) is int and c == BLOCK_LITERAL for c in code.co_consts):
        yield False
        return
    consts = tuple(int(cr) if (type(c) is int and c == BLOCK_LITERAL) else c for c in code.co_consts)
    new = types.FunctionType(code.replace(co_consts=consts), fn.__globals__, fn.__name__, fn.__defaults__,
                             fn.__closure__)
    new.__kwdefaults__ = fn.__kwdefaults__
    B.make_train_sets = new
    try:
        yield True
    finally:
        B.make_train_sets = fn


class PredictObserver:
    """records, inside the REAL run, what `_predict` collects: the labels `get_index_values` appends to `orig_idx`
    (per collection and fold), the score arrays `predict_fold` appends to `fold_scores`, and the held-out folds
    `brew` hands to `make_train_sets` (`test_folds_idx`, with the in-fold shuffle).  The three functions are
    module-level names of mokapot.brew that `brew`/`_predict` look up at call time; each wrapper calls the real
    function and only keeps references to the lists it was given."""

    def __init__(self):
        import threading
        self.lock = threading.Lock()
        self.orig, self.orig_inner = [], []        # outer `orig_idx` objects (identity) / their inner lists
        self.fsc, self.fsc_inner = [], []          # outer `fold_scores` objects / their inner lists
        self.test_idx = None
        self.installed = False

    def _inner(self, outers, inners, obj):
        with self.lock:
            for o, inn in zip(outers, inners):
                if o is obj:
                    return inn
            outers.append(obj)
            inners.append(list(obj))               # the inner lists themselves (the code pops them off later)
            return inners[-1]

    @contextlib.contextmanager
    def install(self):
        B = P.mod("mokapot.brew")
        names = ("get_index_values", "predict_fold", "make_train_sets")
        if not all(callable(getattr(B, n, None)) for n in names):
            yield self
            return
        real = {n: getattr(B, n) for n in names}
        obs = self

        def get_index_values(df, col_name, val, orig_idx):
            obs._inner(obs.orig, obs.orig_inner, orig_idx)
            return real["get_index_values"](df, col_name, val, orig_idx)

        def predict_fold(model, fold, psms, scores):
            obs._inner(obs.fsc, obs.fsc_inner, scores)
            return real["predict_fold"](model=model, fold=fold, psms=psms, scores=scores)

        def make_train_sets(*a, **kw):
            ti = kw.get("test_idx", a[0] if a else None)
            try:
                obs.test_idx = [[[int(x) for x in fold] for fold in file_] for file_ in ti]
            except Exception:
                obs.test_idx = None
            return real["make_train_sets"](*a, **kw)

        B.get_index_values, B.predict_fold, B.make_train_sets = get_index_values, predict_fold, make_train_sets
        self.installed = True
        try:
            yield self
        finally:
            for n in names:
                setattr(B, n, real[n])

    def labels(self):
        return [[[int(x) for x in fold] for fold in inn] for inn in self.orig_inner]

    def fold_scores(self):
        return [[np.concatenate([np.asarray(a).ravel() for a in fold]) if fold else np.zeros(0) for fold in inn]
                for inn in self.fsc_inner]


KEY_COLUMNS = ("filename", "ScanNr", "ret_time", "ExpMass")   # the order read_pin gives the spectrum columns


def share_first_two_key_columns(r, df):
    """give some spectra the scan number of another spectrum of the same file name: with a key of three or four
    columns (filename, ScanNr, [ret_time,] ExpMass) they stay different spectra (ExpMass differs) but agree on the
    two columns `_split` hashes.  Returns the number of spectra changed."""
    if "filename" not in df.columns:
        return 0            # key = (ScanNr[, ExpMass]): the first two columns are the whole key
    scans = set(int(x) for x in df["ScanNr"].unique())
    remap = {s_: s_ - 2 for s_ in sorted(scans) if s_ - 2 in scans and r.random() < 0.5}
    df["ScanNr"] = [remap.get(int(x), int(x)) for x in df["ScanNr"]]
    return len(remap)


def run_case(chk, case):
    import random
    import mokapot

    r = random.Random(case["data_seed"])
    with P.workdir() as d:
        tabs, dss, offs, paths = [], [], [], []
        off = 0
        ncollide = 0
        for k in range(case["nfiles"]):
            df = mkdata.make_psm_table(r, n_spectra=case["n_spectra"][k], max_per_spectrum=case["max_per"], n_feat=2,
                                       label_enc="pm1", optional=case["optional"], signal=4.0)
            df["rowid"] = np.arange(off, off + len(df))
            df["SpecId"] = [f"f{k}_{i}" for i in range(len(df))]
            if case.get("skew"):
                import pandas as pd
                big = df[df["ScanNr"] == df["ScanNr"].iloc[0]]
                df = pd.concat([df] + [big] * (4 * len(df) // max(1, len(big)) + 1), ignore_index=True)
                df["rowid"] = np.arange(off, off + len(df))
                df["SpecId"] = [f"f{k}_{i}" for i in range(len(df))]
            if case.get("collide"):
                ncollide += share_first_two_key_columns(r, df)
            offs.append(off)
            off += len(df)
            tabs.append(df)
            if case.get("feat_mismatch") and k == case["nfiles"] - 1:
                df = df.rename(columns={"feat1": "featX"})
            p = mkdata.write_table(df, d / f"in{k}.{case['fmt']}", row_group_size=r.choice([None, 7, 50]))
            dss.append(mkdata.read_dataset(p))
            paths.append(p)
        ntot = off
        hashes = [spectrum_hashes(ds) for ds in dss]
        # the spectrum keys for the clauses of the property: from the GENERATED tables (independent of the parser's
        # spectra_dataframe, which is what `_split` reads)
        key_cols = [c for c in KEY_COLUMNS if c in tabs[0].columns]
        spectra = [list(zip(*[t[c].tolist() for c in key_cols])) for t in tabs]
        parsed = [[tuple(x) for x in ds.spectra_dataframe[ds.spectrum_columns].values] for ds in dss]
        frame_ok = all(list(ds.spectrum_columns) == key_cols for ds in dss) and \
            all(len(a) == len(b) and all(tuple(map(float_or_str, x)) == tuple(map(float_or_str, y))
                                         for x, y in zip(a, b)) for a, b in zip(spectra, parsed))
        train_total = ntot  # rough size for the cap choices
        cap = {None: None, "small": max(2 * case["nfiles"], ntot // 6), "mid": ntot // 2, "big": 10 * ntot}[case["cap"]]
        run = recest.new_run()
        est = recest.TagProba(run=run)
        model = mokapot.Model(est, scaler="as-is", train_fdr=0.5, max_iter=2, override=True, rng=case["seed"])
        nmax = max(len(t) for t in tabs)
        crange = {"n/3": max(1, nmax // 3), "n/2": max(1, nmax // 2), "n-1": max(1, nmax - 1)}.get(
            case.get("crange"), case.get("crange"))
        psms_arg = {"list": dss, "tuple": tuple(dss), "bare": dss[0]}[case.get("psms_form", "list")]
        rng_arg = np.random.default_rng(case["seed"]) if case.get("rng_form") == "generator" else case["seed"]
        lowered = False
        obs = PredictObserver()
        feats = [[str(c) for c in ds.feature_columns] for ds in dss]
        cra, cpa = csize(case["cread"], nmax), csize(case["cpred"], nmax)

        def whole_run_model_rejects(kind):
            # the whole-run model with every step as the code has it must refuse with the same kind of error
            rr = common.driver_batch([req("brewruna", case["folds"], cap_arg(cap), cra, cpa, hashes, feats)])[0].strip()
            chk.count("brewruna", kind)
            if rr != kind:
                chk.corr_break("brewruna", dict(case=case, impl=kind, model=rr[:200],
                                                hashes=hashes if ntot < 80 else "omitted"))
                return False
            return True
        try:
            with P.chunk_sizes(read_all=csize(case["cread"], nmax), predict=csize(case["cpred"], nmax)), \
                    block_size(crange) as lowered, obs.install():
                _, models, scores, descs = mokapot.brew(psms_arg, model, test_fdr=0.5, folds=case["folds"],
                                                        max_workers=case["workers"], rng=rng_arg,
                                                        subset_max_train=cap)
            outcome = "ok"
        except IndexError:
            outcome = "reject-index"
        except ValueError as e:
            if "must use the same features" in str(e):
                chk.count("features", "differ")
                if len(set(map(frozenset, feats))) > 1:
                    chk.reject("collections-with-different-features")
                    whole_run_model_rejects("reject-ValueError-features")
                    return
            if "Cannot take a larger sample" in str(e):
                chk.reject("cap-larger-than-file-share")
                whole_run_model_rejects("reject-ValueError-choice")
                check_choice_reject(chk, case, hashes, [len(t) for t in tabs], cap, nmax, crange if lowered else None)
                return
            if "PSMs were detected" in str(e) or "PSMs were available" in str(e):
                chk.reject("training-set-without-targets-or-decoys")
                return
            if "need at least one array" in str(e):
                # a fold without any PSM (fewer spectrum groups than folds): the model's split has an empty fold too
                resp = common.driver_batch([req("split", case["folds"], h) for h in hashes])
                if any("[]" in r_.replace(" ", "") or r_.strip() == "reject-index" for r_ in resp):
                    chk.reject("empty-fold-too-few-spectrum-groups")
                    # np.hstack([]) in _predict: the model of _predict refuses for the same reason (unless _split of
                    # a later collection would already have refused in the model: then brew could not get here)
                    if not any(r_.strip() == "reject-index" for r_ in resp):
                        whole_run_model_rejects("reject-hstack")
                    return
            chk.spec_violation("exception:ValueError", dict(case=case, error=str(e)[:300], clause="brew raised"))
            return
        except RuntimeError as e:
            chk.reject("training-failed:" + str(e)[:40])
            return
        except Exception as e:      # any other exception on an input the property quantifies over (with the case,
            # so that the replay reproduces it)
            chk.spec_violation("exception:" + type(e).__name__,
                               dict(case=case, error=str(e)[:300], clause="brew raised " + type(e).__name__))
            return
        # model side of the fold computation
        resp = common.driver_batch([req("split", case["folds"], h) for h in hashes])
        model_reject = any(x.strip() == "reject-index" for x in resp)
        chk.count("outcome", outcome)
        chk.count("folds", case["folds"]); chk.count("nfiles", case["nfiles"]); chk.count("cap", str(case["cap"]))
        chk.count("workers", case["workers"]); chk.count("keycols", len(dss[0].spectrum_columns))
        chk.count("cread", str(case["cread"])); chk.count("cpred", str(case["cpred"]))
        chk.count("block-loop", "not-lowered" if case.get("crange") is None else
                  ("literal-absent" if not lowered else
                   ("entered" if any(len(t) > crange for t in tabs) else "one-block")))
        chk.count("block-size", str(case.get("crange")))
        chk.count("skewed-spectrum", "yes" if case.get("skew") else "no")
        chk.count("shared-first-two-key-columns", "none" if not ncollide else "some-spectra")
        chk.count("psms-form", case.get("psms_form", "list")); chk.count("rng-form", case.get("rng_form", "int"))
        chk.count("parsed-spectra-frame", "as-generated" if frame_ok else "differs")
        multi = any(len(set(s)) < len(s) for s in spectra)
        key = (tuple(tuple(np.unique(h, return_inverse=True)[1].tolist()) for h in hashes), case["folds"],
               str(case["cap"]), case["seed"]) if multi else None
        if outcome == "reject-index":
            chk.case(None, key, sample=dict(case={k: str(v) for k, v in case.items()}, outcome=outcome))
            if model_reject:
                chk.reject("too-few-spectrum-groups-for-folds")
                whole_run_model_rejects("reject-IndexError")
                rr = common.driver_batch([req("brewrun", case["folds"], cap_arg(cap), csize(case["cread"], nmax),
                                              csize(case["cpred"], nmax), hashes)])[0].strip()
                chk.count("brewrun", "reject")
                if rr != "reject":
                    chk.corr_break("brewrun", dict(case=case, impl="IndexError", model=rr[:200], hashes=hashes))
            else:
                chk.corr_break("split", dict(case=case, impl="IndexError", model="folds", hashes=hashes))
            return
        if model_reject:
            chk.corr_break("split", dict(case=case, impl="folds", model="reject-index", hashes=hashes))
            return
        # ---- recover what the real run did
        if not all(m.is_trained for m in models):
            chk.reject("training-failed-zero-scores")     # brew returns all-zero scores then (C07's territory)
            return
        tags = [m.estimator.tag_ for m in models]
        problems = []
        if [m.fold for m in models] != list(range(1, case["folds"] + 1)):
            problems.append("models-not-in-fold-order")
        if len(set(tags)) != len(tags):
            problems.append("model-instances-shared")
        fold_of_tag = {t: f for f, t in enumerate(tags)}
        impl_folds, impl_routing, impl_trains = [], [], []
        for k, (df, sc) in enumerate(zip(tabs, scores)):
            sc = np.asarray(sc, dtype=np.int64).ravel()
            if len(sc) != len(df):
                problems.append("score-count")
                break
            tag = sc % recest.TAGMOD
            feat = sc // recest.TAGMOD
            if not np.array_equal(feat, df["feat0"].values.astype(np.int64)):
                problems.append("score-not-of-own-row")
            if any(int(t) not in fold_of_tag for t in tag):
                problems.append("scored-by-unknown-model")
                break
            routing = [fold_of_tag[int(t)] for t in tag]
            impl_routing.append(routing)
            impl_folds.append([[i for i, f in enumerate(routing) if f == g] for g in range(case["folds"])])
        if "score-count" in problems or "scored-by-unknown-model" in problems:
            chk.spec_violation("scores", dict(case=case, clause=problems[0]))
            return
        train_ids = []
        for f, t in enumerate(tags):
            ids = recest.training_rows(run, t)
            train_ids.append(ids or [])
        for k in range(case["nfiles"]):
            lo, hi = offs[k], offs[k] + len(tabs[k])
            impl_trains.append([[i - lo for i in train_ids[f] if lo <= i < hi] for f in range(case["folds"])])
        reqs = []
        for k in range(case["nfiles"]):
            reqs.append(req("brewspec", case["folds"], hashes[k], impl_folds[k], impl_trains[k], cap is not None,
                            impl_routing[k]))
        # expected sizes under the cap
        sizes = [[len(tabs[k]) - len(impl_folds[k][f]) for k in range(case["nfiles"])] for f in range(case["folds"])]
        if cap is not None:
            reqs.append(req("caps", cap, case["nfiles"], sizes))
        resp2 = common.driver_batch(reqs)
        for k in range(case["nfiles"]):
            failed = deep(a_str, dec(resp2[k]))
            failed = failed if isinstance(failed, list) else [failed]
            problems += [f"file{k}:{c}" for c in failed if c]
        if cap is not None:
            exp_sizes = deep(a_int, dec(resp2[-1]))
            got_sizes = [[len(impl_trains[k][f]) for k in range(case["nfiles"])] for f in range(case["folds"])]
            if got_sizes != exp_sizes:
                problems.append(f"cap-sizes got={got_sizes} expected={exp_sizes}")
        # estimator.fit must only ever see training rows
        for kind, t, ids, _y in recest.log(run):
            if kind == "fit" and t in fold_of_tag:
                if not set(ids) <= set(train_ids[fold_of_tag[t]]):
                    problems.append("estimator-fit-on-rows-outside-training-set")
                    break
        # the spectrum clauses re-stated on the real key tuples (independent of the hash expression)
        problems += key_level_problems(case, spectra, impl_routing, impl_folds, impl_trains)
        # model comparison: fold membership (as sets) is determined by the hashes
        model_ok = True
        for k in range(case["nfiles"]):
            mf = sorted(sorted(int(x) for x in fold) for fold in _as_lists(dec(resp[k])))
            if mf != sorted(sorted(f) for f in impl_folds[k]):
                model_ok = False
        chk.case(None, key, sample=dict(case={k: str(v) for k, v in case.items()}, outcome=outcome,
                                        fold_sizes=[[len(f) for f in fs] for fs in impl_folds]))
        info = dict(case=case, problems=problems[:6], hashes=hashes if ntot < 80 else "omitted",
                    impl_folds=impl_folds if ntot < 80 else "omitted")
        if problems:
            chk.spec_violation("cv-integrity:" + problems[0].split(" ")[0].split(":")[-1], dict(info, clause=problems[0]))
        elif not model_ok:
            chk.corr_break("split", info)
        if problems or not model_ok:
            return
        # ---- model of make_train_sets and of the whole run
        if not compare_train_model(chk, case, info, hashes, [len(t) for t in tabs], cap, nmax, impl_folds, impl_trains,
                                   impl_routing, train_ids, crange if lowered else None, dss):
            return
        if not compare_restore(chk, case, info, obs, scores, hashes, feats, cap, cra, cpa, impl_routing, train_ids, dss):
            return
        # ---- brew() again with the models just returned
        rescore(chk, case, info, paths, run, models, scores, fold_of_tag, hashes, impl_trains, cap, nmax)


def float_or_str(x):
    try:
        return float(x)
    except (TypeError, ValueError):
        return str(x)


def cap_arg(cap):
    """the cap on the wire: [] = absent, [c] = present"""
    return [] if cap is None else [int(cap)]


def key_level_problems(case, spectra, impl_routing, impl_folds, impl_trains):
    """C02 clauses on the spectrum-key tuples themselves: PSMs with the same key share a fold; no training row
    has the key of a row of the held-out fold (same collection)"""
    out = []
    for k in range(case["nfiles"]):
        keys = spectra[k]
        first = {}
        for i, key_ in enumerate(keys):
            if first.setdefault(key_, impl_routing[k][i]) != impl_routing[k][i]:
                out.append(f"file{k}:spectrum-split-across-folds(key)")
                break
        for f in range(case["folds"]):
            held = {keys[i] for i in impl_folds[k][f]}
            if any(keys[i] in held for i in impl_trains[k][f] if 0 <= i < len(keys)):
                out.append(f"file{k}:training-row-shares-spectrum-with-held-out-fold(key)")
                break
    return out


def check_choice_reject(chk, case, hashes, sizes, cap, nmax, crange=None):
    """brew raised the ValueError of rng.choice: the model of make_train_sets (fed with the model's folds, whose
    membership is determined by the hashes) must refuse too, and so must the whole-run model"""
    resp = common.driver_batch([req("split", case["folds"], h) for h in hashes])
    if any(x.strip() == "reject-index" for x in resp):
        chk.corr_break("split", dict(case=case, impl="past _split", model="reject-index", hashes=hashes))
        return
    mfolds = [[[int(x) for x in fold] for fold in _as_lists(dec(r_))] for r_ in resp]
    r = common.driver_batch([
        req("maketrain", cap_arg(cap), sizes, mfolds),
        req("brewrun", case["folds"], cap_arg(cap), csize(case["cread"], nmax), csize(case["cpred"], nmax), hashes),
        req("maketraincr", crange or BLOCK_LITERAL, cap_arg(cap), sizes, mfolds)])
    chk.count("maketrain", "reject-choice")
    chk.count("brewrun", "reject")
    chk.count("maketraincr", "reject-choice")
    if r[2].strip() != "reject-choice":
        chk.corr_break("maketraincr", dict(case=case, impl="ValueError(rng.choice)", model=r[2][:300], cap=cap,
                                           sizes=sizes, block_size=crange))
    elif r[0].strip() != "reject-choice":
        chk.corr_break("maketrain", dict(case=case, impl="ValueError(rng.choice)", model=r[0][:300], cap=cap,
                                         sizes=sizes))
    elif r[1].strip() != "reject":
        chk.corr_break("brewrun", dict(case=case, impl="ValueError(rng.choice)", model=r[1][:300]))


MAX_READER_CHUNKS = 60
_READER_MEMO = {}


def reader_chunks(ds, n, c):
    """what the REAL reader delivers to `_predict` for chunk size `c` (the call of brew.py:424-426 on the dataset
    object brew used): chunk lengths, whether the chunks carry the running row number as index, and the chunk lengths
    the REAL `utils.create_chunks` makes of a vector that long.  None for more than MAX_READER_CHUNKS chunks (chunks
    of one or two rows: reading them a second time costs as much as the brew call)"""
    if n > MAX_READER_CHUNKS * c:
        return None
    memo = _READER_MEMO.get((id(ds), c))
    if memo is not None and memo[0] is ds:
        return memo[1]
    lens, labels_ok, off = [], True, 0
    for ch in ds.read_data(columns=ds.columns, chunk_size=c):
        if list(ch.index) != list(range(off, off + len(ch))):
            labels_ok = False
        lens.append(len(ch))
        off += len(ch)
    cc = [len(x) for x in P.mod("mokapot.utils").create_chunks(data=np.arange(off), chunk_size=c)]
    if len(_READER_MEMO) > 8:
        _READER_MEMO.clear()
    _READER_MEMO[(id(ds), c)] = (ds, (lens, labels_ok, cc))      # (the third pass asks for the same chunks again)
    return lens, labels_ok, cc


def compare_train_model(chk, case, info, hashes, sizes, cap, nmax, impl_folds, impl_trains, impl_routing, train_ids,
                        crange=None, dss=()):
    """training sets of the real run vs `makeTrainSets` (per fold and file: everything outside the held-out fold
    without sub-sampling, exactly the file's share with it), vs `makeTrainSetsCr` with the block size the real inner
    loop ran with, and vs the whole-run model `brewRun` (training table of every fold model over all files, routing
    of every row); the routing of every file vs the two-chunker model `predictTwo` fed with the chunk lengths the real
    reader delivers.  Returns False when something was reported."""
    nf, folds = case["nfiles"], case["folds"]
    cp = csize(case["cpred"], nmax)
    rdr = [reader_chunks(ds, len(impl_routing[k]), cp) for k, ds in enumerate(dss)]
    for x in rdr:
        if x is None:
            chk.count("reader-chunks", "not-reread(>%d)" % MAX_READER_CHUNKS)
    rdr = [(k, x) for k, x in enumerate(rdr) if x is not None]
    r = common.driver_batch([
        req("maketrain", cap_arg(cap), sizes, impl_folds),
        req("brewrun", folds, cap_arg(cap), csize(case["cread"], nmax), cp, hashes),
        req("maketraincr", crange or BLOCK_LITERAL, cap_arg(cap), sizes, impl_folds)] +
        [req("predicttwo", x[0], cp, folds, impl_routing[k]) for k, x in rdr])
    # ---- `_predict`: reader chunks + create_chunks (the real run went through, so the model must not refuse, and
    # every row must be scored by the model of its own routing entry)
    for j, (k, (lens, labels_ok, cc)) in enumerate(rdr):
        chk.count("reader-chunks", "1" if len(lens) == 1 else ("2-3" if len(lens) <= 3 else ">3"))
        got = dec(r[3 + j])
        exp = [f * 1000000 + p_ for p_, f in enumerate(impl_routing[k])]
        bad = None
        if not labels_ok:
            bad = "reader chunks do not carry the running row number as index"
        elif sum(lens) != len(impl_routing[k]):
            bad = f"reader delivered {sum(lens)} rows of {len(impl_routing[k])}"
        elif lens != cc:
            bad = f"reader chunk lengths {lens[:8]} differ from create_chunks lengths {cc[:8]} (brew went through)"
        elif not isinstance(got, list):
            bad = f"model refuses: {got}"
        elif [int(x) for x in got] != exp:
            bad = "model routes differently"
        chk.count("predicttwo", "ok" if bad is None else "differs")
        if bad is not None:
            chk.corr_break("predicttwo", dict(info, file=k, chunk_size=cp, reader_lengths=lens[:20], why=bad))
            return False
    mt = dec(r[0])
    if not isinstance(mt, list):
        chk.count("maketrain", str(mt))
        chk.corr_break("maketrain", dict(info, impl="training sets", model=str(mt)))
        return False
    mtc = dec(r[2])
    chk.count("maketraincr", "ok" if isinstance(mtc, list) else str(mtc))
    if not isinstance(mtc, list):
        chk.corr_break("maketraincr", dict(info, impl="training sets", model=str(mtc), block_size=crange))
        return False
    for f, ent in enumerate(mtc):
        flag, per_file = common.a_bool(ent[0]), ent[1]
        for k in range(nf):
            m = [int(x) for x in per_file[k]]
            got = impl_trains[k][f]
            if not ((len(got) == len(m)) if flag else (sorted(got) == sorted(m))):
                chk.corr_break("maketraincr", dict(info, fold=f, file=k, subsampled=flag, block_size=crange,
                                                   impl=sorted(got)[:50], model=m[:50]))
                return False
    applies, bad = [], None
    for f, ent in enumerate(mt):
        flag, per_file = common.a_bool(ent[0]), ent[1]
        applies.append(flag)
        for k in range(nf):
            m = [int(x) for x in per_file[k]]
            got = impl_trains[k][f]
            ok = (len(got) == len(m)) if flag else (sorted(got) == sorted(m))
            if not ok and bad is None:
                bad = dict(fold=f, file=k, subsampled=flag, impl=got[:50], model=m[:50])
    if len(mt) != folds and bad is None:
        bad = dict(model_folds=len(mt))
    chk.count("maketrain", "ok")
    chk.count("cap-applies", "none" if not any(applies) else ("all-folds" if all(applies) else "some-folds"))
    if bad is not None:
        chk.corr_break("maketrain", dict(info, **bad))
        return False
    br = dec(r[1])
    if not isinstance(br, list):
        chk.count("brewrun", str(br))
        chk.corr_break("brewrun", dict(info, impl="scores", model=str(br)))
        return False
    chk.count("brewrun", "ok")
    models_m, routing_m = br
    bad = None
    if len(models_m) != folds:
        bad = dict(model_models=len(models_m))
    for f, ent in enumerate(models_m):
        if bad is not None:
            break
        num, rows = int(ent[0]), [int(x) for x in ent[1]]
        got = train_ids[f]
        ok = num == f + 1 and ((len(got) == len(rows)) if applies[f] else (sorted(got) == sorted(rows)))
        if not ok:
            bad = dict(fold=f, model_fold_number=num, subsampled=applies[f], impl=sorted(got)[:50], model=sorted(rows)[:50])
    for k in range(nf):
        if bad is None and [int(x) for x in routing_m[k]] != impl_routing[k]:
            bad = dict(file=k, impl_routing=impl_routing[k][:80], model_routing=[int(x) for x in routing_m[k]][:80])
    if bad is not None:
        chk.corr_break("brewrun", dict(info, **bad))
        return False
    return True


def compare_restore(chk, case, info, obs, scores, hashes, feats, cap, cra, cpa, impl_routing, train_ids, dss):
    """third pass: the order-restoring steps of `brew` as the code computes them.  What the REAL `_predict` collected
    (labels per fold, stacked scores per fold) and the REAL held-out folds are compared with `foldLabels`,
    `gather`/`argsortStable` (op `restoreorder`: fed with the real labels, it must reproduce the real final score
    vector from the real per-fold scores), `routeA` (real folds -> the routing read from the scores),
    `predictTwoA` and the whole-run model `brewRunA`.  Returns False when something was reported."""
    nf, folds = case["nfiles"], case["folds"]
    labels, fsc = obs.labels(), obs.fold_scores()
    observed = obs.installed and len(labels) == nf and len(fsc) == nf and obs.test_idx is not None and \
        len(obs.test_idx) == nf
    chk.count("predict-observed", "yes" if observed else ("no-hooks" if not obs.installed else "partly"))
    reqs = [req("brewruna", folds, cap_arg(cap), cra, cpa, hashes, feats)]
    rdr = []
    if observed:
        for k, ds in enumerate(dss):
            x = reader_chunks(ds, len(impl_routing[k]), cpa)
            rdr.append(x)
            reqs.append(req("restoreorder", labels[k]))
            reqs.append(req("routea", obs.test_idx[k]))
            if x is not None:
                reqs.append(req("foldlabels", x[0], cpa, folds, impl_routing[k]))
                reqs.append(req("predicttwoa", x[0], cpa, folds, impl_routing[k]))
    r = common.driver_batch(reqs)
    # ---- whole run, every step as the code has it
    br = dec(r[0])
    if not isinstance(br, list):
        chk.count("brewruna", str(br))
        chk.corr_break("brewruna", dict(info, impl="scores", model=str(br)))
        return False
    chk.count("brewruna", "ok")
    models_m, masks_m, rows_m = br
    bad = None
    if len(models_m) != folds:
        bad = dict(model_models=len(models_m))
    for f, ent in enumerate(models_m):
        if bad is None and (int(ent[0]) != f + 1 or len(ent[1]) != len(train_ids[f])):
            bad = dict(fold=f, model_fold_number=int(ent[0]), model_train=len(ent[1]), impl_train=len(train_ids[f]))
    off = 0
    for k in range(nf):
        if bad is None:
            mk, rk = [int(x) for x in masks_m[k]], [int(x) for x in rows_m[k]]
            if rk != list(range(off, off + len(impl_routing[k]))):
                bad = dict(file=k, why="model scores are not those of the rows in input order")
            elif len(mk) != len(impl_routing[k]) or any(not (m >> f) & 1 for m, f in zip(mk, impl_routing[k])):
                bad = dict(file=k, why="a row is scored by a model other than the one the real run used",
                           impl_routing=impl_routing[k][:60], model_masks=mk[:60])
            elif cap is None and any(m != 1 << f for m, f in zip(mk, impl_routing[k])):
                bad = dict(file=k, why="model score produced by more than one training table without sub-sampling")
        off += len(impl_routing[k])
    if bad is not None:
        chk.corr_break("brewruna", dict(info, **bad))
        return False
    if not observed:
        return True
    # ---- per collection: labels, argsort + fancy indexing, routing vector
    j = 1
    for k in range(nf):
        final = np.asarray(scores[k]).ravel()
        tok = dec(r[j]); ra = dec(r[j + 1]); j += 2
        fl = pa = None
        if rdr[k] is not None:
            fl, pa = dec(r[j]), dec(r[j + 1]); j += 2
        bad = None
        n = len(impl_routing[k])
        if [len(x) for x in labels[k]] != [len(x) for x in fsc[k]]:
            bad = ("restoreorder", "labels and scores collected per fold differ in number")
        elif not isinstance(tok, list) or len(tok) != n:
            bad = ("restoreorder", f"model restores {len(tok) if isinstance(tok, list) else tok} positions of {n}")
        else:
            exp = [fsc[k][int(t) // 1000000][int(t) % 1000000] for t in tok]
            if not np.array_equal(np.asarray(exp, dtype=final.dtype), final):
                bad = ("restoreorder", "concatenate(scores)[argsort(labels)] of the model differs from the returned scores")
        if bad is None and [int(x) for x in _flat(ra)] != impl_routing[k]:
            bad = ("routea", "routing vector of the real folds differs from the models that scored the rows")
        if bad is None and fl is not None:
            if not isinstance(fl, list) or [[int(x) for x in _flat(f_)] for f_ in fl] != labels[k]:
                bad = ("foldlabels", "labels collected per fold differ from get_index_values' "
                       f"(model {str(fl)[:120]} / real {str(labels[k])[:120]})")
            elif not isinstance(pa, list) or [int(x) for x in pa] != [f * 1000000 + p_ for p_, f in enumerate(impl_routing[k])]:
                bad = ("predicttwoa", f"model of _predict (hstack/argsort) differs: {str(pa)[:120]}")
        chk.count("restore", "ok" if bad is None else bad[0])
        chk.count("prediction-blocks", "not-reread" if rdr[k] is None else
                  ("1" if len(rdr[k][0]) == 1 else ("2-3" if len(rdr[k][0]) <= 3 else ">3")))
        if bad is not None:
            chk.corr_break(bad[0], dict(info, file=k, why=bad[1]))
            return False
    return True


def _flat(v):
    return v if isinstance(v, list) else [v]


RESCORE_ERR = {"reject-ValueError": (ValueError, "must match the number of folds"),
               "reject-RuntimeError": (RuntimeError, "not previously trained"),
               "reject-TypeError": (TypeError, "not supported between instances of")}


def rescore(chk, case, info, paths, run, models, scores, fold_of_tag, hashes, impl_trains, cap, nmax):
    """`brew(psms, model=[the models just returned])` in another order / with one missing, one too many or one
    untrained, another seed and prediction chunk size: accepted iff the model `pretrained` accepts; then every
    PSM must again be scored by a model that was trained without its spectrum (training sets of the FIRST run),
    the models come back in fold order and the scores are those of the first run (C02_rescoring_same_scores)"""
    import random
    import mokapot

    kind = case.get("rescore")
    if not kind:
        return
    folds = case["folds"]
    r2 = random.Random(case["data_seed"] + 7)
    given = list(models)
    if kind != "same":
        r2.shuffle(given)
    if kind == "missing":
        given = given[:-1]
    elif kind == "extra":
        given = given + [given[0]]
    elif kind == "untrained":
        j = r2.randrange(len(given))
        fresh = mokapot.Model(recest.TagProba(run=run), scaler="as-is", train_fdr=0.5, max_iter=2, override=True, rng=0)
        fresh.fold = given[j].fold
        given[j] = fresh
    elif kind in ("nofold-one", "nofold-all"):
        # models that did not go through brew's fit loop carry no fold number (Model.fold is None)
        js = range(len(given)) if kind == "nofold-all" else [r2.randrange(len(given))]
        for j in js:
            given[j] = copy.copy(given[j])
            given[j].fold = None
    chk.count("rescore", kind)
    nofold = any(m.fold is None for m in given)
    resp = common.driver_batch(
        [req("pretrainedopt", folds, [[] if m.fold is None else [int(m.fold)] for m in given],
             [bool(m.is_trained) for m in given])] +
        ([] if nofold else [req("pretrained", folds, [int(m.fold) for m in given], [bool(m.is_trained) for m in given])]))
    exp = dec(resp[0])
    if not nofold and dec(resp[1]) != exp:
        chk.corr_break("pretrainedopt", dict(info, rescore=kind, model_opt=str(exp), model=str(dec(resp[1]))))
        return
    dss2 = [mkdata.read_dataset(p) for p in paths]
    try:
        with P.chunk_sizes(predict=csize(case["cpred2"], nmax)):
            _, models2, scores2, _ = mokapot.brew(dss2, given, test_fdr=0.5, folds=folds,
                                                  max_workers=case["workers"], rng=case["seed2"])
        got = "ok"
    except (ValueError, RuntimeError, TypeError) as e:
        got = None
        for name, (cls, msg) in RESCORE_ERR.items():
            if type(e) is cls and msg in str(e):
                got = name
        if got is None:
            chk.spec_violation("exception:rescore-" + type(e).__name__,
                               dict(info, error=str(e)[:300], clause="brew with the returned models raised"))
            return
    except Exception as e:
        chk.spec_violation("exception:rescore-" + type(e).__name__,
                           dict(info, rescore=kind, error=str(e)[:300],
                                clause="brew with the returned models raised " + type(e).__name__))
        return
    chk.count("rescore-outcome", got)
    info = dict(info, rescore=kind, given_folds=[None if m.fold is None else int(m.fold) for m in given])
    refused_by_model = not isinstance(exp, list)
    if refused_by_model:
        if got != exp:
            chk.corr_break("pretrained", dict(info, impl=got, model=exp))
        if not (got == "ok" and kind.startswith("nofold")):
            return
        # the real code accepted the first run's models without their fold numbers: they are still the models of
        # this run's folds, so the property applies to what it did with them (evaluated below)
    elif got != "ok":
        chk.corr_break("pretrained", dict(info, impl=got, model="accepted"))
        return
    # the property on the second run: routing by the identity (tag) of the scoring model, training sets of run 1
    problems = []
    if not refused_by_model and [m.fold for m in models2] != list(range(1, folds + 1)):
        problems.append("rescore-models-not-in-fold-order")
    reqs, routings2 = [], []
    for k, sc in enumerate(scores2):
        sc = np.asarray(sc, dtype=np.int64).ravel()
        tag = sc % recest.TAGMOD
        if len(sc) != len(hashes[k]) or any(int(t) not in fold_of_tag for t in tag):
            chk.spec_violation("scores", dict(info, clause="rescore: score-count / scored-by-unknown-model"))
            return
        routing = [fold_of_tag[int(t)] for t in tag]
        routings2.append(routing)
        folds2 = [[i for i, f in enumerate(routing) if f == g] for g in range(folds)]
        reqs.append(req("brewspec", folds, hashes[k], folds2, impl_trains[k], cap is not None, routing))
    for k, r_ in enumerate(common.driver_batch(reqs)):
        failed = deep(a_str, dec(r_))
        failed = failed if isinstance(failed, list) else [failed]
        problems += [f"file{k}:rescore-{c}" for c in failed if c]
    if problems:
        chk.spec_violation("cv-integrity:" + problems[0].split(":")[-1], dict(info, problems=problems[:6], clause=problems[0]))
        return
    if refused_by_model:
        return
    order_ok = [given[int(p_)].estimator.tag_ for p_ in exp] == [m.estimator.tag_ for m in models2]
    same = all(np.array_equal(np.asarray(a).ravel(), np.asarray(b).ravel()) for a, b in zip(scores, scores2))
    if not order_ok:
        chk.corr_break("pretrained", dict(info, impl=[m.estimator.tag_ for m in models2], model=exp))
    elif not same:
        chk.corr_break("rescore", dict(info, impl="scores differ from the first run"))


def _as_lists(v):
    if isinstance(v, list):
        return [x if isinstance(x, list) else [x] for x in v]
    return [[v]]


def predict_sweep(chk):
    """pure model/spec sweep of the prediction routing for all chunk sizes (model side sanity, cheap)"""
    reqs, exp = [], []
    for n in range(1, 7):
        for routing in ([i % 2 for i in range(n)], [0] * n, [(i * 7) % 3 for i in range(n)]):
            for c in range(1, n + 2):
                reqs.append(req("predictid", c, 3, routing))
                exp.append([f * 1000000 + p for p, f in enumerate(routing)])
    for r, e in zip(common.driver_batch(reqs), exp):
        got = deep(a_int, dec(r))
        got = got if isinstance(got, list) else [got]
        if got != e:
            chk.corr_break("predictid", dict(got=got, expected=e))


def search(chk):
    for _ in range(40 * chk.budget_mult):
        c = gen_case(chk.rng)
        c["max_per"] = 5
        run_case(chk, c)
        if chk.spec_violations:
            return


def main(chk, args):
    build = common.build_and_audit("C02", extra_targets=["MokapotVerif.Mutants.Brew", "MokapotVerif.Mutants.BrewBlocks",
                                                          "MokapotVerif.Mutants.BrewRestore"])
    if not build.driver_ok:
        chk.finish(build, RULE)
    predict_sweep(chk)
    n = chk.scale(40 if chk.tier == "quick" else 400)
    for _ in range(n):
        run_case(chk, gen_case(chk.rng))
    lc = None
    if chk.tier == "thorough":
        lcs = [common.leanchecker("C02"), common.leanchecker("C02Multi"), common.leanchecker("C02Blocks"),
               common.leanchecker("C02Restore")]
        lc = (all(x[0] for x in lcs), "\n".join(x[1] for x in lcs))
    chk.assumptions += [
        "the recording estimator observes the rows handed to Model.fit through the first scoring call of the "
        "training loop; which model scored a row is read from the low bits of the returned score",
        "crc32 hashes are computed by the harness with the expression of dataset.py:653-661 on the dataset's "
        "spectra_dataframe and handed to the model; zlib.crc32, numpy argsort/unique/searchsorted/split are trusted",
        "joblib returns task results in submission order; list.append is atomic under the GIL",
        "re-scoring: which model scored a row in the second brew() call is read from the score tag of the model "
        "instance (assigned at its first fit in the first call); its training rows are those logged in the first call",
        "the inner block loop of make_train_sets (literal block size 5 000 000) is entered by running the real "
        "function re-created from its own code object with that one constant lowered (histogram `block-loop`); with "
        "the literal itself no file of that size is generated (C02_make_train_sets_any_block covers every block size)",
        "the spectrum keys used by the key-level clauses are those of the generated tables; the hash vector handed to "
        "the Lean model is still computed from the parsed dataset with the code's own expression (its values, not "
        "only its equalities, decide the folds)",
        "predicttwo: the chunk lengths and row labels are those a second pass of the real reader over the same file "
        "delivers (the reader is deterministic)",
        "third pass: orig_idx / fold_scores / test_folds_idx of the real run are observed by wrapping the module-level "
        "functions get_index_values, predict_fold and make_train_sets of mokapot.brew (each wrapper calls the real "
        "function unchanged; histogram `predict-observed`); np.argsort on distinct labels has one possible result, "
        "the driver's insertion sort gives it (C02_argsort_restores_order holds for any argsort)",
    ]
    chk.finish(build, RULE, search=search, lc=lc,
               trusted_extra=["numpy argsort/unique/searchsorted/split/Generator, joblib, pandas concat/reindex"])


def replay(chk, path):
    info = json.loads(open(path).read())
    case = info.get("case")
    if not isinstance(case, dict) or "folds" not in case:
        print(json.dumps(info, indent=1)[:3000])
        return 0
    common.build_and_audit("C02")
    case["optional"] = tuple(case["optional"])
    run_case(chk, case)
    for sig, i in chk.spec_violations:
        print("REPRODUCED", sig, i.get("clause"))
    return 1 if chk.spec_violations else 0
